"""PyVC: verification-condition generator for a Python subset (see DESIGN.md §1)."""
