"""PyVC core: path exploration by decision replay, verification conditions, solvers.

One *path* is one execution of the function under verification from its entry with
fresh symbolic inputs.  Symbolic branches consult a decision vector; unexplored
alternatives are pushed on a work list and the function is re-executed from the
start (no state copying, so heap objects are plain mutable Python objects).
"""
from __future__ import annotations
import time, subprocess, tempfile, os, hashlib
import z3

z3.set_param('smt.random_seed', 0)
z3.set_param('sat.random_seed', 0)

DEBUG = bool(os.environ.get('PYVC_DEBUG'))
Z_TRUE = z3.BoolVal(True)
Z_FALSE = z3.BoolVal(False)


class PathEnd(Exception):
    """The current path stops here (cut point reached or path infeasible)."""


class Unsupported(Exception):
    """Construct outside the supported Python subset: the function is undecided."""


class CheckerBug(Exception):
    """Internal inconsistency of the checker (exit 3)."""


class VC:
    __slots__ = ('name', 'hyps', 'goal', 'path', 'meta', 'status', 'backend',
                 'time', 'model', 'reason', 'kind', 'func')

    def __init__(self, name, hyps, goal, path, meta=None, kind='obligation', func=None):
        self.name = name
        self.hyps = hyps
        self.goal = goal
        self.path = path
        self.meta = meta or {}
        self.status = None      # discharged | refuted | unknown
        self.backend = None
        self.time = 0.0
        self.model = None
        self.reason = ''
        self.kind = kind        # obligation | cover | mustfail
        self.func = func


def has_quantifier(f, _cache={}):
    if not isinstance(f, z3.ExprRef):
        return False
    todo, seen = [f], set()
    while todo:
        t = todo.pop()
        i = t.get_id()
        if i in seen:
            continue
        seen.add(i)
        if z3.is_quantifier(t):
            return True
        todo.extend(t.children())
    return False


def zsimp(f):
    return z3.simplify(f) if isinstance(f, z3.ExprRef) else f


def as_bool(v):
    if isinstance(v, bool):
        return Z_TRUE if v else Z_FALSE
    return v


class Engine:
    """Path explorer + VC collector."""

    def __init__(self, func_name='?', timeout_ms=10000, feas_timeout_ms=1500,
                 max_paths=4000):
        self.func_name = func_name
        self.timeout_ms = timeout_ms
        self.feas_timeout_ms = feas_timeout_ms
        self.max_paths = max_paths
        self.axioms = []            # global hypotheses (quantified spec axioms, lemmas)
        self.vcs = []
        self.paths = 0
        self.pending = []
        self.prefix = []
        self.pos = 0
        self.initial_len = 0
        self.pc = []
        self.counter = {}
        self.solver = None
        self.notes = []             # free-form notes (havocked calls etc.)
        self.havocs = set()
        self.strlits = {}
        self.trace = []
        self.path_exits = []        # (kind, detail) per finished path
        self.ghost = {}
        self.time_budget_s = 600

    # ------------------------------------------------------------------ symbols
    def fresh_name(self, base):
        k = self.counter.get(base, 0)
        self.counter[base] = k + 1
        return f'{base}!{k}' if k else base

    def int(self, base):
        return z3.Int(self.fresh_name(base))

    def bool(self, base):
        return z3.Bool(self.fresh_name(base))

    def real(self, base):
        return z3.Real(self.fresh_name(base))

    def const(self, base, sort):
        return z3.Const(self.fresh_name(base), sort)

    def array(self, base, dom=None, rng=None):
        return z3.Array(self.fresh_name(base), dom or z3.IntSort(), rng or z3.IntSort())

    def func(self, base, *sorts):
        return z3.Function(self.fresh_name(base), *sorts)

    # ------------------------------------------------------------------ paths
    def explore(self, run):
        """run(engine) executes the function once along the current decisions."""
        self.pending = [[]]
        self.t0 = time.time()
        while self.pending:
            if self.paths >= self.max_paths:
                raise Unsupported(f'{self.func_name}: more than {self.max_paths} paths')
            prefix = self.pending.pop()
            self.prefix = list(prefix)
            self.initial_len = len(prefix)
            self.pos = 0
            self.pc = []
            self.counter = {}
            self.ghost = {}
            self.trace = []
            self.solver = z3.Solver()
            self.solver.set('timeout', self.feas_timeout_ms)
            for a in self.axioms:
                if not has_quantifier(a):
                    self.solver.add(a)
            try:
                run(self)
            except PathEnd:
                pass
            self.paths += 1
            if DEBUG:
                print(f'[pyvc] path {self.paths} pending={len(self.pending)} t={time.time()-self.t0:.1f}s '
                      f'trace={[(l, d) for l, d in self.trace][-6:]}', flush=True)
            if time.time() - self.t0 > self.time_budget_s:
                raise Unsupported(f'{self.func_name}: exploration exceeded {self.time_budget_s}s')

    def recording(self):
        return self.pos >= self.initial_len

    def assume(self, f):
        f = as_bool(f)
        self.pc.append(f)
        # feasibility pruning uses the quantifier-free part only (an over-approximation: sound)
        if not has_quantifier(f):
            self.solver.add(f)

    def feasible(self, cond):
        t = time.time()
        r = self.solver.check(cond)
        dt = time.time() - t
        if DEBUG and dt > 0.5:
            print(f'[pyvc] slow feasibility {dt:.1f}s -> {r}: {str(cond)[:100]}', flush=True)
        return r != z3.unsat

    def branch(self, cond, label=''):
        """Decide a symbolic condition; returns the Python bool chosen on this path."""
        if isinstance(cond, bool):
            return cond
        cond = z3.simplify(cond)
        if z3.is_true(cond):
            return True
        if z3.is_false(cond):
            return False
        if self.pos < len(self.prefix):
            d = self.prefix[self.pos]
        else:
            ft = self.feasible(cond)
            ff = self.feasible(z3.Not(cond))
            if ft and ff:
                self.pending.append(self.prefix[:self.pos] + [False])
                d = True
            elif ft:
                d = True
            elif ff:
                d = False
            else:
                raise PathEnd()
            self.prefix.append(d)
        self.pos += 1
        self.assume(cond if d else z3.Not(cond))
        self.trace.append((label, d))
        return d

    def choose(self, n, label=''):
        """Non-deterministic choice among n alternatives (all feasible)."""
        for i in range(n - 1):
            b = self.bool(f'choice_{label}')
            if self.branch(b, label):
                return i
        return n - 1

    def end_path(self):
        raise PathEnd()

    # ------------------------------------------------------------------ VCs
    def prove(self, name, goal, kind='obligation', **meta):
        goal = as_bool(goal)
        if not self.recording():
            return
        g = z3.simplify(goal)
        vc = VC(name, list(self.pc), goal, list(self.prefix[:self.pos]), meta, kind,
                self.func_name)
        if z3.is_true(g) and kind == 'obligation':
            vc.status = 'discharged'
            vc.backend = 'simplifier'
        self.vcs.append(vc)

    def prove_all(self, items, prefix=''):
        for n, g in items:
            self.prove(prefix + n, g)

    def cover(self, name, cond=True):
        """Reachability witness: pc ∧ cond must be satisfiable."""
        self.prove(name, as_bool(cond), kind='cover')

    def note(self, s):
        if s not in self.notes:
            self.notes.append(s)

    # ------------------------------------------------------------------ strings
    StrSort = z3.DeclareSort('PyStr')

    def strlit(self, s):
        c = self.strlits.get(s)
        if c is None:
            h = hashlib.sha1(s.encode()).hexdigest()[:8]
            c = z3.Const(f'str!{h}!{len(self.strlits)}', self.StrSort)
            self.strlits[s] = c
        return c

    def strlit_axioms(self):
        cs = list(self.strlits.values())
        return [z3.Distinct(*cs)] if len(cs) > 1 else []


# ---------------------------------------------------------------------- solving

def _cvc5_check(smt2, timeout_ms):
    """Run /usr/bin/cvc5 (or the wheel's binary) on an SMT-LIB script."""
    exe = '/usr/bin/cvc5'
    if not os.path.exists(exe):
        return 'unknown', 'cvc5 not found'
    with tempfile.NamedTemporaryFile('w', suffix='.smt2', delete=False) as fh:
        fh.write(smt2)
        path = fh.name
    try:
        out = subprocess.run([exe, '--lang=smt2', f'--tlimit={timeout_ms}', path],
                             capture_output=True, text=True, timeout=timeout_ms / 1000 + 5)
        txt = out.stdout.strip().splitlines()
        res = txt[0].strip() if txt else 'unknown'
        if res not in ('sat', 'unsat', 'unknown'):
            res = 'unknown'
        return res, (out.stdout + out.stderr)[:400]
    except subprocess.TimeoutExpired:
        return 'unknown', 'cvc5 timeout'
    finally:
        os.unlink(path)


def discharge(vc, axioms, timeout_ms=10000, use_cvc5=True, also_cvc5=False):
    """Decide one VC. obligation: hyps ⇒ goal valid; cover: hyps ∧ goal sat;
    mustfail: hyps ⇒ goal must NOT be valid."""
    if vc.status is not None:
        return vc
    t0 = time.time()
    s = z3.Solver()
    s.set('timeout', timeout_ms)
    for a in axioms:
        s.add(a)
    for h in vc.hyps:
        s.add(h)
    if vc.kind == 'cover':
        # reachability witness: decided on the quantifier-free part first (an over-approximation of
        # satisfiability that is decidable); the full formula may then only refute it
        qf = z3.Solver()
        qf.set('timeout', timeout_ms)
        for h in list(axioms) + list(vc.hyps) + [vc.goal]:
            if not has_quantifier(h):
                qf.add(h)
        r0 = qf.check()
        s.add(vc.goal)
        s.set('timeout', min(timeout_ms, 2000))
        r = s.check()
        if r == z3.unknown and r0 == z3.sat:
            r = z3.sat
            vc.reason = 'cover decided on the quantifier-free part'
    else:
        s.add(z3.Not(vc.goal))
        r = s.check()
    vc.backend = 'z3-' + z3.get_version_string()
    if r == z3.unknown:
        vc.reason = s.reason_unknown()
        if use_cvc5 and vc.kind != 'cover':
            smt2 = '(set-logic ALL)\n' + s.to_smt2()
            res, out = _cvc5_check(smt2, timeout_ms)
            if res in ('sat', 'unsat'):
                r = z3.sat if res == 'sat' else z3.unsat
                vc.backend = 'cvc5'
                vc.reason = ''
    if r == z3.unknown and vc.kind == 'obligation' and z3.is_false(z3.simplify(vc.goal)):
        # a "this point must not be reached" obligation: refuting it needs a model of the whole path, which the
        # solvers rarely produce under quantified hypotheses. Reachability is then decided on the quantifier-free
        # part of the hypotheses (as for covers); the reason is recorded with the verdict.
        qf = z3.Solver()
        qf.set('timeout', timeout_ms)
        for h in list(axioms) + list(vc.hyps):
            if not has_quantifier(h):
                qf.add(h)
        if qf.check() == z3.sat:
            r = z3.sat
            s = qf      # the witness is a model of the quantifier-free part
            vc.reason = 'reached: decided on the quantifier-free part of the path condition (quantified hypotheses left out)'
    if r != z3.unknown and also_cvc5 and not vc.reason.startswith('reached:') and vc.backend.startswith('z3'):
        smt2 = '(set-logic ALL)\n' + s.to_smt2()
        res, out = _cvc5_check(smt2, timeout_ms)
        if res in ('sat', 'unsat') and res != str(r):
            raise CheckerBug(f'solver disagreement on {vc.name}: z3={r} cvc5={res}')
        if res in ('sat', 'unsat'):
            vc.backend += '+cvc5'
    vc.time = time.time() - t0
    rs = str(r)
    if vc.kind in ('cover', 'mustfail'):
        vc.status = {'sat': 'discharged', 'unsat': 'refuted'}.get(rs, 'unknown')
    else:
        vc.status = {'unsat': 'discharged', 'sat': 'refuted'}.get(rs, 'unknown')
        if rs == 'sat' and vc.backend.startswith('z3'):
            vc.model = s.model()
    return vc


def _model_to_dict(m):
    out = {}
    if m is None:
        return None
    for d in m.decls():
        try:
            v = m[d]
            if isinstance(v, z3.FuncInterp):
                ents = {}
                for i in range(v.num_entries()):
                    en = v.entry(i)
                    ents[','.join(str(en.arg_value(j)) for j in range(en.num_args()))] = str(en.value())
                ents['else'] = str(v.else_value())[:200]
                out[d.name()] = ents
            else:
                out[d.name()] = str(v)[:400]
        except Exception:
            out[d.name()] = '?'
    return out


def discharge_all(vcs, axioms, timeout_ms=10000, also_cvc5=False, jobs=4):
    """Discharge VCs in forked children (hard kill on a solver that ignores its timeout)."""
    import json, select, signal
    todo = [i for i, vc in enumerate(vcs) if vc.status is None]
    running = {}
    hard = timeout_ms / 1000.0 * (2.5 if also_cvc5 else 2.2) + 5

    def start(i):
        r, w = os.pipe()
        pid = os.fork()
        if pid == 0:
            os.close(r)
            code = 0
            try:
                vc = vcs[i]
                try:
                    discharge(vc, axioms, timeout_ms, True, also_cvc5)
                    res = dict(status=vc.status, backend=vc.backend, time=vc.time, reason=vc.reason,
                               model=_model_to_dict(vc.model))
                except CheckerBug as ex:
                    res = dict(status='crash', backend='', time=0, reason=str(ex), model=None)
                os.write(w, json.dumps(res).encode())
            except BaseException as ex:
                try:
                    os.write(w, json.dumps(dict(status='unknown', backend='', time=0,
                                                reason=f'child error {ex!r}', model=None)).encode())
                except Exception:
                    pass
            finally:
                os._exit(code)
        os.close(w)
        running[pid] = (i, r, time.time())

    while todo or running:
        while todo and len(running) < jobs:
            start(todo.pop(0))
        # reap
        for pid in list(running):
            i, r, t0 = running[pid]
            done, _ = os.waitpid(pid, os.WNOHANG)
            if done:
                data = b''
                while True:
                    chunk = os.read(r, 65536)
                    if not chunk:
                        break
                    data += chunk
                os.close(r)
                del running[pid]
                vc = vcs[i]
                try:
                    res = json.loads(data.decode())
                except Exception:
                    res = dict(status='unknown', backend='', time=time.time() - t0, reason='no result from solver child', model=None)
                if res['status'] == 'crash':
                    raise CheckerBug(res['reason'])
                vc.status, vc.backend, vc.time, vc.reason = res['status'], res['backend'], res['time'], res['reason']
                vc.model = res['model']
            elif time.time() - t0 > hard:
                try:
                    os.kill(pid, signal.SIGKILL)
                    os.waitpid(pid, 0)
                except Exception:
                    pass
                os.close(r)
                del running[pid]
                vc = vcs[i]
                vc.status, vc.backend, vc.time, vc.reason = 'unknown', 'z3', time.time() - t0, 'hard timeout (solver ignored its limit)'
        if running:
            time.sleep(0.005)
    return vcs
