#!/bin/bash
# usage: mut.sh <contracts module> <filter> <file> <old> <new>   (scratch copy under /tmp/mut, removed afterwards)
set -e
rm -rf /tmp/mut && mkdir -p /tmp/mut && cp -r /repo/moPepGen /tmp/mut/
python3 - "$3" "$4" "$5" <<'P'
import sys
p='/tmp/mut/'+sys.argv[1]; s=open(p).read()
assert s.count(sys.argv[2])>=1, 'pattern not found'
s=s.replace(sys.argv[2], sys.argv[3], 1); open(p,'w').write(s)
P
cd /verif && PYVC_REPO=/tmp/mut .venv/bin/python -m pyvc.dev "$1" "$2" 2>&1 | grep -E "^(==|   \[|   note)" | cut -c1-220
rm -rf /tmp/mut
