"""Symbolic values of the PyVC interpreter."""
from __future__ import annotations
import z3


class _Undef:
    def __repr__(self):
        return 'UNDEF'


UNDEF = _Undef()


class SymObj:
    """A record: instance of a (repo or modelled) class, value = field map."""
    __slots__ = ('cls', 'fields', 'tag')

    def __init__(self, cls, **fields):
        self.cls = cls
        self.fields = dict(fields)
        self.tag = None

    def __repr__(self):
        return f'<{self.cls} {" ".join(f"{k}={v!r}" for k, v in list(self.fields.items())[:6])}>'


class ModuleRef:
    def __init__(self, name):
        self.name = name

    def __repr__(self):
        return f'<module {self.name}>'


class ClassRef:
    def __init__(self, name, info=None):
        self.name = name
        self.info = info

    def __repr__(self):
        return f'<class {self.name}>'

    def __eq__(self, o):
        return isinstance(o, ClassRef) and o.name == self.name

    def __hash__(self):
        return hash(('ClassRef', self.name))


class RepoFunc:
    def __init__(self, module, node, cls=None):
        self.module = module
        self.node = node
        self.cls = cls

    @property
    def qualname(self):
        return (self.cls.name + '.' if self.cls else '') + self.node.name

    def __repr__(self):
        return f'<repofunc {self.module.relpath}:{self.qualname}>'


class BoundMethod:
    def __init__(self, obj, name):
        self.obj = obj
        self.name = name

    def __repr__(self):
        return f'<bound {self.name} of {self.obj!r}>'


class Closure:
    def __init__(self, node, env, module, frame):
        self.node = node
        self.env = env
        self.module = module
        self.frame = frame


class Builtin:
    def __init__(self, name, fn):
        self.name = name
        self.fn = fn

    def __repr__(self):
        return f'<builtin {self.name}>'


class SymExc:
    """An exception object. cls is a concrete class name on every path."""
    def __init__(self, cls, args=(), obj=None):
        self.cls = cls
        self.args = list(args)
        self.obj = obj      # SymObj for repo exception classes with state

    @property
    def msg(self):
        return self.args[0] if self.args else None

    def __repr__(self):
        return f'<exc {self.cls} {self.args!r}>'


class SymStr:
    """Symbolic string: a term of the uninterpreted sort PyStr."""
    __slots__ = ('term',)

    def __init__(self, term):
        self.term = term

    def __repr__(self):
        return f'SymStr({self.term})'


class OpaqueStr:
    """A string whose content is not tracked (f-string messages)."""
    def __init__(self, parts=()):
        self.parts = list(parts)

    def __repr__(self):
        return f'OpaqueStr({self.parts!r})'


class View:
    """Abstract read-only sequence of symbolic length."""
    def length(self):
        raise NotImplementedError

    def get(self, i):
        raise NotImplementedError


class FnView(View):
    def __init__(self, length, getter, tag=None):
        self._len = length
        self._get = getter
        self.tag = tag

    def length(self):
        return self._len

    def get(self, i):
        return self._get(i)

    def __repr__(self):
        return f'<view {self.tag} len={self._len}>'


def is_z3(v):
    return isinstance(v, z3.ExprRef)


def is_sym_int(v):
    return isinstance(v, z3.ArithRef) and v.is_int()


def is_intlike(v):
    return (isinstance(v, int) and not isinstance(v, bool)) or is_sym_int(v)


def is_concrete(v):
    return isinstance(v, (int, float, str, bool, type(None), bytes))


def conc_view(lst):
    return FnView(len(lst), lambda i: lst[i] if isinstance(i, int) else _ite_chain(lst, i),
                  tag='concrete')


def _ite_chain(lst, i):
    if not lst:
        raise IndexError
    r = lst[-1]
    for k in range(len(lst) - 2, -1, -1):
        r = z3.If(i == k, lst[k], r)
    return r
