"""Symbolic interpreter for the Python subset described in DESIGN.md §1.1.

Executes the *real* function AST (read from /repo on every run) on symbolic values.
"""
from __future__ import annotations
import ast, operator
import z3
from .core import Engine, PathEnd, Unsupported, as_bool
from .values import *
from .repo import RepoIndex


class _Return(Exception):
    def __init__(self, value):
        self.value = value


class _Break(Exception):
    pass


class _Continue(Exception):
    pass


class PyRaise(Exception):
    def __init__(self, exc):
        self.exc = exc


class Env:
    __slots__ = ('vars', 'parent', 'nonlocals')
    written = None        # set of names assigned while a loop spec's havoc hook runs

    def __init__(self, vars=None, parent=None):
        self.vars = vars if vars is not None else {}
        self.parent = parent
        self.nonlocals = set()

    def lookup(self, name):
        e = self
        while e is not None:
            if name in e.vars:
                return e.vars[name]
            e = e.parent
        raise KeyError(name)

    def has(self, name):
        e = self
        while e is not None:
            if name in e.vars:
                return True
            e = e.parent
        return False

    def set(self, name, v):
        if Env.written is not None:
            Env.written.add(name)
        if name in self.nonlocals:
            e = self.parent
            while e is not None:
                if name in e.vars:
                    e.vars[name] = v
                    return
                e = e.parent
        self.vars[name] = v

    def __getitem__(self, k):
        return self.lookup(k)

    def __setitem__(self, k, v):
        self.set(k, v)

    def __contains__(self, k):
        return self.has(k)

    def get(self, k, d=None):
        try:
            return self.lookup(k)
        except KeyError:
            return d


class MaybeStale:
    """A local first assigned inside a loop body, read at an arbitrary iteration or after the loop."""
    def __init__(self, name):
        self.name = name

    def sym_read(self, I, name):
        if not I.e.branch(I.e.bool(f'{self.name}_bound'), f'{self.name} bound?'):
            I.raise_('UnboundLocalError', self.name)
        return SymObj('<stale>', name=self.name)


class InitOrStale:
    """A local bound before the loop to a value the engine cannot havoc (None, an object, a string) and rebound
    in the loop body: at an arbitrary iteration it holds either that initial value or a value of an earlier iteration."""
    def __init__(self, name, init):
        self.name, self.init = name, init

    def sym_read(self, I, name):
        if I.e.branch(I.e.bool(f'{self.name}_still_initial'), f'{self.name} still initial?'):
            return self.init
        obj = SymObj('<stale>', name=self.name)
        if I.reg and getattr(I.reg, 'on_stale_use', None):
            I.reg.on_stale_use(I, obj, None)
            raise PathEnd()
        return obj


class LoopSpec:
    """Inductive invariant for one loop, keyed by (function qualname, ordinal).

    inv(e, env, k)     -> list[(name, formula)] | formula ; k = ghost iteration index
    havoc(e, env, k)   -> None ; replace loop-carried state that is not plain int/bool
    decreases(e, env, k) -> Int term (optional)
    carried            -> dict name -> maker(e) for variables first assigned in the body
                          and read after/at the head
    unroll             -> int: unroll that many times instead of cutting (concrete bound)
    """
    def __init__(self, inv=None, havoc=None, decreases=None, carried=None, index=None,
                 frame=None, step=None, on_head=None, on_init=None, keep=(), target_after='last', on_break=None, on_exit=None, abstract=None):
        self.abstract = abstract    # abstract(I, env): the loop is not executed; the spec sets the state after it (assumed, never proved)
        self.on_break = on_break    # on_break(I, env, k) -> obligations checked when the body leaves the loop with `break`
        self.on_exit = on_exit      # on_exit(I, env, n) -> obligations checked when the loop ends normally after n iterations
        self.keep = tuple(keep)     # loop-carried locals that deliberately keep their pre-loop (symbolic) value
        # 'last': after the loop the target holds the last element (branches on an empty sequence);
        # 'unknown': the target is marked possibly-unbound / stale instead (no branch; reading it is an error)
        self.target_after = target_after
        self.step = step
        self.on_head = on_head
        self.on_init = on_init
        self.inv = inv
        self.havoc = havoc
        self.decreases = decreases
        self.carried = carried or {}
        self.index = index
        self.frame = frame


class Frame:
    def __init__(self, module, cls, node, qualname, loops=None, depth=0):
        self.module = module
        self.cls = cls
        self.node = node
        self.qualname = qualname
        self.loops = loops or {}
        self.depth = depth
        self.loop_ord = {}
        k = 0
        for n in ast.walk(node):
            pass
        # ordinals in source order (pre-order)
        def visit(n):
            nonlocal k
            for ch in ast.iter_child_nodes(n):
                if isinstance(ch, (ast.FunctionDef, ast.Lambda, ast.ClassDef)) and ch is not node:
                    continue
                if isinstance(ch, (ast.For, ast.While)):
                    self.loop_ord[id(ch)] = k
                    k += 1
                visit(ch)
        visit(node)
        self.exc_stack = []


def assigned_names(stmts):
    out = []
    class V(ast.NodeVisitor):
        def visit_Name(self, n):
            if isinstance(n.ctx, (ast.Store, ast.Del)) and n.id not in out:
                out.append(n.id)
        def visit_FunctionDef(self, n):
            if n.name not in out:
                out.append(n.name)
        def visit_Lambda(self, n):
            pass
        def visit_ListComp(self, n):
            pass
        def visit_GeneratorExp(self, n):
            pass
        def visit_SetComp(self, n):
            pass
        def visit_DictComp(self, n):
            pass
    v = V()
    for s in stmts:
        v.visit(s)
    return out


MUTATORS = {'append', 'extend', 'insert', 'add', 'update', 'pop', 'popitem', 'remove', 'discard', 'clear', 'setdefault', 'sort', 'reverse', 'appendleft'}


def mutated_names(stmts):
    """local names whose container is changed in place in a block: x[...] = ..., x[...] += ..., del x[...], x.append(...) ..."""
    out = set()
    for s in stmts:
        for n in ast.walk(s):
            ts = []
            if isinstance(n, ast.Assign):
                ts = n.targets
            elif isinstance(n, (ast.AugAssign, ast.AnnAssign)):
                ts = [n.target]
            elif isinstance(n, ast.Delete):
                ts = n.targets
            for t in ts:
                for x in (t.elts if isinstance(t, (ast.Tuple, ast.List)) else [t]):
                    if isinstance(x, ast.Subscript) and isinstance(x.value, ast.Name):
                        out.add(x.value.id)
            if isinstance(n, ast.Call) and isinstance(n.func, ast.Attribute) and isinstance(n.func.value, ast.Name) and n.func.attr in MUTATORS:
                out.add(n.func.value.id)
    return out


class StaleContainer:
    """a plain list / dict / set that the body of a cut loop changes in place and that no loop spec replaced by a model: at an arbitrary
    iteration (and after the loop) its content is unknown, so every use is refused instead of silently seeing the value from before the loop"""
    def __init__(self, name):
        self.name = name

    def _no(self, what):
        raise Unsupported(f'{what} of `{self.name}`: the container is changed inside a loop that is cut by an invariant and has no model there')

    def sym_contains(self, I, item): self._no('membership test')
    def sym_getitem(self, I, idx): self._no('lookup')
    def sym_setitem(self, I, idx, v): self._no('store')
    def sym_method(self, I, name, a, k): self._no(f'.{name}()')
    def sym_view(self, I): self._no('iteration')
    def sym_len(self, I): self._no('len()')
    def sym_truth(self, I): self._no('truth value')
    def sym_eq(self, I, other): self._no('comparison')


def heap_assigned(stmts):
    """Attribute / subscript names stored to in a block (syntactic frame of a loop body)."""
    out = set()
    def tgt(t):
        if isinstance(t, ast.Attribute):
            out.add(t.attr)
        elif isinstance(t, ast.Subscript):
            b = t.value
            if isinstance(b, ast.Attribute):
                out.add(b.attr)
            elif isinstance(b, ast.Name):
                out.add(b.id)
            if isinstance(t.slice, ast.Constant):
                out.add(str(t.slice.value))
        elif isinstance(t, (ast.Tuple, ast.List)):
            for x in t.elts:
                tgt(x)
    for s in stmts:
        for n in ast.walk(s):
            if isinstance(n, ast.Assign):
                for t in n.targets:
                    tgt(t)
            elif isinstance(n, (ast.AugAssign, ast.AnnAssign)):
                tgt(n.target)
            elif isinstance(n, ast.Call) and isinstance(n.func, ast.Attribute):
                out.add('call:' + n.func.attr)
    return out


TRUEDIV = z3.Function('py_truediv', z3.RealSort(), z3.RealSort(), z3.RealSort())

CMP = {ast.Eq: '==', ast.NotEq: '!=', ast.Lt: '<', ast.LtE: '<=', ast.Gt: '>', ast.GtE: '>=',
       ast.In: 'in', ast.NotIn: 'not in', ast.Is: 'is', ast.IsNot: 'is not'}
REFLECT = {'<': '>', '>': '<', '<=': '>=', '>=': '<=', '==': '==', '!=': '!='}
DUNDER = {'==': '__eq__', '!=': '__ne__', '<': '__lt__', '<=': '__le__', '>': '__gt__',
          '>=': '__ge__'}
BINOP = {ast.Add: '+', ast.Sub: '-', ast.Mult: '*', ast.FloorDiv: '//', ast.Mod: '%',
         ast.Div: '/', ast.BitOr: '|', ast.BitAnd: '&', ast.Pow: '**'}


class Interp:
    def __init__(self, engine: Engine, repo: RepoIndex, registry=None):
        self.e = engine
        self.repo = repo
        self.reg = registry
        self.frames = []
        self.max_depth = 12
        self.builtins = self._mk_builtins()
        self.logger = SymObj('__Logger__')

    # ================================================================== helpers
    @property
    def frame(self):
        return self.frames[-1]

    def unsupported(self, node, why=''):
        src = ''
        try:
            src = ast.unparse(node)[:80]
        except Exception:
            pass
        ln = getattr(node, 'lineno', '?')
        q = self.frames[-1].qualname if self.frames else '?'
        raise Unsupported(f'{q}:{ln}: {why or type(node).__name__}: {src}')

    def raise_(self, cls, *args):
        raise PyRaise(SymExc(cls, args))

    # ------------------------------------------------------------------ truth
    def truth(self, v):
        """Python truthiness as bool or z3 Bool."""
        if isinstance(v, z3.BoolRef):
            return v
        if isinstance(v, z3.ArithRef):
            return v != 0
        if v is None or isinstance(v, (bool, int, float, str, list, tuple, dict, set, bytes, frozenset)):
            return bool(v)
        if isinstance(v, View):
            n = v.length()
            return n != 0 if is_z3(n) else n != 0
        if isinstance(v, SymObj):
            hook = self.reg and self.reg.protocol(v.cls, '__bool__')
            if hook:
                return hook(self, v)
            if self.repo.find_method(v.cls, '__bool__'):
                return self.truth(self.call_method(v, '__bool__', [], {}))
            hook = self.reg and self.reg.protocol(v.cls, '__len__')
            if hook or self.repo.find_method(v.cls, '__len__'):
                n = self.length(v)
                return n != 0
            return True
        if isinstance(v, (SymExc, ClassRef, RepoFunc, BoundMethod, Closure, Builtin, ModuleRef)):
            return True
        if isinstance(v, SymStr):
            return self.e.strlit('') != v.term
        if isinstance(v, OpaqueStr) and any(isinstance(p, str) and p for p in v.parts):
            return True
        if hasattr(v, 'sym_truth'):
            return v.sym_truth(self)
        raise Unsupported(f'truthiness of {v!r}')

    def test(self, v, label=''):
        t = self.truth(v)
        if isinstance(t, bool):
            return t
        return self.e.branch(t, label)

    # ------------------------------------------------------------------ length
    def length(self, v):
        if isinstance(v, (list, tuple, str, dict, set, frozenset, bytes)):
            return len(v)
        if isinstance(v, View):
            return v.length()
        if hasattr(v, 'sym_len'):
            return v.sym_len(self)
        if isinstance(v, SymObj):
            hook = self.reg and self.reg.protocol(v.cls, '__len__')
            if hook:
                return hook(self, v)
            if self.repo.find_method(v.cls, '__len__'):
                return self.call_method(v, '__len__', [], {})
        raise Unsupported(f'len() of {v!r}')

    # ------------------------------------------------------------------ strings
    def to_term(self, v):
        """z3 term for a value used in equality (ints, bools, strings)."""
        if isinstance(v, bool):
            return z3.BoolVal(v)
        if isinstance(v, int):
            return z3.IntVal(v)
        if isinstance(v, str):
            return self.e.strlit(v)
        if isinstance(v, SymStr):
            return v.term
        if is_z3(v):
            return v
        return None

    # ------------------------------------------------------------------ equality / compare
    def eq(self, a, b):
        """Python a == b  as bool or z3 Bool."""
        if is_concrete(a) and is_concrete(b):
            return a == b
        if isinstance(a, (list, tuple)) and isinstance(b, (list, tuple)):
            if type(a) is not type(b) or len(a) != len(b):
                return False
            conj = [self.eq(x, y) for x, y in zip(a, b)]
            if all(isinstance(c, bool) for c in conj):
                return all(conj)
            return z3.And(*[as_bool(c) for c in conj])
        if isinstance(a, dict) and isinstance(b, dict):
            if set(map(repr, a.keys())) != set(map(repr, b.keys())):
                return False
            conj = [self.eq(a[k], b[k]) for k in a]
            if any(c is False for c in conj):
                return False
            conj = [c for c in conj if c is not True]
            if not conj:
                return True
            return z3.And(*[as_bool(c) for c in conj])
        if isinstance(a, SymObj) or isinstance(b, SymObj):
            if isinstance(a, SymObj):
                hook = self.reg and self.reg.protocol(a.cls, '__eq__')
                if hook:
                    return hook(self, a, b)
                if self.repo.find_method(a.cls, '__eq__'):
                    return self.truth(self.call_method(a, '__eq__', [b], {}))
            if isinstance(b, SymObj):
                hook = self.reg and self.reg.protocol(b.cls, '__eq__')
                if hook:
                    return hook(self, b, a)
                if self.repo.find_method(b.cls, '__eq__') and not isinstance(a, SymObj):
                    return self.truth(self.call_method(b, '__eq__', [a], {}))
            return a is b
        if hasattr(a, 'sym_eq'):
            return a.sym_eq(self, b)
        if hasattr(b, 'sym_eq'):
            return b.sym_eq(self, a)
        if a is None or b is None:
            # None equals only None; z3 ints/strs are never None
            return a is b
        if isinstance(a, OpaqueStr) or isinstance(b, OpaqueStr):
            o, c = (a, b) if isinstance(a, OpaqueStr) else (b, a)
            if isinstance(c, str) and o.parts and isinstance(o.parts[0], str) \
                    and not c.startswith(o.parts[0]) and not o.parts[0].startswith(c):
                return False
            if isinstance(c, str) and o.parts and isinstance(o.parts[0], str) \
                    and len(o.parts) > 1 and not c.startswith(o.parts[0]):
                return False
            raise Unsupported(f'comparison of untracked string {o!r} with {c!r}')
        ta, tb = self.to_term(a), self.to_term(b)
        if ta is not None and tb is not None:
            if ta.sort() != tb.sort():
                if {ta.sort().kind(), tb.sort().kind()} <= {z3.Z3_INT_SORT, z3.Z3_REAL_SORT}:
                    return ta == tb
                if {ta.sort().kind(), tb.sort().kind()} == {z3.Z3_INT_SORT, z3.Z3_BOOL_SORT}:
                    ia = z3.If(ta, 1, 0) if ta.sort().kind() == z3.Z3_BOOL_SORT else ta
                    ib = z3.If(tb, 1, 0) if tb.sort().kind() == z3.Z3_BOOL_SORT else tb
                    return ia == ib
                return False
            return ta == tb
        if isinstance(a, ClassRef) or isinstance(b, ClassRef):
            return a == b
        raise Unsupported(f'== between {a!r} and {b!r}')

    def compare(self, op, a, b):
        if op == '==':
            return self.eq(a, b)
        if op == '!=':
            if isinstance(a, SymObj) and (self.repo.find_method(a.cls, '__ne__')
                                          and not (self.reg and self.reg.protocol(a.cls, '__eq__'))):
                return self.truth(self.call_method(a, '__ne__', [b], {}))
            r = self.eq(a, b)
            return (not r) if isinstance(r, bool) else z3.Not(r)
        if op == 'is':
            return self.identical(a, b)
        if op == 'is not':
            r = self.identical(a, b)
            return (not r) if isinstance(r, bool) else z3.Not(r)
        if op == 'in':
            return self.contains(b, a)
        if op == 'not in':
            r = self.contains(b, a)
            return (not r) if isinstance(r, bool) else z3.Not(r)
        # ordering
        if is_concrete(a) and is_concrete(b):
            return {'<': operator.lt, '<=': operator.le, '>': operator.gt, '>=': operator.ge}[op](a, b)
        # a symbolic number against +-infinity (float('Inf') as "no limit")
        for x, y, flip in ((a, b, False), (b, a, True)):
            if isinstance(y, float) and y in (float('inf'), float('-inf')) and is_z3(x) and isinstance(x, z3.ArithRef):
                o = REFLECT[op] if flip else op
                pos = y > 0
                return (o in ('<', '<=')) if pos else (o in ('>', '>='))
        if isinstance(a, SymObj):
            hook = self.reg and self.reg.protocol(a.cls, DUNDER[op])
            if hook:
                return hook(self, a, b)
            if self.repo.find_method(a.cls, DUNDER[op]):
                return self.truth(self.call_method(a, DUNDER[op], [b], {}))
        if isinstance(b, SymObj):
            rop = REFLECT[op]
            if self.repo.find_method(b.cls, DUNDER[rop]):
                return self.truth(self.call_method(b, DUNDER[rop], [a], {}))
        if hasattr(a, 'sym_cmp'):
            return a.sym_cmp(self, op, b)
        if isinstance(a, (tuple, list)) and isinstance(b, (tuple, list)) and type(a) is type(b):
            # lexicographic order
            strict = op in ('<', '>')
            base = '<' if op in ('<', '<=') else '>'
            n = min(len(a), len(b))
            res = (len(a) < len(b)) if base == '<' else (len(a) > len(b))
            if not strict and len(a) == len(b):
                res = True
            for i in range(n - 1, -1, -1):
                lt = as_bool(self.compare(base, a[i], b[i]))
                eq_ = as_bool(self.eq(a[i], b[i]))
                res = z3.Or(lt, z3.And(eq_, as_bool(res)))
            return z3.simplify(res) if is_z3(res) else res
        ta, tb = self.num(a), self.num(b)
        if ta is not None and tb is not None:
            return {'<': operator.lt, '<=': operator.le, '>': operator.gt, '>=': operator.ge}[op](ta, tb)
        raise Unsupported(f'{op} between {a!r} and {b!r}')

    def num(self, v):
        if isinstance(v, bool):
            return int(v)
        if isinstance(v, (int, float)):
            return v
        if isinstance(v, z3.ArithRef):
            return v
        if isinstance(v, z3.BoolRef):
            return z3.If(v, 1, 0)
        return None

    def identical(self, a, b):
        if a is None or b is None:
            if hasattr(a, 'sym_is_none'):
                return a.sym_is_none(self)
            if hasattr(b, 'sym_is_none'):
                return b.sym_is_none(self)
            return a is b
        if isinstance(a, bool) or isinstance(b, bool):
            if isinstance(a, bool) and isinstance(b, bool):
                return a is b
            ta, tb = self.to_term(a), self.to_term(b)
            if isinstance(ta, z3.BoolRef) and isinstance(tb, z3.BoolRef):
                return ta == tb
            return False
        if isinstance(a, SymObj) or isinstance(b, SymObj):
            hook = isinstance(a, SymObj) and self.reg and self.reg.protocol(a.cls, '__is__')
            if hook:
                return hook(self, a, b)
            return a is b
        if is_concrete(a) and is_concrete(b):
            return a == b
        if isinstance(a, ClassRef) and isinstance(b, ClassRef):
            # a class object is the same object wherever its name is evaluated
            return a.name == b.name
        return a is b

    def contains(self, container, item):
        if isinstance(container, (list, tuple, set, frozenset)):
            if is_concrete(item) and all(is_concrete(x) for x in container):
                return item in container
            rs = [self.eq(x, item) for x in container]
            if any(r is True for r in rs):
                return True
            rs = [r for r in rs if r is not False]
            if not rs:
                return False
            return z3.Or(*[as_bool(r) for r in rs])
        if isinstance(container, dict):
            return self.contains(list(container.keys()), item)
        if isinstance(container, str):
            if isinstance(item, str):
                return item in container
            raise Unsupported('substring test on symbolic string')
        if isinstance(container, OpaqueStr) and isinstance(item, (str, OpaqueStr)):
            # substring test between strings whose text is not tracked: either outcome is possible
            # (except the reflexive case); an over-approximation, so a refutation built on it is replayed natively
            if item is container:
                return True
            return self.e.bool('substring_test')
        if hasattr(container, 'sym_contains'):
            return container.sym_contains(self, item)
        if isinstance(container, View):
            k = z3.Int(self.e.fresh_name('k_in'))
            n = container.length()
            el = container.get(k)
            return z3.Exists([k], z3.And(0 <= k, k < n, as_bool(self.eq(el, item))))
        if isinstance(container, SymObj):
            hook = self.reg and self.reg.protocol(container.cls, '__contains__')
            if hook:
                return hook(self, container, item)
            if self.repo.find_method(container.cls, '__contains__'):
                return self.truth(self.call_method(container, '__contains__', [item], {}))
        raise Unsupported(f'{item!r} in {container!r}')

    # ------------------------------------------------------------------ arithmetic
    def binop(self, op, a, b, node=None):
        if is_concrete(a) and is_concrete(b):
            try:
                return {'+': operator.add, '-': operator.sub, '*': operator.mul,
                        '//': operator.floordiv, '%': operator.mod, '/': operator.truediv,
                        '|': operator.or_, '&': operator.and_, '**': operator.pow}[op](a, b)
            except ZeroDivisionError:
                self.raise_('ZeroDivisionError')
            except TypeError:
                self.raise_('TypeError')
        if hasattr(a, 'sym_binop'):
            r = a.sym_binop(self, op, b, False)
            if r is not NotImplemented:
                return r
        if hasattr(b, 'sym_binop'):
            r = b.sym_binop(self, op, a, True)
            if r is not NotImplemented:
                return r
        if isinstance(a, (list, tuple)) and isinstance(b, (list, tuple)) and op == '+':
            return a + b
        if isinstance(a, (str, OpaqueStr, SymStr)) or isinstance(b, (str, OpaqueStr, SymStr)):
            if op == '+':
                pa = a.parts if isinstance(a, OpaqueStr) else [a]
                pb = b.parts if isinstance(b, OpaqueStr) else [b]
                return OpaqueStr(pa + pb)
            if op == '%' and isinstance(a, str):
                return OpaqueStr([a, b])
        if isinstance(a, SymObj):
            dn = {'+': '__add__', '-': '__sub__', '*': '__mul__', '/': '__truediv__'}.get(op)
            if dn:
                hook = self.reg and self.reg.protocol(a.cls, dn)
                if hook:
                    return hook(self, a, b)
                if self.repo.find_method(a.cls, dn):
                    return self.call_method(a, dn, [b], {})
        na, nb = self.num(a), self.num(b)
        if na is None or nb is None:
            raise Unsupported(f'binary {op} on {a!r}, {b!r}')
        if op == '+':
            return na + nb
        if op == '-':
            return na - nb
        if op == '*':
            return na * nb
        if op in ('//', '%'):
            isreal = any(isinstance(x, float) or (is_z3(x) and x.is_real()) for x in (na, nb))
            if isreal:
                raise Unsupported('floor division on reals')
            if isinstance(nb, int):
                if nb == 0:
                    self.raise_('ZeroDivisionError')
                if nb > 0:
                    # z3 div/mod are Euclidean: equal to Python floor div/mod for positive divisor
                    return na / nb if op == '//' else na % nb
                q = -((-na) / (-nb)) if False else None
            # symbolic or negative divisor: Python floor semantics via case split
            nbz = nb if is_z3(nb) else z3.IntVal(nb)
            naz = na if is_z3(na) else z3.IntVal(na)
            if not self.e.branch(nbz != 0, 'divisor!=0'):
                self.raise_('ZeroDivisionError')
            # symbolic divisor: uninterpreted pydiv/pymod with the linear consequences of the
            # definition only (an over-approximation: proofs hold for every interpretation;
            # refutations are confirmed by native replay)
            pydiv = z3.Function('pydiv', z3.IntSort(), z3.IntSort(), z3.IntSort())
            pymod = z3.Function('pymod', z3.IntSort(), z3.IntSort(), z3.IntSort())
            q, r = pydiv(naz, nbz), pymod(naz, nbz)
            self.e.note('assumed: // and % by a symbolic divisor are uninterpreted (range, sign and unit-divisor facts only)')
            self.e.assume(z3.Implies(nbz > 0, z3.And(0 <= r, r < nbz)))
            self.e.assume(z3.Implies(nbz < 0, z3.And(nbz < r, r <= 0)))
            self.e.assume(z3.Implies(nbz == 1, z3.And(r == 0, q == naz)))
            self.e.assume(z3.Implies(z3.And(nbz > 0, 0 <= naz, naz < nbz), z3.And(r == naz, q == 0)))
            self.e.assume(z3.Implies(z3.And(nbz > 0, naz >= 0), z3.And(q >= 0, q <= naz)))
            return q if op == '//' else r
        if op == '/':
            ra = z3.ToReal(na) if is_sym_int(na) else (z3.RealVal(na) if not is_z3(na) else na)
            rb = z3.ToReal(nb) if is_sym_int(nb) else (z3.RealVal(nb) if not is_z3(nb) else nb)
            if is_z3(nb) or nb == 0:
                if not self.e.branch(rb != 0, 'divisor!=0'):
                    self.raise_('ZeroDivisionError')
            if getattr(self, 'abstract_truediv', False):
                # true division by a symbolic divisor as an uninterpreted function (keeps VCs linear): an
                # over-approximation, proofs hold for every interpretation; the spec must use the same term
                self.e.note('assumed: / by a symbolic divisor is an uninterpreted function of its operands')
                return TRUEDIV(ra, rb)
            return ra / rb
        raise Unsupported(f'binary {op}')

    # ================================================================== expressions
    def eval(self, n, env):
        m = getattr(self, 'e_' + type(n).__name__, None)
        if m is None:
            self.unsupported(n)
        return m(n, env)

    def e_Constant(self, n, env):
        return n.value

    def e_Name(self, n, env):
        name = n.id
        if env.has(name):
            v = env.lookup(name)
            if v is UNDEF:
                self.raise_('UnboundLocalError', name)
            if hasattr(v, 'sym_read'):
                return v.sym_read(self, name)
            return v
        return self.global_name(name, n)

    def global_name(self, name, node=None, module=None):
        module = module or self.frame.module
        if self.reg:
            ov = self.reg.global_override(self, module, name)
            if ov is not None:
                return ov
        if name in module.functions:
            return RepoFunc(module, module.functions[name])
        if name in module.classes:
            return ClassRef(name, module.classes[name])
        if name in module.consts:
            return self.eval_const(module, module.consts[name])
        if name in module.imports:
            imp = module.imports[name]
            if imp[0] == 'module':
                return ModuleRef(imp[1])
            _, mod, nm, level = imp
            return self.resolve_import(mod, nm, level, module)
        if name in self.builtins:
            return self.builtins[name]
        if name in self.repo.exc_bases:
            return ClassRef(name)
        self.unsupported(node or ast.Name(id=name), f'unknown global {name}')

    def resolve_import(self, mod, nm, level, module):
        # imported sub-module?
        for rel, m in self.repo.modules.items():
            dotted = rel[:-3].replace('/', '.')
            if dotted.endswith('.__init__'):
                dotted = dotted[:-9]
            if dotted == f'{mod}.{nm}' or (level and dotted.endswith(f'.{nm}') and
                                            (not mod or dotted.endswith(f'{mod}.{nm}'))):
                if rel.endswith('__init__.py') or rel.endswith(f'/{nm}.py'):
                    if nm not in self.repo.classes and nm not in self.repo.functions:
                        return ModuleRef(dotted)
                    # a class/function of the same name exists: the package attribute is the sub-module
                    # unless the package __init__ itself binds that name
                    pkg = dotted[:-(len(nm) + 1)].replace('.', '/') + '/__init__.py'
                    pm = self.repo.modules.get(pkg)
                    if pm is not None and nm not in pm.imports and nm not in pm.classes \
                            and nm not in pm.functions and nm not in pm.consts:
                        return ModuleRef(dotted)
        c = self.repo.get_class(nm)
        if c is not None:
            return ClassRef(nm, c)
        fl = self.repo.functions.get(nm)
        if fl and len(fl) == 1:
            return RepoFunc(fl[0][0], fl[0][1])
        if fl:
            for m, fnode in fl:
                dotted = m.relpath[:-3].replace('/', '.')
                if dotted.endswith('.__init__'):
                    dotted = dotted[:-9]
                if mod and dotted.endswith(mod):
                    return RepoFunc(m, fnode)
        # constant from another repo module
        for rel, m in self.repo.modules.items():
            dotted = rel[:-3].replace('/', '.')
            if dotted.endswith('.__init__'):
                dotted = dotted[:-9]
            if (dotted == mod or (level and (dotted.endswith('.' + mod) if mod else False))
                    or (level and not mod and rel.endswith('__init__.py')
                        and rel.count('/') == module.relpath.count('/'))) and nm in m.consts:
                return self.eval_const(m, m.consts[nm])
        if nm in self.repo.exc_bases:
            return ClassRef(nm)
        full = f'{mod}.{nm}' if mod else nm
        return ModuleRef(full)

    def eval_const(self, module, node):
        try:
            return ast.literal_eval(node)
        except Exception:
            pass
        fr = Frame(module, None, ast.Module(body=[], type_ignores=[]), '<const>')
        self.frames.append(fr)
        try:
            return self.eval(node, Env())
        finally:
            self.frames.pop()

    def e_Attribute(self, n, env):
        obj = self.eval(n.value, env)
        return self.getattr(obj, n.attr, n)

    def getattr(self, obj, name, node=None):
        if isinstance(obj, SymObj):
            if obj.cls == '__super__':
                return BoundMethod(obj, name)
            if name in obj.fields:
                v = obj.fields[name]
                if v is UNDEF:
                    self.raise_('AttributeError', name)
                return v
            hook = self.reg and self.reg.attr_hook(obj.cls, name)
            if hook:
                return hook(self, obj)
            r = self.repo.find_method(obj.cls, name, 'properties')
            if r:
                c, fnode = r
                return self.inline(c.module, c, fnode, [obj], {})
            if self.repo.find_method(obj.cls, name, 'methods') or \
                    (self.reg and self.reg.method_hook(obj.cls, name)):
                return BoundMethod(obj, name)
            for cn in self.repo.mro_names(obj.cls):
                c = self.repo.get_class(cn)
                if c and name in c.class_attrs:
                    return self.eval_const(c.module, c.class_attrs[name])
            if name == '__class__':
                return ClassRef(obj.cls, self.repo.get_class(obj.cls))
            if self.reg and self.reg.is_open(obj.cls):
                return BoundMethod(obj, name)
            if obj.cls == '<stale>' and self.reg and getattr(self.reg, 'on_stale_use', None):
                # a local bound in an earlier loop iteration is used in the current one
                self.reg.on_stale_use(self, obj, name)
                raise PathEnd()
            if self.reg and obj.cls in getattr(self.reg, 'strict_attr_classes', ()):
                # the model lists every attribute the real object has (e.g. an argparse namespace built from
                # the real parser definition): a missing one is an AttributeError of the code
                self.raise_('AttributeError', name)
            if self.repo.get_class(obj.cls) is None:
                # a sidecar model object: a missing attribute is a gap of the model, not of the code
                self.unsupported(node, f'attribute {name} of modelled object {obj.cls}')
            self.raise_('AttributeError', name)
        if isinstance(obj, ModuleRef):
            return self.module_attr(obj, name, node)
        if isinstance(obj, ClassRef):
            info = obj.info or self.repo.get_class(obj.name)
            if info is not None:
                r = self.repo.find_method(obj.name, name)
                if r:
                    c, fnode = r
                    if name in c.classmethods:
                        return BoundMethod(obj, name)
                    return RepoFunc(c.module, fnode, c)
                for cn in self.repo.mro_names(obj.name):
                    c = self.repo.get_class(cn)
                    if c and name in c.class_attrs:
                        return self.eval_const(c.module, c.class_attrs[name])
            if name == '__name__':
                return obj.name
            self.unsupported(node, f'class attribute {obj.name}.{name}')
        if isinstance(obj, SymExc):
            if name == 'args':
                return list(obj.args)
            if obj.obj is not None:
                return self.getattr(obj.obj, name, node)
            self.raise_('AttributeError', name)
        if hasattr(obj, 'sym_getattr'):
            return obj.sym_getattr(self, name)
        if hasattr(obj, 'sym_method'):
            return BoundMethod(obj, name)
        if isinstance(obj, (list, dict, str, set, tuple, View, SymStr, OpaqueStr, frozenset)) \
                or is_z3(obj) or isinstance(obj, (int, float)):
            return BoundMethod(obj, name)
        if obj is None:
            self.raise_('AttributeError', name)
        self.unsupported(node, f'attribute {name} of {obj!r}')

    def module_attr(self, mod, name, node):
        if self.reg:
            ov = self.reg.module_attr(self, mod.name, name)
            if ov is not None:
                return ov
        c = self.repo.get_class(name)
        if c is not None:
            return ClassRef(name, c)
        fl = self.repo.functions.get(name)
        if fl:
            cands = [(m, f) for m, f in fl
                     if m.relpath[:-3].replace('/', '.').replace('.__init__', '').endswith(mod.name.split('.')[-1])]
            if len(cands) == 1:
                return RepoFunc(*cands[0])
            if len(fl) == 1:
                return RepoFunc(*fl[0])
        # sub-module or constant
        for rel, m in self.repo.modules.items():
            dotted = rel[:-3].replace('/', '.').replace('.__init__', '')
            if dotted.endswith(mod.name.split('.')[-1]) and name in m.consts:
                return self.eval_const(m, m.consts[name])
        if name in self.repo.exc_bases:
            return ClassRef(name)
        return ModuleRef(mod.name + '.' + name)

    def setattr(self, obj, name, v, node=None):
        if isinstance(obj, SymObj):
            r = self.repo.find_method(obj.cls, name, 'setters')
            if r and name not in obj.fields:
                c, fnode = r
                self.inline(c.module, c, fnode, [obj, v], {})
                return
            hook = self.reg and self.reg.setattr_hook(obj.cls, name)
            if hook:
                hook(self, obj, v)
                return
            obj.fields[name] = v
            return
        if hasattr(obj, 'sym_setattr'):
            return obj.sym_setattr(self, name, v)
        self.unsupported(node, f'attribute store on {obj!r}')

    def e_Subscript(self, n, env):
        obj = self.eval(n.value, env)
        if isinstance(n.slice, ast.Slice):
            lo = self.eval(n.slice.lower, env) if n.slice.lower else None
            hi = self.eval(n.slice.upper, env) if n.slice.upper else None
            st = self.eval(n.slice.step, env) if n.slice.step else None
            return self.getslice(obj, lo, hi, st, n)
        idx = self.eval(n.slice, env)
        return self.getitem(obj, idx, n)

    def norm_index(self, idx, length):
        """Python index normalisation + bounds check (raises IndexError symbolically)."""
        if isinstance(idx, bool):
            idx = int(idx)
        if isinstance(idx, int) and isinstance(length, int):
            if idx < 0:
                idx += length
            if not 0 <= idx < length:
                self.raise_('IndexError', 'index out of range')
            return idx
        if isinstance(idx, int):
            if idx < 0:
                idx = length + idx
                if not self.e.branch(idx >= 0, 'index>=0'):
                    self.raise_('IndexError', 'index out of range')
                return idx
            if not self.e.branch(idx < length, 'index<len'):
                self.raise_('IndexError', 'index out of range')
            return idx
        if not is_sym_int(idx):
            raise Unsupported(f'index {idx!r}')
        if not self.e.branch(idx >= 0, 'index>=0'):
            idx = idx + length
            if not self.e.branch(idx >= 0, 'index>=0'):
                self.raise_('IndexError', 'index out of range')
            return idx
        if not self.e.branch(idx < length, 'index<len'):
            self.raise_('IndexError', 'index out of range')
        return idx

    def getitem(self, obj, idx, node=None):
        if isinstance(obj, (list, tuple, str)):
            if isinstance(idx, (int, bool)):
                try:
                    return obj[idx]
                except IndexError:
                    self.raise_('IndexError', 'index out of range')
            if is_sym_int(idx) and not isinstance(obj, str):
                i = self.norm_index(idx, len(obj))
                vals = list(obj)
                if all(self.to_term(x) is not None for x in vals):
                    terms = [self.to_term(x) for x in vals]
                    r = terms[-1]
                    for k in range(len(terms) - 2, -1, -1):
                        r = z3.If(i == k, terms[k], r)
                    return r
                for k in range(len(vals)):
                    if self.e.branch(i == k, f'idx=={k}'):
                        return vals[k]
                raise PathEnd()
            self.unsupported(node, f'subscript {idx!r}')
        if isinstance(obj, dict):
            if is_concrete(idx) or isinstance(idx, tuple):
                if all(is_concrete(k) or isinstance(k, tuple) for k in obj):
                    if idx in obj:
                        return obj[idx]
                    self.raise_('KeyError', idx)
            for k, v in obj.items():
                r = self.eq(k, idx)
                if r is True or (r is not False and self.e.branch(r, 'dictkey')):
                    return v
            self.raise_('KeyError', idx)
        if hasattr(obj, 'sym_getitem'):
            return obj.sym_getitem(self, idx)
        if isinstance(obj, View):
            i = self.norm_index(idx, obj.length())
            return obj.get(i)
        if isinstance(obj, SymObj):
            hook = self.reg and self.reg.protocol(obj.cls, '__getitem__')
            if hook:
                return hook(self, obj, idx)
            if self.repo.find_method(obj.cls, '__getitem__'):
                return self.call_method(obj, '__getitem__', [idx], {})
        self.unsupported(node, f'subscript of {obj!r}')

    def getslice(self, obj, lo, hi, st, node=None):
        if st is not None and st != 1:
            if isinstance(obj, (list, tuple, str)) and all(
                    x is None or isinstance(x, int) for x in (lo, hi, st)):
                return obj[lo:hi:st]
            if hasattr(obj, 'sym_getslice'):
                return obj.sym_getslice(self, lo, hi, st)
            self.unsupported(node, 'slice step')
        if isinstance(obj, (list, tuple, str)):
            if all(x is None or isinstance(x, int) for x in (lo, hi)):
                return obj[lo:hi]
            obj = conc_view(list(obj))
        if hasattr(obj, 'sym_getslice'):
            return obj.sym_getslice(self, lo, hi, None)
        if isinstance(obj, View):
            n = obj.length()
            a, b = self.clip_slice(lo, hi, n)
            ln = b - a
            if is_z3(ln):
                ln = z3.If(b > a, b - a, 0)
            else:
                ln = max(ln, 0)
            return FnView(ln, lambda i, a=a, o=obj: o.get(a + i), tag=f'slice({getattr(obj,"tag",None)})')
        if isinstance(obj, SymObj):
            hook = self.reg and self.reg.protocol(obj.cls, '__getslice__')
            if hook:
                return hook(self, obj, lo, hi)
            if self.repo.find_method(obj.cls, '__getitem__'):
                sl = SymObj('slice', start=lo, stop=hi, step=None)
                return self.call_method(obj, '__getitem__', [sl], {})
        self.unsupported(node, f'slice of {obj!r}')

    def clip_slice(self, lo, hi, n):
        """Python slice.indices semantics for step 1 (may branch)."""
        def clip(x, default):
            if x is None:
                return default
            if isinstance(x, int) and isinstance(n, int):
                if x < 0:
                    x += n
                return min(max(x, 0), n)
            if isinstance(x, int) and x >= 0:
                return x if not is_z3(n) else (z3.If(n < x, n, z3.IntVal(x)) if x > 0 else 0)
            xz = x if is_z3(x) else z3.IntVal(x)
            nz = n if is_z3(n) else z3.IntVal(n)
            if not (isinstance(x, int) and x < 0) and self.e.branch(xz >= 0, 'slice>=0'):
                return z3.If(xz > nz, nz, xz)
            y = xz + nz
            return z3.If(y < 0, 0, y)
        return clip(lo, 0), clip(hi, n)

    def e_BinOp(self, n, env):
        a = self.eval(n.left, env)
        b = self.eval(n.right, env)
        op = BINOP.get(type(n.op))
        if op is None:
            self.unsupported(n)
        return self.binop(op, a, b, n)

    def e_UnaryOp(self, n, env):
        v = self.eval(n.operand, env)
        if isinstance(n.op, ast.Not):
            t = self.truth(v)
            return (not t) if isinstance(t, bool) else z3.Not(t)
        if isinstance(n.op, ast.USub):
            if isinstance(v, (int, float)) and not isinstance(v, bool):
                return -v
            x = self.num(v)
            if x is None:
                self.unsupported(n)
            return -x
        if isinstance(n.op, ast.UAdd):
            return v
        self.unsupported(n)

    def pure_bool(self, n, env):
        """Try to evaluate an expression that cannot raise/branch as a z3 Bool (no forking)."""
        return None

    def e_BoolOp(self, n, env):
        is_and = isinstance(n.op, ast.And)
        v = None
        for i, sub in enumerate(n.values):
            v = self.eval(sub, env)
            if i == len(n.values) - 1:
                return v
            t = self.test(v, 'and' if is_and else 'or')
            # Python returns the operand itself; a symbolic Bool operand is known on this path
            if is_and and not t:
                return False if isinstance(v, z3.BoolRef) else v
            if not is_and and t:
                return True if isinstance(v, z3.BoolRef) else v
        return v

    def e_Compare(self, n, env):
        left = self.eval(n.left, env)
        result = True
        for i, (op, rn) in enumerate(zip(n.ops, n.comparators)):
            right = self.eval(rn, env)
            r = self.compare(CMP[type(op)], left, right)
            if i == len(n.ops) - 1:
                if result is True:
                    return r
                return z3.And(as_bool(result), as_bool(r)) if not isinstance(r, bool) or r else False
            # chained: short circuit
            if isinstance(r, bool):
                if not r:
                    return False
            else:
                if not self.e.branch(r, 'chain'):
                    return False
            left = right
        return result

    def e_IfExp(self, n, env):
        if self.test(self.eval(n.test, env), 'ifexp'):
            return self.eval(n.body, env)
        return self.eval(n.orelse, env)

    def e_JoinedStr(self, n, env):
        parts = []
        allc = True
        for v in n.values:
            if isinstance(v, ast.Constant):
                parts.append(v.value)
            else:
                try:
                    x = self.eval(v.value, env)
                except PyRaise:
                    raise
                if hasattr(x, 'sym_str'):
                    x = x.sym_str(self)
                if isinstance(x, SymObj):
                    x = self.py_str(x)
                if isinstance(x, (str, int)) and not isinstance(x, bool) and v.format_spec is None \
                        and v.conversion == -1:
                    parts.append(str(x))
                else:
                    allc = False
                    parts.append(x if v.format_spec is None else ('fmt', x, ''.join(c.value for c in v.format_spec.values if isinstance(c, ast.Constant))))
        if allc:
            return ''.join(parts)
        return OpaqueStr(parts)

    def e_List(self, n, env):
        out, acc = [], None
        for el in n.elts:
            if isinstance(el, ast.Starred):
                sv = self.eval(el.value, env)
                if isinstance(sv, View) and not isinstance(sv.length(), int) and hasattr(sv, 'sym_binop'):
                    # [a, *symbolic, b]  ==  [a] + symbolic + [b]
                    acc = self.binop('+', self.binop('+', acc, out) if acc is not None else out, sv)
                    out = []
                    continue
                out.extend(self.iter_concrete(sv, el))
            else:
                out.append(self.eval(el, env))
        if acc is not None:
            return self.binop('+', acc, out) if out else acc
        return out

    def e_Tuple(self, n, env):
        return tuple(self.e_List(n, env))

    def e_Set(self, n, env):
        vals = [self.eval(el, env) for el in n.elts]
        if all(is_concrete(v) for v in vals):
            return set(vals)
        if len(vals) == 1:
            # {x}: a one-element set of a modelled object or symbolic value (identity hashing is exact for a single element)
            try:
                return {vals[0]}
            except TypeError:
                pass
        self.unsupported(n, 'symbolic set literal')

    def e_Dict(self, n, env):
        d = {}
        for k, v in zip(n.keys, n.values):
            if k is None:
                dv = self.eval(v, env)
                if isinstance(dv, dict):
                    d.update(dv)
                    continue
                self.unsupported(n, '** of symbolic dict')
            kk = self.eval(k, env)
            vv = self.eval(v, env)
            if not is_concrete(kk):
                # a later key that may equal an earlier symbolic one overrides it, as in Python
                for ek in list(d):
                    if ek is kk or is_concrete(ek):
                        continue
                    try:
                        same = self.eq(ek, kk)
                    except Unsupported:
                        continue
                    if same is False:
                        continue
                    if same is True or self.e.branch(as_bool(same), 'dict literal: repeated key'):
                        kk = ek
                        break
            d[kk] = vv
        return d

    def e_Yield(self, n, env):
        v = self.eval(n.value, env) if n.value is not None else None
        fr = self.frame
        if not hasattr(fr, 'yields'):
            fr.yields = []
        fr.yields.append(v)
        if self.reg and self.reg.on_yield:
            self.reg.on_yield(self, fr, v)
        return None

    def e_Lambda(self, n, env):
        return Closure(n, env, self.frame.module, self.frame)

    def e_Starred(self, n, env):
        self.unsupported(n)

    def iter_concrete(self, v, node=None):
        """Concrete Python iteration (length known)."""
        if isinstance(v, (list, tuple)):
            return list(v)
        if isinstance(v, (set, frozenset)):
            return sorted(v, key=repr)
        if isinstance(v, dict):
            return list(v.keys())
        if isinstance(v, str):
            return list(v)
        if isinstance(v, View) and isinstance(v.length(), int):
            return [v.get(i) for i in range(v.length())]
        if hasattr(v, 'sym_iter_concrete'):
            return v.sym_iter_concrete(self)
        if v is None or isinstance(v, (int, float, bool)) or is_sym_int(v) or isinstance(v, z3.BoolRef):
            self.raise_('TypeError', 'object is not iterable')
        self.unsupported(node, f'concrete iteration over {v!r}')

    def as_view(self, v, node=None):
        if isinstance(v, View):
            return v
        if v is None or isinstance(v, (int, float, bool)) or is_sym_int(v) or isinstance(v, z3.BoolRef):
            self.raise_('TypeError', 'object is not iterable')
        if isinstance(v, (list, tuple)):
            return conc_view(list(v))
        if isinstance(v, dict):
            return conc_view(list(v.keys()))
        if isinstance(v, str):
            return conc_view(list(v))
        if hasattr(v, 'sym_view'):
            return v.sym_view(self)
        if isinstance(v, SymObj):
            hook = self.reg and self.reg.protocol(v.cls, '__iter__')
            if hook:
                return self.as_view(hook(self, v))
        self.unsupported(node, f'iteration over {v!r}')

    def _comp(self, n, env, kind):
        if len(n.generators) != 1:
            # nested comprehension: only concrete
            return self._comp_concrete(n, env, kind)
        g = n.generators[0]
        it = self.eval(g.iter, env)
        try:
            items = self.iter_concrete(it, g.iter)
        except Unsupported:
            items = None
        if items is not None:
            return self._comp_concrete(n, env, kind, items)
        view = self.as_view(it, g.iter)
        if self.reg:
            r = self.reg.comprehension(self, n, env, view, kind)
            if r is not None:
                return r
        if g.ifs:
            r = self._filter_comp(n, g, env, view)
            if r is not None:
                return r
            self.unsupported(n, 'filtered comprehension over symbolic sequence')
        def getter(i, g=g, n=n, env=env, view=view):
            sub = Env({}, env)
            self.assign(g.target, view.get(i), sub)
            return self.eval(n.elt, sub)
        return FnView(view.length(), getter, tag='map')

    def _filter_comp(self, n, g, env, view):
        """[i for i, _ in enumerate(S) if cond]  ->  FilterList (filter axiom)"""
        from .seqalg import FilterList
        if not (isinstance(g.target, ast.Tuple) and len(g.target.elts) == 2 and isinstance(n.elt, ast.Name)
                and isinstance(g.target.elts[0], ast.Name) and g.target.elts[0].id == n.elt.id
                and getattr(view, 'tag', None) == 'enumerate' and len(g.ifs) == 1):
            return None
        cond = g.ifs[0]
        def P(q):
            sub = Env({}, env)
            self.assign(g.target, view.get(q), sub)
            return as_bool(self.truth(self.eval(cond, sub)))
        fl = FilterList(self, view.length(), P, name='NF')
        self.last_filter = fl
        self.e.note('assumed: filter axiom for [i for i, _ in enumerate(s) if P(i)] (cnt/NF, DESIGN.md §1.1; cross-checked natively)')
        return fl

    def _comp_concrete(self, n, env, kind, items0=None):
        out = []
        def rec(gi, sub):
            if gi == len(n.generators):
                if kind == 'dict':
                    out.append((self.eval(n.key, sub), self.eval(n.value, sub)))
                else:
                    out.append(self.eval(n.elt, sub))
                return
            g = n.generators[gi]
            items = items0 if (gi == 0 and items0 is not None) else \
                self.iter_concrete(self.eval(g.iter, sub), g.iter)
            for it in items:
                s2 = Env({}, sub)
                self.assign(g.target, it, s2)
                ok = True
                for cond in g.ifs:
                    if not self.test(self.eval(cond, s2), 'comp-if'):
                        ok = False
                        break
                if ok:
                    rec(gi + 1, s2)
        rec(0, env)
        if kind == 'dict':
            return dict(out)
        if kind == 'set':
            if all(is_concrete(x) for x in out):
                return set(out)
            res = []
            for x in out:
                if not any(y is x for y in res):
                    res.append(x)
            return res
        return out

    def e_ListComp(self, n, env):
        return self._comp(n, env, 'list')

    def e_GeneratorExp(self, n, env):
        return self._comp(n, env, 'gen')

    def e_SetComp(self, n, env):
        return self._comp(n, env, 'set')

    def e_DictComp(self, n, env):
        if len(n.generators) == 1 and self.reg and self.reg.comprehension_hooks:
            it = self.eval(n.generators[0].iter, env)
            try:
                items = self.iter_concrete(it, n.generators[0].iter)
            except Unsupported:
                items = None
            if items is None:
                r = self.reg.comprehension(self, n, env, self.as_view(it, n.generators[0].iter), 'dict')
                if r is not None:
                    return r
                self.unsupported(n, 'dict comprehension over a symbolic sequence')
            return self._comp_concrete(n, env, 'dict', items)
        return self._comp_concrete(n, env, 'dict')

    # ------------------------------------------------------------------ calls
    def e_Call(self, n, env):
        # logger / get_logger() calls are dropped (stated in the evidence)
        if isinstance(n.func, ast.Attribute):
            base = n.func.value
            if isinstance(base, ast.Name) and base.id == 'logger' and not env.has('logger'):
                pass
        if isinstance(n.func, ast.Name) and n.func.id == 'super' and not n.args:
            return SymObj('__super__', obj=env.lookup('self') if env.has('self') else None,
                          after=self.frame.cls.name if self.frame.cls else None)
        fv = self.eval(n.func, env)
        args, kwargs = [], {}
        for a in n.args:
            if isinstance(a, ast.Starred):
                args.extend(self.iter_concrete(self.eval(a.value, env), a))
            else:
                args.append(self.eval(a, env))
        for k in n.keywords:
            if k.arg is None:
                d = self.eval(k.value, env)
                if isinstance(d, dict):
                    kwargs.update(d)
                elif hasattr(d, 'sym_kwargs'):
                    kwargs.update(d.sym_kwargs(self))
                else:
                    self.unsupported(n, '** of non-dict')
            else:
                kwargs[k.arg] = self.eval(k.value, env)
        return self.call(fv, args, kwargs, n)

    def call(self, fv, args, kwargs, node=None):
        if isinstance(fv, Builtin):
            return fv.fn(self, args, kwargs)
        if isinstance(fv, BoundMethod):
            return self.call_method(fv.obj, fv.name, args, kwargs, node)
        if isinstance(fv, RepoFunc):
            if self.reg:
                hook = self.reg.function_hook(fv)
                if hook:
                    return hook(self, args, kwargs)
            return self.inline(fv.module, fv.cls, fv.node, args, kwargs)
        if isinstance(fv, ClassRef):
            return self.construct(fv, args, kwargs, node)
        if isinstance(fv, Closure):
            if self.reg and getattr(fv.node, 'name', None):
                hook = self.reg._closures.get(fv.node.name)
                if hook:
                    return hook(self, fv, args, kwargs)
            return self.call_closure(fv, args, kwargs)
        if isinstance(fv, ModuleRef):
            if self.reg:
                hook = self.reg.external_function(fv.name)
                if hook:
                    return hook(self, args, kwargs)
            self.unsupported(node, f'call of external {fv.name}')
        if hasattr(fv, 'sym_call'):
            return fv.sym_call(self, args, kwargs)
        self.unsupported(node, f'call of {fv!r}')

    def call_closure(self, fv, args, kwargs):
        n = fv.node
        env = Env({}, fv.env)
        self.bind_args(n.args, args, kwargs, env, getattr(n, 'name', '<lambda>'), fv.env)
        if isinstance(n, ast.Lambda):
            return self.eval(n.body, env)
        for s in n.body:
            if isinstance(s, ast.Nonlocal):
                env.nonlocals.update(s.names)
        try:
            self.exec_block(n.body, env)
        except _Return as r:
            return r.value
        return None

    def bind_args(self, a, args, kwargs, env, fname, defenv=None):
        """Python argument binding on the real signature."""
        params = [p.arg for p in a.posonlyargs + a.args]
        defaults = a.defaults
        ndef = len(defaults)
        args = list(args)
        kwargs = dict(kwargs)
        bound = {}
        for i, p in enumerate(params):
            if i < len(args):
                bound[p] = args[i]
        extra = args[len(params):]
        if extra and not a.vararg:
            self.raise_('TypeError', f'{fname}() takes {len(params)} positional arguments')
        if a.vararg:
            env.vars[a.vararg.arg] = list(extra)
        kwonly = [p.arg for p in a.kwonlyargs]
        rest = {}
        for k, v in kwargs.items():
            if k in params and k not in [pp.arg for pp in a.posonlyargs]:
                if k in bound:
                    self.raise_('TypeError', f"{fname}() got multiple values for argument '{k}'")
                bound[k] = v
            elif k in kwonly:
                bound[k] = v
            elif a.kwarg:
                rest[k] = v
            else:
                self.raise_('TypeError', f"{fname}() got an unexpected keyword argument '{k}'")
        if a.kwarg:
            env.vars[a.kwarg.arg] = rest
        dfe = defenv or Env()
        for i, p in enumerate(params):
            if p not in bound:
                di = i - (len(params) - ndef)
                if di >= 0:
                    bound[p] = self.eval(defaults[di], dfe)
                else:
                    self.raise_('TypeError', f"{fname}() missing required argument '{p}'")
        for p, d in zip(a.kwonlyargs, a.kw_defaults):
            if p.arg not in bound:
                if d is None:
                    self.raise_('TypeError', f"{fname}() missing keyword-only argument '{p.arg}'")
                bound[p.arg] = self.eval(d, dfe)
        for k, v in bound.items():
            env.vars[k] = v

    def inline(self, module, cls, fnode, args, kwargs, loops=None, qualname=None):
        """Execute the body of a real function in place (no contract)."""
        if len(self.frames) >= self.max_depth:
            raise Unsupported(f'inline depth exceeded at {fnode.name}')
        q = qualname or ((cls.name + '.' if cls else '') + fnode.name)
        if loops is None and self.reg:
            loops = self.reg.loops_for(module.relpath, q)
        fr = Frame(module, cls, fnode, q, loops, len(self.frames))
        env = Env({})
        self.frames.append(fr)
        try:
            self.bind_args(fnode.args, args, kwargs, env, fnode.name)
            self.e.note(f'inlined: {module.relpath}:{q}') if len(self.frames) > 1 else None
            is_gen = any(isinstance(x, (ast.Yield, ast.YieldFrom)) for x in ast.walk(fnode)
                         if not isinstance(x, (ast.Lambda,)))
            if is_gen:
                fr.yields = []
            try:
                self.exec_block(fnode.body, env)
            except _Return as r:
                return r.value if not is_gen else fr.yields
            return None if not is_gen else fr.yields
        finally:
            self.frames.pop()

    def construct(self, cref, args, kwargs, node=None):
        name = cref.name
        if self.reg:
            hook = self.reg.constructor(name)
            if hook:
                return hook(self, args, kwargs)
        if name in self.repo.exc_bases and not self.repo.get_class(name):
            return SymExc(name, args)
        info = cref.info or self.repo.get_class(name)
        if info is None:
            self.unsupported(node, f'constructor of {name}')
        obj = SymObj(name)
        r = self.repo.find_method(name, '__init__')
        is_exc = self.repo.is_subclass(name, 'BaseException')
        if r:
            c, fnode = r
            self.inline(c.module, c, fnode, [obj] + list(args), kwargs)
        elif is_exc:
            obj.fields['args'] = list(args)
        else:
            base_hook = None
            for cn in self.repo.mro_names(name):
                base_hook = self.reg and self.reg.external_init(cn)
                if base_hook:
                    base_hook(self, obj, args, kwargs)
                    break
        if is_exc:
            return SymExc(name, obj.fields.get('args', list(args)), obj)
        return obj

    def call_method(self, obj, name, args, kwargs, node=None):
        if isinstance(obj, SymObj):
            if obj.cls == '__super__':
                return self.call_super(obj, name, args, kwargs, node)
            if obj.cls == '__Logger__':
                return None
            hook = self.reg and self.reg.method_hook(obj.cls, name)
            if hook:
                return hook(self, obj, args, kwargs)
            r = self.repo.find_method(obj.cls, name)
            if r:
                c, fnode = r
                if name in c.staticmethods:
                    return self.inline(c.module, c, fnode, list(args), kwargs)
                return self.inline(c.module, c, fnode, [obj] + list(args), kwargs)
            if name in obj.fields:
                return self.call(obj.fields[name], args, kwargs, node)
            if name == '__getattribute__' and len(args) == 1 and isinstance(args[0], str):
                return self.getattr(obj, args[0], node)
            if name == '__setattr__' and len(args) == 2 and isinstance(args[0], str):
                return self.setattr(obj, args[0], args[1], node)
            self.unsupported(node, f'method {obj.cls}.{name} has no source, contract or model')
        if isinstance(obj, ClassRef):
            r = self.repo.find_method(obj.name, name)
            if r:
                c, fnode = r
                hook = self.reg and self.reg.method_hook(obj.name, name)
                if hook:
                    return hook(self, obj, args, kwargs)
                return self.inline(c.module, c, fnode, [obj] + list(args), kwargs)
        if hasattr(obj, 'sym_method'):
            return obj.sym_method(self, name, args, kwargs)
        return self.builtin_method(obj, name, args, kwargs, node)

    def call_super(self, sup, name, args, kwargs, node):
        obj, after = sup.fields['obj'], sup.fields['after']
        mro = self.repo.mro_names(obj.cls)
        idx = mro.index(after) if after in mro else -1
        for cn in mro[idx + 1:]:
            c = self.repo.get_class(cn)
            if c is not None and name in c.methods:
                return self.inline(c.module, c, c.methods[name], [obj] + list(args), kwargs)
            hook = self.reg and (self.reg.external_init(cn) if name == '__init__'
                                 else self.reg.method_hook(cn, name))
            if hook:
                if name == '__init__':
                    return hook(self, obj, args, kwargs)
                return hook(self, obj, args, kwargs)
        if name == '__init__' and self.repo.is_subclass(obj.cls, 'BaseException'):
            obj.fields['args'] = list(args)
            return None
        self.unsupported(node, f'super().{name} for {obj.cls} after {after}')

    # ------------------------------------------------------------------ builtin methods
    def builtin_method(self, obj, name, args, kwargs, node=None):
        if isinstance(obj, list):
            if name == 'append':
                obj.append(args[0]); return None
            if name == 'extend':
                obj.extend(self.iter_concrete(args[0], node)); return None
            if name == 'pop':
                try:
                    return obj.pop(*args)
                except IndexError:
                    self.raise_('IndexError', 'pop from empty list')
            if name == 'insert':
                obj.insert(args[0], args[1]); return None
            if name == 'copy':
                return list(obj)
            if name == 'index' and is_concrete(args[0]) and all(is_concrete(x) for x in obj):
                try:
                    return obj.index(args[0])
                except ValueError:
                    self.raise_('ValueError', 'not in list')
            if name == 'sort' and all(is_concrete(x) for x in obj) and not kwargs:
                obj.sort(); return None
            if name == 'sort' and len(obj) <= 1 and set(kwargs) <= {'key', 'reverse'}:
                return None         # nothing to order (the key function is not called on an empty list; on one element its result is not used)
            if name == 'reverse':
                obj.reverse(); return None
            if name == 'remove':
                for i, x in enumerate(obj):
                    r = self.eq(x, args[0])
                    if r is True or (r is not False and self.e.branch(r, 'remove')):
                        del obj[i]
                        return None
                self.raise_('ValueError', 'list.remove(x): x not in list')
            if name == 'clear':
                obj.clear(); return None
        if isinstance(obj, dict):
            if name == 'get':
                d = args[1] if len(args) > 1 else kwargs.get('default')
                try:
                    return self.getitem(obj, args[0], node)
                except PyRaise as r:
                    if r.exc.cls == 'KeyError':
                        return d
                    raise
            if name == 'keys':
                return list(obj.keys())
            if name == 'values':
                return list(obj.values())
            if name == 'items':
                return [(k, v) for k, v in obj.items()]
            if name == 'pop':
                try:
                    v = self.getitem(obj, args[0], node)
                except PyRaise as r:
                    if r.exc.cls == 'KeyError' and len(args) > 1:
                        return args[1]
                    raise
                for k in list(obj):
                    if self.eq(k, args[0]) is True or k is args[0]:
                        del obj[k]
                        break
                return v
            if name == 'update':
                if args:
                    obj.update(args[0])
                obj.update(kwargs)
                return None
            if name == 'copy':
                return dict(obj)
            if name == 'setdefault':
                if self.contains(obj, args[0]) is True:
                    return obj[args[0]]
                obj[args[0]] = args[1] if len(args) > 1 else None
                return obj[args[0]]
        if isinstance(obj, set):
            if name == 'add' and is_concrete(args[0]):
                obj.add(args[0]); return None
            if name == 'update':
                for a in args:
                    obj.update(self.iter_concrete(a, node))
                return None
            if name == 'copy':
                return set(obj)
        if isinstance(obj, str):
            if all(is_concrete(a) or isinstance(a, (tuple, list)) for a in args):
                if name == 'join':
                    items = self.iter_concrete(args[0], node)
                    if all(isinstance(x, str) for x in items):
                        return obj.join(items)
                    return OpaqueStr(['join', obj] + list(items))
                if name == 'format':
                    return OpaqueStr([obj] + list(args))
                try:
                    return getattr(obj, name)(*args, **kwargs)
                except (ValueError, IndexError) as ex:
                    self.raise_(type(ex).__name__, str(ex))
            if name == 'join':
                if obj == '' and (isinstance(args[0], View) or hasattr(args[0], 'sym_view')):
                    from .seqalg import SymString
                    v = self.as_view(args[0])
                    return SymString(v.length(), v.get, tag='join')
                return OpaqueStr(['join', obj, args[0]])
            if name == 'format':
                return OpaqueStr([obj] + list(args))
        if isinstance(obj, tuple) and name in ('index', 'count') and is_concrete(args[0]):
            return getattr(obj, name)(*args)
        if isinstance(obj, OpaqueStr):
            if self.reg:
                hook = self.reg.value_method(obj, name)
                if hook:
                    return hook(self, obj, args, kwargs)
            if name in ('strip', 'rstrip', 'lstrip', 'format', 'upper', 'lower'):
                return OpaqueStr(obj.parts)
        if self.reg:
            hook = self.reg.value_method(obj, name)
            if hook:
                return hook(self, obj, args, kwargs)
        self.unsupported(node, f'method {name} on {type(obj).__name__} {obj!r}'[:160])

    def py_str(self, v):
        if isinstance(v, (str,)):
            return v
        if self.reg and not is_concrete(v):
            h = self.reg.str_hook(v)
            if h:
                return h(self, v)
        if isinstance(v, bool) or v is None:
            return str(v)
        if isinstance(v, int):
            return str(v)
        if isinstance(v, SymObj):
            if self.repo.find_method(v.cls, '__str__'):
                return self.call_method(v, '__str__', [], {})
            return OpaqueStr(['<obj>', v.cls])
        if isinstance(v, (SymStr, OpaqueStr)):
            return v
        if hasattr(v, 'sym_str'):
            return v.sym_str(self)
        if self.reg:
            h = self.reg.str_hook(v)
            if h:
                return h(self, v)
        return OpaqueStr(['str', v])

    def _mk_builtins(self):
        I = self
        def bi_len(i, a, k):
            return i.length(a[0])
        def bi_int(i, a, k):
            v = a[0] if a else 0
            if isinstance(v, (int, str, float)) and not isinstance(v, bool):
                try:
                    return int(v, *a[1:]) if isinstance(v, str) else int(v)
                except ValueError as ex:
                    i.raise_('ValueError', str(ex))
            if isinstance(v, bool):
                return int(v)
            if is_sym_int(v):
                return v
            if isinstance(v, z3.BoolRef):
                return z3.If(v, 1, 0)
            if isinstance(v, z3.ArithRef) and v.is_real():
                # truncation toward zero
                fl = z3.ToInt(v)
                return z3.If(v >= 0, fl, z3.If(z3.ToReal(fl) == v, fl, fl + 1))
            if hasattr(v, 'sym_int'):
                return v.sym_int(i)
            if i.reg:
                h = i.reg.int_hook(v)
                if h:
                    return h(i, v)
            raise Unsupported(f'int() of {v!r}')
        def bi_str(i, a, k):
            return i.py_str(a[0]) if a else ''
        def bi_bool(i, a, k):
            return i.truth(a[0]) if a else False
        def bi_abs(i, a, k):
            v = a[0]
            if isinstance(v, (int, float)):
                return abs(v)
            return z3.If(v >= 0, v, -v)
        def _minmax(i, a, k, ismin):
            if len(a) == 1:
                try:
                    i.iter_concrete(a[0])
                except Unsupported:
                    view = i.as_view(a[0])
                    n = view.length()
                    if not i.e.branch(n > 0, 'minmax-nonempty'):
                        if 'default' in k:
                            return k['default']
                        i.raise_('ValueError', 'max() arg is an empty sequence')
                    # assumed contract of builtin min/max over ints
                    m_ = i.e.int('minmax')
                    j = z3.Int(i.e.fresh_name('j_mm'))
                    wit = i.e.int('minmax_at')
                    el = view.get(j)
                    i.e.assume(z3.ForAll([j], z3.Implies(z3.And(0 <= j, j < n), (el >= m_) if ismin else (el <= m_))))
                    i.e.assume(z3.And(0 <= wit, wit < n, view.get(wit) == m_))
                    i.e.note('assumed: builtin min/max over a sequence of ints returns a bound that is attained')
                    return m_
            items = a if len(a) > 1 else i.iter_concrete(a[0])
            if not items:
                if 'default' in k:
                    return k['default']
                i.raise_('ValueError', 'empty sequence')
            if 'key' in k:
                # a concrete list with a key function: the first element with the smallest / largest key (decided on the path)
                r = items[0]
                kr = i.call(k['key'], [r], {})
                for x in items[1:]:
                    kx = i.call(k['key'], [x], {})
                    c = i.compare('<' if ismin else '>', kx, kr)
                    if c is True or (c is not False and i.e.branch(c, 'minmax-key')):
                        r, kr = x, kx
                return r
            r = items[0]
            for x in items[1:]:
                c = i.compare('<' if ismin else '>', x, r)
                if isinstance(c, bool):
                    r = x if c else r
                elif is_z3(i.num(x)) or is_z3(i.num(r)):
                    r = z3.If(c, i.num(x), i.num(r))
                else:
                    r = x if i.e.branch(c, 'minmax') else r
            return r
        def bi_min(i, a, k):
            return _minmax(i, a, k, True)
        def bi_max(i, a, k):
            return _minmax(i, a, k, False)
        def bi_range(i, a, k):
            if all(isinstance(x, int) for x in a):
                return list(range(*a))
            lo, hi = (0, a[0]) if len(a) == 1 else (a[0], a[1])
            if len(a) == 3 and isinstance(a[2], int) and a[2] == -1:
                ln = lo - hi
                ln = z3.If(ln > 0, ln, 0) if is_z3(ln) else max(ln, 0)
                return FnView(ln, lambda j, lo=lo: lo - j, tag='range-down')
            if len(a) == 3 and a[2] != 1:
                raise Unsupported('symbolic range with step')
            ln = hi - lo
            ln = z3.If(ln > 0, ln, 0) if is_z3(ln) else max(ln, 0)
            return FnView(ln, lambda j, lo=lo: lo + j, tag='range')
        def bi_enumerate(i, a, k):
            v = i.as_view(a[0])
            st = a[1] if len(a) > 1 else k.get('start', 0)
            if isinstance(v.length(), int):
                return [(j + st, v.get(j)) for j in range(v.length())]
            return FnView(v.length(), lambda j, v=v, st=st: (j + st, v.get(j)), tag='enumerate')
        def bi_reversed(i, a, k):
            v = a[0]
            if isinstance(v, (list, tuple)):
                return list(reversed(v))
            v = i.as_view(v)
            n = v.length()
            return FnView(n, lambda j, v=v, n=n: v.get(n - 1 - j), tag=f'reversed({getattr(v,"tag",None)})')
        def bi_zip(i, a, k):
            vs = [i.as_view(x) for x in a]
            ls = [v.length() for v in vs]
            if all(isinstance(l, int) for l in ls):
                return [tuple(v.get(j) for v in vs) for j in range(min(ls))]
            n = ls[0]
            for l in ls[1:]:
                n = z3.If(l < n, l, n)
            return FnView(n, lambda j, vs=vs: tuple(v.get(j) for v in vs), tag='zip')
        def bi_list(i, a, k):
            if not a:
                return []
            if i.reg and getattr(i.reg, 'list_hook', None):
                r = i.reg.list_hook(i, a, k)
                if r is not None:
                    return r
            v = a[0]
            if isinstance(v, View) and not isinstance(v.length(), int):
                return v
            return list(i.iter_concrete(v))
        def bi_tuple(i, a, k):
            return tuple(i.iter_concrete(a[0])) if a else ()
        def bi_set(i, a, k):
            if not a:
                if i.reg and getattr(i.reg, 'empty_set_hook', None):
                    return i.reg.empty_set_hook(i)
                return set()
            try:
                items = i.iter_concrete(a[0])
            except Unsupported:
                h = i.reg.set_hook(a[0]) if i.reg else None
                if h:
                    return h(i, a[0])
                raise
            if all(is_concrete(x) for x in items):
                return set(items)
            if i.reg:
                h = i.reg.set_hook(items)
                if h:
                    return h(i, items)
            raise Unsupported('set() of symbolic items')
        def bi_dict(i, a, k):
            d = {}
            if a:
                if isinstance(a[0], dict):
                    d.update(a[0])
                else:
                    for kk, vv in i.iter_concrete(a[0]):
                        d[kk] = vv
            d.update(k)
            return d
        def bi_isinstance(i, a, k):
            v, cl = a
            cls = cl if isinstance(cl, tuple) else (cl,)
            for c in cls:
                r = i.isinstance1(v, c)
                if r is True:
                    return True
                if r is not False:
                    return r
            return False
        def bi_hasattr(i, a, k):
            o, nm = a
            if isinstance(o, SymObj):
                if nm in o.fields:
                    return o.fields[nm] is not UNDEF
                if i.reg and i.reg.attr_hook(o.cls, nm):
                    return True
                return bool(i.repo.find_method(o.cls, nm, 'properties') or
                            i.repo.find_method(o.cls, nm, 'methods'))
            raise Unsupported(f'hasattr on {o!r}')
        def bi_getattr(i, a, k):
            try:
                return i.getattr(a[0], a[1])
            except PyRaise as r:
                if r.exc.cls == 'AttributeError' and len(a) > 2:
                    return a[2]
                raise
        def bi_setattr(i, a, k):
            i.setattr(a[0], a[1], a[2])
        def bi_sum(i, a, k):
            v = a[0]
            start = a[1] if len(a) > 1 else 0
            try:
                items = i.iter_concrete(v)
            except Unsupported:
                items = None
            if items is not None:
                r = start
                for x in items:
                    r = i.binop('+', r, x)
                return r
            if i.reg:
                h = i.reg.sum_hook(i, v)
                if h is not None:
                    return h
            raise Unsupported('sum() over symbolic sequence without a model')
        def bi_any(i, a, k, is_any=True):
            v = a[0]
            try:
                items = i.iter_concrete(v)
            except Unsupported:
                items = None
            if items is not None:
                ts = [i.truth(x) for x in items]
                if all(isinstance(t, bool) for t in ts):
                    return any(ts) if is_any else all(ts)
                ts = [as_bool(t) for t in ts]
                return z3.Or(*ts) if is_any else z3.And(*ts)
            view = i.as_view(v)
            kk = z3.Int(i.e.fresh_name('k_q'))
            body = as_bool(i.truth(view.get(kk)))
            rng = z3.And(0 <= kk, kk < view.length())
            return z3.Exists([kk], z3.And(rng, body)) if is_any else z3.ForAll([kk], z3.Implies(rng, body))
        def bi_all(i, a, k):
            return bi_any(i, a, k, False)
        def bi_sorted(i, a, k):
            try:
                items = i.iter_concrete(a[0])
            except Unsupported:
                h = i.reg.sorted_hook(i, a[0], k) if i.reg else None
                if h is not None:
                    return h
                raise
            if all(is_concrete(x) for x in items) and not k:
                return sorted(items)
            if all(is_concrete(x) for x in items) and set(k) == {'reverse'} and isinstance(k['reverse'], bool):
                return sorted(items, reverse=k['reverse'])
            if i.reg:
                h = i.reg.sorted_hook(i, items, k)
                if h is not None:
                    return h
            raise Unsupported('sorted() of symbolic items')
        def bi_print(i, a, k):
            return None
        def bi_next(i, a, k):
            it = a[0]
            if hasattr(it, 'sym_next'):
                return it.sym_next(i, a[1:] )
            if isinstance(it, (View, list)):
                # enumerate()/reversed() results used as iterators: the object carries a cursor
                # (loop-carried hidden state: a loop spec must havoc `_cursor` of the iterator)
                v = it if isinstance(it, View) else conc_view(it)
                pos = getattr(it, '_cursor', 0) if isinstance(it, View) else it and 0
                if isinstance(it, list):
                    raise Unsupported('next() on a list')
                n = v.length()
                c = i.compare('<', pos, n)
                if c is True or (c is not False and i.e.branch(c, 'next:has-item')):
                    it._cursor = pos + 1
                    return v.get(pos)
                if len(a) > 1:
                    return a[1]
                i.raise_('StopIteration')
            raise Unsupported(f'next() on {it!r}')
        def bi_iter(i, a, k):
            v = a[0]
            if i.reg:
                h = i.reg.iter_hook(i, v)
                if h is not None:
                    return h
            raise Unsupported(f'iter() on {v!r}')
        def bi_type(i, a, k):
            v = a[0]
            if isinstance(v, SymObj):
                return ClassRef(v.cls, i.repo.get_class(v.cls))
            if isinstance(v, SymExc):
                return ClassRef(v.cls)
            raise Unsupported('type()')
        def bi_id(i, a, k):
            raise Unsupported('id()')
        def bi_round(i, a, k):
            raise Unsupported('round()')
        def bi_float(i, a, k):
            v = a[0]
            if isinstance(v, (int, float, str)):
                return float(v)
            if is_sym_int(v):
                return z3.ToReal(v)
            if is_z3(v):
                return v
            if hasattr(v, 'sym_float'):
                return v.sym_float(i)
            if i.reg:
                h = i.reg.float_hook(v)
                if h:
                    return h(i, v)
            raise Unsupported('float()')
        def bi_frozenset(i, a, k):
            r = bi_set(i, a, k)
            return frozenset(r) if isinstance(r, (set, frozenset, list, tuple)) else r
        def bi_open(i, a, k):
            if i.reg:
                h = i.reg.external_function('open')
                if h:
                    return h(i, a, k)
            raise Unsupported('open()')
        def bi_callable(i, a, k):
            return isinstance(a[0], (Closure, RepoFunc, BoundMethod, Builtin, ClassRef))
        tbl = dict(len=bi_len, int=bi_int, str=bi_str, bool=bi_bool, abs=bi_abs, min=bi_min,
                   max=bi_max, range=bi_range, enumerate=bi_enumerate, reversed=bi_reversed,
                   zip=bi_zip, list=bi_list, tuple=bi_tuple, set=bi_set, dict=bi_dict,
                   isinstance=bi_isinstance, hasattr=bi_hasattr, getattr=bi_getattr,
                   setattr=bi_setattr, sum=bi_sum, any=bi_any, all=bi_all, sorted=bi_sorted,
                   print=bi_print, next=bi_next, iter=bi_iter, type=bi_type, id=bi_id,
                   round=bi_round, float=bi_float, frozenset=bi_frozenset, open=bi_open,
                   callable=bi_callable)
        return {k: Builtin(k, v) for k, v in tbl.items()}

    def isinstance1(self, v, c):
        name = c.name if isinstance(c, (ClassRef, Builtin)) else None
        if name is None:
            raise Unsupported(f'isinstance against {c!r}')
        if isinstance(v, SymObj):
            if self.reg:
                h = self.reg.isinstance_hook(v, name)
                if h is not None:
                    return h
            return self.repo.is_subclass(v.cls, name)
        if isinstance(v, SymExc):
            return self.repo.is_subclass(v.cls, name)
        py = {'int': int, 'str': str, 'list': list, 'tuple': tuple, 'dict': dict, 'bool': bool,
              'float': float, 'set': set}
        if name in py:
            if is_sym_int(v):
                return name == 'int'
            if isinstance(v, z3.BoolRef):
                return name in ('bool', 'int')
            if isinstance(v, (SymStr, OpaqueStr)):
                return name == 'str'
            if isinstance(v, View):
                return name == 'list'
            if hasattr(v, 'sym_isinstance'):
                return v.sym_isinstance(self, name)
            return isinstance(v, py[name])
        if hasattr(v, 'sym_isinstance'):
            return v.sym_isinstance(self, name)
        return False

    # ================================================================== statements
    def exec_block(self, stmts, env):
        for s in stmts:
            self.exec_stmt(s, env)

    def exec_stmt(self, s, env):
        m = getattr(self, 's_' + type(s).__name__, None)
        if m is None:
            self.unsupported(s)
        return m(s, env)

    def s_Expr(self, s, env):
        if isinstance(s.value, ast.Constant):
            return
        if self._is_logger_call(s.value, env):
            return
        self.eval(s.value, env)

    def _is_logger_call(self, n, env):
        if not isinstance(n, ast.Call):
            return False
        f = n.func
        if isinstance(f, ast.Attribute) and f.attr in ('info', 'warning', 'debug', 'error', 'critical'):
            b = f.value
            if isinstance(b, ast.Name) and b.id in ('logger',):
                return True
            if isinstance(b, ast.Call) and isinstance(b.func, ast.Name) and b.func.id == 'get_logger':
                return True
            if isinstance(b, ast.Attribute) and b.attr == 'logger':
                return True
        if isinstance(f, ast.Name) and f.id in ('logger',) and not env.has('logger'):
            return True
        return False

    def s_Pass(self, s, env):
        pass

    def s_Import(self, s, env):
        for a in s.names:
            env.set(a.asname or a.name.split('.')[0], ModuleRef(a.name))

    def s_ImportFrom(self, s, env):
        for a in s.names:
            env.set(a.asname or a.name, self.resolve_import(s.module or '', a.name, s.level, self.frame.module))

    def s_Global(self, s, env):
        self.unsupported(s)

    def s_Nonlocal(self, s, env):
        env.nonlocals.update(s.names)

    def s_Assert(self, s, env):
        if not self.test(self.eval(s.test, env), 'assert'):
            self.raise_('AssertionError')

    def s_Delete(self, s, env):
        for t in s.targets:
            if isinstance(t, ast.Name):
                env.set(t.id, UNDEF)
            elif isinstance(t, ast.Subscript):
                obj = self.eval(t.value, env)
                idx = self.eval(t.slice, env)
                if isinstance(obj, (dict, list)) and is_concrete(idx):
                    try:
                        del obj[idx]
                    except (KeyError, IndexError) as ex:
                        self.raise_(type(ex).__name__, idx)
                elif hasattr(obj, 'sym_delitem'):
                    obj.sym_delitem(self, idx)
                else:
                    self.unsupported(s)
            else:
                self.unsupported(s)

    def assign(self, target, v, env):
        if isinstance(target, ast.Name):
            env.set(target.id, v)
        elif isinstance(target, (ast.Tuple, ast.List)):
            if isinstance(v, View) and isinstance(v.length(), int):
                v = [v.get(i) for i in range(v.length())]
            if hasattr(v, 'sym_unpack'):
                v = v.sym_unpack(self, len(target.elts))
            if not isinstance(v, (list, tuple)):
                self.unsupported(target, f'unpacking {v!r}')
            stars = [i for i, t in enumerate(target.elts) if isinstance(t, ast.Starred)]
            if stars:
                if len(stars) > 1:
                    self.unsupported(target, 'two starred targets')
                si = stars[0]
                nfix = len(target.elts) - 1
                if len(v) < nfix:
                    self.raise_('ValueError', 'not enough values to unpack')
                v = list(v)
                tail = nfix - si
                mid = v[si:len(v) - tail]
                for t, x in zip(target.elts[:si], v[:si]):
                    self.assign(t, x, env)
                self.assign(target.elts[si].value, list(mid), env)
                for t, x in zip(target.elts[si + 1:], v[len(v) - tail:]):
                    self.assign(t, x, env)
                return
            if len(v) != len(target.elts):
                self.raise_('ValueError', 'unpack')
            for t, x in zip(target.elts, v):
                self.assign(t, x, env)
        elif isinstance(target, ast.Attribute):
            obj = self.eval(target.value, env)
            self.setattr(obj, target.attr, v, target)
        elif isinstance(target, ast.Subscript):
            obj = self.eval(target.value, env)
            if isinstance(target.slice, ast.Slice):
                self.unsupported(target, 'slice store')
            idx = self.eval(target.slice, env)
            self.setitem(obj, idx, v, target)
        else:
            self.unsupported(target)

    def setitem(self, obj, idx, v, node=None):
        if isinstance(obj, dict):
            if is_concrete(idx) or isinstance(idx, tuple):
                if all(is_concrete(k) or isinstance(k, tuple) for k in obj):
                    obj[idx] = v
                    return
            for k in obj:
                r = self.eq(k, idx)
                if r is True or (r is not False and self.e.branch(r, 'dictkey')):
                    obj[k] = v
                    return
            obj[idx] = v
            return
        if isinstance(obj, list) and isinstance(idx, int):
            try:
                obj[idx] = v
            except IndexError:
                self.raise_('IndexError', 'assignment index out of range')
            return
        if hasattr(obj, 'sym_setitem'):
            return obj.sym_setitem(self, idx, v)
        if isinstance(obj, SymObj):
            hook = self.reg and self.reg.protocol(obj.cls, '__setitem__')
            if hook:
                return hook(self, obj, idx, v)
            if self.repo.find_method(obj.cls, '__setitem__'):
                return self.call_method(obj, '__setitem__', [idx, v], {})
        self.unsupported(node, f'item store on {obj!r}')

    def s_Assign(self, s, env):
        v = self.eval(s.value, env)
        for t in s.targets:
            self.assign(t, v, env)

    def s_AnnAssign(self, s, env):
        if s.value is not None:
            self.assign(s.target, self.eval(s.value, env), env)

    def s_AugAssign(self, s, env):
        op = BINOP.get(type(s.op))
        if op is None:
            self.unsupported(s)
        t = s.target
        if isinstance(t, ast.Name):
            cur = self.e_Name(ast.Name(id=t.id, ctx=ast.Load()), env)
            if isinstance(cur, list) and op == '+':
                v = self.eval(s.value, env)
                try:
                    cur.extend(self.iter_concrete(v, s))
                except Unsupported:
                    if hasattr(v, 'sym_binop'):
                        r = v.sym_binop(self, '+', cur, True)
                        if r is not NotImplemented:
                            env.set(t.id, r)
                            return
                    # concrete prefix + symbolic sequence: becomes a list of symbolic length
                    if not all(is_intlike(x) for x in cur):
                        raise
                    from .symlist import SymList
                    sl = SymList.empty(self, t.id)
                    for x in cur:
                        sl.sym_method(self, 'append', [x], {})
                    env.set(t.id, sl.sym_iadd(self, v))
                return
            if hasattr(cur, 'sym_iadd') and op == '+':
                env.set(t.id, cur.sym_iadd(self, self.eval(s.value, env)))
                return
            env.set(t.id, self.binop(op, cur, self.eval(s.value, env), s))
        elif isinstance(t, ast.Attribute):
            obj = self.eval(t.value, env)
            cur = self.getattr(obj, t.attr, t)
            if isinstance(cur, list) and op == '+':
                cur.extend(self.iter_concrete(self.eval(s.value, env), s))
                return
            self.setattr(obj, t.attr, self.binop(op, cur, self.eval(s.value, env), s), t)
        elif isinstance(t, ast.Subscript):
            obj = self.eval(t.value, env)
            idx = self.eval(t.slice, env)
            cur = self.getitem(obj, idx, t)
            self.setitem(obj, idx, self.binop(op, cur, self.eval(s.value, env), s), t)
        else:
            self.unsupported(s)

    def s_If(self, s, env):
        if self.test(self.eval(s.test, env), f'if@{s.lineno}'):
            self.exec_block(s.body, env)
        else:
            self.exec_block(s.orelse, env)

    def s_Return(self, s, env):
        raise _Return(self.eval(s.value, env) if s.value is not None else None)

    def s_Break(self, s, env):
        raise _Break()

    def s_Continue(self, s, env):
        raise _Continue()

    def s_FunctionDef(self, s, env):
        env.set(s.name, Closure(s, env, self.frame.module, self.frame))

    def s_Raise(self, s, env):
        if s.exc is None:
            if self.frame.exc_stack:
                raise PyRaise(self.frame.exc_stack[-1])
            self.raise_('RuntimeError', 'No active exception to reraise')
        v = self.eval(s.exc, env)
        if isinstance(v, ClassRef):
            v = self.construct(v, [], {}, s)
        if not isinstance(v, SymExc):
            self.unsupported(s, f'raise of {v!r}')
        raise PyRaise(v)

    def exc_matches(self, exc, tnode, env):
        if tnode is None:
            return True
        t = self.eval(tnode, env)
        ts = t if isinstance(t, tuple) else (t,)
        for c in ts:
            if not isinstance(c, ClassRef):
                self.unsupported(tnode, 'handler type')
            if exc.cls == '<any>':
                if c.name in ('Exception', 'BaseException'):
                    return True
                # a failure of unknown kind may be of this kind: decide it on the path (and remember it, so that later handlers agree).
                # Only for failures the contract marks as refinable - elsewhere '<any>' stands for "any failure other than the kinds
                # the contract raises by name"
                if getattr(exc, 'refinable', False) and self.e.branch(self.e.bool(f'the_failure_is_a_{c.name}'), f'unknown failure is a {c.name}'):
                    exc.cls = c.name
                    return True
                continue
            if self.repo.is_subclass(exc.cls, c.name):
                return True
        return False

    def s_Try(self, s, env):
        def run_final():
            if s.finalbody:
                self.exec_block(s.finalbody, env)
        try:
            try:
                self.exec_block(s.body, env)
            except PyRaise as r:
                exc = r.exc
                for h in s.handlers:
                    if self.exc_matches(exc, h.type, env):
                        if h.name:
                            env.set(h.name, exc)
                        self.frame.exc_stack.append(exc)
                        try:
                            self.exec_block(h.body, env)
                        finally:
                            self.frame.exc_stack.pop()
                        break
                else:
                    raise
            else:
                self.exec_block(s.orelse, env)
        except PathEnd:
            raise
        except (PyRaise, _Return, _Break, _Continue):
            run_final()
            raise
        run_final()

    def s_With(self, s, env):
        entered = []
        for item in s.items:
            cm = self.eval(item.context_expr, env)
            val = cm
            if self.reg:
                h = self.reg.with_enter(cm)
                if h:
                    val = h(self, cm)
            entered.append(cm)
            if item.optional_vars is not None:
                self.assign(item.optional_vars, val, env)
        try:
            self.exec_block(s.body, env)
        finally:
            if self.reg:
                for cm in reversed(entered):
                    h = self.reg.with_exit(cm)
                    if h:
                        h(self, cm)

    # ------------------------------------------------------------------ loops
    def loop_spec(self, node):
        fr = self.frame
        k = fr.loop_ord.get(id(node))
        spec = fr.loops.get(k) if fr.loops else None
        return k, spec

    def havoc_value(self, name, v):
        e = self.e
        if isinstance(v, bool):
            return e.bool(name)
        if isinstance(v, int):
            return e.int(name)
        if isinstance(v, z3.BoolRef):
            return e.bool(name)
        if isinstance(v, z3.ArithRef):
            return e.int(name) if v.is_int() else e.real(name)
        if hasattr(v, 'sym_havoc'):
            return v.sym_havoc(self, name)
        return None

    def cut_loop(self, s, env, spec, ordinal, view=None):
        """Cut a loop with an inductive invariant. view: iterable view for `for`."""
        e = self.e
        fq = self.frame.qualname
        idxname = spec.index or f'__k{ordinal}'
        tag = f'{fq}/loop{ordinal}'
        if getattr(spec, 'abstract', None):
            # the loop is NOT verified: it is replaced by the state the spec describes (an assumption the contract must declare)
            spec.abstract(self, env)
            e.note(f'assumed (loop abstracted, body not verified): {tag}')
            return
        body_names = assigned_names(s.body) + (assigned_names([ast.Assign(targets=[s.target], value=ast.Constant(0))])
                                               if isinstance(s, ast.For) else [])
        def inv_items(k):
            r = spec.inv(self, env, k) if spec.inv else []
            if is_z3(r) or isinstance(r, bool):
                r = [('inv', r)]
            return list(r)
        # --- initiation
        k0 = 0
        env.vars[idxname] = k0
        if spec.on_init:
            spec.on_init(self, env)
        for nm, g in inv_items(k0):
            e.prove(f'{tag}/init/{nm}', g)
        # --- havoc
        target_names = assigned_names([ast.Assign(targets=[s.target], value=ast.Constant(0))]) if isinstance(s, ast.For) else []
        unhavocked = []
        for nm in body_names:
            if nm in target_names and nm not in spec.carried:
                continue      # (re)bound from the iterable at the start of every iteration
            if nm in spec.carried:
                env.set(nm, spec.carried[nm](self, env))
                continue
            if not env.has(nm) or env.lookup(nm) is UNDEF:
                # first assigned inside the loop: at an arbitrary iteration it is either still
                # unbound or holds the value of an earlier iteration
                env.set(nm, MaybeStale(nm))
                continue
            cur = env.lookup(nm)
            if isinstance(cur, MaybeStale):
                continue
            nv = self.havoc_value(nm, cur)
            if nv is None:
                if spec.havoc is None:
                    raise Unsupported(f'{tag}: cannot havoc loop-carried {nm}={cur!r}')
                unhavocked.append((nm, cur))
                continue
            env.set(nm, nv)
        k = e.int(idxname)
        env.vars[idxname] = k
        self.loop_mods = heap_assigned(s.body)
        e.assume(k >= 0)
        n = None
        if view is not None:
            n = view.length()
            e.assume(k <= n)
        Env.written = set()
        try:
            if spec.havoc:
                spec.havoc(self, env, k)
            assigned_by_spec = set(Env.written)
        finally:
            Env.written = None
        for nm in mutated_names(s.body):
            if nm in assigned_by_spec or nm in getattr(spec, 'keep', ()) or not env.has(nm):
                continue
            cur = env.lookup(nm)
            if type(cur) in (dict, list, set):
                env.set(nm, StaleContainer(nm))
        for nm, cur in unhavocked:
            # the loop spec did not replace it: initial value or a value of an earlier iteration
            if nm not in assigned_by_spec and nm not in getattr(spec, 'keep', ()):
                env.set(nm, InitOrStale(nm, cur))
        for nm, g in inv_items(k):
            e.assume(g)
        if spec.on_head:
            spec.on_head(self, env, k)
        dec0 = spec.decreases(self, env, k) if spec.decreases else None
        # --- one arbitrary iteration, or exit
        if view is not None:
            cont = e.branch(k < n, f'{tag}/iter')
        else:
            cont = self.test(self.eval(s.test, env), f'{tag}/iter')
        if cont:
            e.cover(f'{tag}/cover/body-reachable')
            if view is not None:
                self.assign(s.target, view.get(k), env)
            try:
                self.exec_block(s.body, env)
            except _Continue:
                pass
            except _Break:
                if getattr(spec, 'on_break', None):
                    for nm, g in spec.on_break(self, env, k):
                        e.prove(f'{tag}/break/{nm}', g)
                env.vars.pop(idxname, None)
                return
            k1 = k + 1
            if spec.step:
                for nm, g in spec.step(self, env, k):
                    e.prove(f'{tag}/step/{nm}', g)
            env.vars[idxname] = k1
            for nm, g in inv_items(k1):
                e.prove(f'{tag}/preserve/{nm}', g)
            if dec0 is not None:
                dec1 = spec.decreases(self, env, k1)
                e.prove(f'{tag}/decreases', z3.And(dec0 >= 0, dec1 < dec0))
            raise PathEnd()
        env.vars.pop(idxname, None)
        env.vars[f'{idxname}_final'] = k
        if getattr(spec, 'on_exit', None):
            for nm, g in spec.on_exit(self, env, k):
                e.prove(f'{tag}/exit/{nm}', g)
        if view is not None:
            # after the loop the target names hold the last element (if any) unless the body rebinds them
            tnames = assigned_names([ast.Assign(targets=[s.target], value=ast.Constant(0))])
            if not (set(tnames) & set(assigned_names(s.body))):
                if getattr(spec, 'target_after', 'last') == 'unknown':
                    for nm in tnames:
                        env.set(nm, MaybeStale(nm))
                elif e.branch(n > 0, f'{tag}/ran-at-least-once'):
                    self.assign(s.target, view.get(n - 1), env)
        self.exec_block(s.orelse, env)

    def s_For(self, s, env):
        it = self.eval(s.iter, env)
        ordinal, spec = self.loop_spec(s)
        items = None
        if spec is None or isinstance(it, (list, tuple, dict, str, set)):
            try:
                items = self.iter_concrete(it, s.iter)
            except Unsupported:
                items = None
        if items is not None:
            broke = False
            for x in items:
                self.assign(s.target, x, env)
                try:
                    self.exec_block(s.body, env)
                except _Continue:
                    continue
                except _Break:
                    broke = True
                    break
            if not broke:
                self.exec_block(s.orelse, env)
            return
        if spec is None:
            raise Unsupported(f'{self.frame.qualname}: loop {ordinal} (line {s.lineno}) over a symbolic '
                              f'sequence has no invariant')
        view = self.as_view(it, s.iter)
        self.cut_loop(s, env, spec, ordinal, view)

    def s_While(self, s, env):
        ordinal, spec = self.loop_spec(s)
        if spec is None:
            # try bounded concrete execution (condition must stay concrete)
            for _ in range(64):
                t = self.truth(self.eval(s.test, env))
                if not isinstance(t, bool):
                    raise Unsupported(f'{self.frame.qualname}: while loop {ordinal} (line {s.lineno}) '
                                      f'with symbolic condition has no invariant')
                if not t:
                    self.exec_block(s.orelse, env)
                    return
                try:
                    self.exec_block(s.body, env)
                except _Continue:
                    continue
                except _Break:
                    return
            raise Unsupported('while loop did not terminate concretely in 64 iterations')
        self.cut_loop(s, env, spec, ordinal, None)
