#!/bin/bash
# usage: mutcheck.sh <prop> <file> <old> <new>  — run bin/check on a scratch copy with one textual mutation
rm -rf /tmp/mut && mkdir -p /tmp/mut && cp -r /repo/moPepGen /tmp/mut/
python3 - "$2" "$3" "$4" <<'P' || exit 9
import sys
p='/tmp/mut/'+sys.argv[1]; s=open(p).read()
assert s.count(sys.argv[2])>=1, 'pattern not found'
s=s.replace(sys.argv[2], sys.argv[3], 1); open(p,'w').write(s)
P
cd /verif && PYVC_REPO=/tmp/mut bin/check "$1" | tail -8; echo "exit=${PIPESTATUS[0]}"
rm -rf /tmp/mut
