"""Common sidecar models (assumed contracts of the standard library)."""
from __future__ import annotations
import z3
from .values import *
from .core import Unsupported, as_bool


def install_common(reg):
    def copy_copy(I, args, kwargs):
        v = args[0]
        if isinstance(v, dict):
            return dict(v)
        if isinstance(v, list):
            return list(v)
        if isinstance(v, SymObj):
            o = SymObj(v.cls, **v.fields)
            return o
        if is_concrete(v) or is_z3(v):
            return v
        if hasattr(v, 'sym_copy'):
            return v.sym_copy(I)
        raise Unsupported(f'copy.copy of {v!r}')
    reg.ext_('copy.copy', copy_copy)

    reg.func_('moPepGen/__init__.py', 'get_logger', lambda I, a, k: I.logger)
