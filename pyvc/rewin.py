"""Regular expressions as predicates over a finite window of cells (DESIGN.md §1.1).

A cell holds a symbol of the alphabet A-Z, '*' (codes 0..26) or ABSENT (27: position beyond
either end of the string).  A pattern is parsed with CPython's own re._parser; matching the
pattern at a window position is compiled into a z3 formula over the cells.  Quantifying the
cells universally covers all strings of all lengths (the patterns only look at a bounded
neighbourhood of the match position).
"""
from __future__ import annotations
import re
import z3

try:
    import re._parser as sre_parse
    import re._constants as sre_c
except ImportError:       # pragma: no cover
    import sre_parse
    import sre_constants as sre_c

ALPHABET = 'ABCDEFGHIJKLMNOPQRSTUVWXYZ*'
ABSENT = len(ALPHABET)          # 27
CODE = {c: i for i, c in enumerate(ALPHABET)}


class UnsupportedRegex(Exception):
    pass


class Window:
    """cells[lo..hi] as z3 Int constants named <prefix>_<offset>"""
    def __init__(self, lo, hi, prefix='c'):
        self.lo, self.hi = lo, hi
        self.cells = {i: z3.Int(f'{prefix}_{"m" if i < 0 else "p"}{abs(i)}') for i in range(lo, hi + 1)}

    def cell(self, i):
        if i not in self.cells:
            raise UnsupportedRegex(f'pattern looks at offset {i}, outside the window [{self.lo},{self.hi}]')
        return self.cells[i]

    def well_formed(self):
        """cells in range; ABSENT is closed towards both ends (a string is a contiguous block)"""
        cs = []
        for i, c in self.cells.items():
            cs.append(z3.And(c >= 0, c <= ABSENT))
        for i in range(self.lo, self.hi):
            a, b = self.cells[i], self.cells[i + 1]
            # if a present and b absent then everything right of b absent; if b present and a absent
            # then everything left of a absent: equivalently no "present, absent, present" pattern
            pass
        idx = list(range(self.lo, self.hi + 1))
        for x in range(len(idx)):
            for y in range(x + 1, len(idx)):
                for z in range(y + 1, len(idx)):
                    cs.append(z3.Not(z3.And(self.cells[idx[x]] != ABSENT, self.cells[idx[y]] == ABSENT,
                                            self.cells[idx[z]] != ABSENT)))
        return z3.And(*cs)

    def present(self, i):
        return self.cell(i) != ABSENT

    def vars(self):
        return list(self.cells.values())


def _in_set(items, cell):
    neg = False
    conds = []
    for op, av in items:
        if op is sre_c.NEGATE:
            neg = True
        elif op is sre_c.LITERAL:
            ch = chr(av)
            conds.append(cell == CODE[ch] if ch in CODE else z3.BoolVal(False))
        elif op is sre_c.RANGE:
            lo, hi = av
            cs = [CODE[c] for c in ALPHABET if lo <= ord(c) <= hi]
            conds.append(z3.Or(*[cell == c for c in cs]) if cs else z3.BoolVal(False))
        elif op is sre_c.CATEGORY:
            if av is sre_c.CATEGORY_WORD:
                conds.append(z3.And(cell >= 0, cell <= 25))
            elif av is sre_c.CATEGORY_NOT_WORD:
                conds.append(cell == CODE['*'])
            else:
                raise UnsupportedRegex(f'category {av}')
        else:
            raise UnsupportedRegex(f'set item {op}')
    body = z3.Or(*conds) if conds else z3.BoolVal(False)
    pres = cell != ABSENT
    return z3.And(pres, z3.Not(body)) if neg else z3.And(pres, body)


def width(items):
    """fixed width of a sub-pattern or None"""
    w = 0
    for op, av in items:
        if op in (sre_c.LITERAL, sre_c.NOT_LITERAL, sre_c.IN, sre_c.ANY):
            w += 1
        elif op in (sre_c.ASSERT, sre_c.ASSERT_NOT):
            pass
        elif op is sre_c.SUBPATTERN:
            x = width(av[3])
            if x is None:
                return None
            w += x
        elif op is sre_c.BRANCH:
            ws = {width(a) for a in av[1]}
            if len(ws) != 1 or None in ws:
                return None
            w += ws.pop()
        elif op is sre_c.MAX_REPEAT:
            lo, hi, sub = av
            if lo != hi:
                return None
            x = width(sub)
            if x is None:
                return None
            w += lo * x
        else:
            return None
    return w


def match(items, pos, win):
    """-> list of (condition, end position, alternative-tag) in priority order (first match wins)"""
    alts = [(z3.BoolVal(True), pos, ())]
    for op, av in items:
        new = []
        for cond, p, tag in alts:
            if op is sre_c.LITERAL:
                ch = chr(av)
                c = (win.cell(p) == CODE[ch]) if ch in CODE else z3.BoolVal(False)
                new.append((z3.And(cond, c), p + 1, tag))
            elif op is sre_c.NOT_LITERAL:
                ch = chr(av)
                c = z3.And(win.present(p), win.cell(p) != CODE[ch]) if ch in CODE else win.present(p)
                new.append((z3.And(cond, c), p + 1, tag))
            elif op is sre_c.ANY:
                new.append((z3.And(cond, win.present(p)), p + 1, tag))
            elif op is sre_c.IN:
                new.append((z3.And(cond, _in_set(av, win.cell(p))), p + 1, tag))
            elif op in (sre_c.ASSERT, sre_c.ASSERT_NOT):
                direction, sub = av
                if direction == 1:
                    subm = match(sub, p, win)
                    c = z3.Or(*[x[0] for x in subm]) if subm else z3.BoolVal(False)
                else:
                    w = width(sub)
                    if w is None:
                        raise UnsupportedRegex('variable-width lookbehind')
                    subm = [x for x in match(sub, p - w, win) if x[1] == p]
                    c = z3.Or(*[x[0] for x in subm]) if subm else z3.BoolVal(False)
                if op is sre_c.ASSERT_NOT:
                    c = z3.Not(c)
                new.append((z3.And(cond, c), p, tag))
            elif op is sre_c.SUBPATTERN:
                for c2, p2, t2 in match(av[3], p, win):
                    new.append((z3.And(cond, c2), p2, tag + t2))
            elif op is sre_c.BRANCH:
                earlier = []
                for k, alt in enumerate(av[1]):
                    for c2, p2, t2 in match(alt, p, win):
                        first = z3.And(c2, *[z3.Not(e) for e in earlier]) if earlier else c2
                        new.append((z3.And(cond, first), p2, tag + (k,) + t2))
                    sub = match(alt, p, win)
                    earlier.append(z3.Or(*[x[0] for x in sub]) if sub else z3.BoolVal(False))
            elif op is sre_c.MAX_REPEAT:
                lo, hi, sub = av
                if lo != hi:
                    raise UnsupportedRegex('variable repeat')
                cur = [(cond, p, tag)]
                for _ in range(lo):
                    nxt = []
                    for c1, p1, t1 in cur:
                        for c2, p2, t2 in match(sub, p1, win):
                            nxt.append((z3.And(c1, c2), p2, t1 + t2))
                    cur = nxt
                new.extend(cur)
            else:
                raise UnsupportedRegex(f'regex node {op}')
        alts = new
    return alts


def parse(pattern):
    return list(sre_parse.parse(pattern))


def matches_at(pattern, pos, win):
    """(any-alternative condition, list of (cond, end, tag))"""
    alts = match(parse(pattern), pos, win)
    return (z3.Or(*[a[0] for a in alts]) if alts else z3.BoolVal(False)), alts


def lookbehind_span(pattern):
    """(#cells before the match start the pattern may inspect, #cells from the start it may inspect)"""
    lo = hi = 0
    def walk(items, p):
        nonlocal lo, hi
        for op, av in items:
            if op in (sre_c.LITERAL, sre_c.NOT_LITERAL, sre_c.IN, sre_c.ANY):
                hi = max(hi, p + 1)
                p += 1
            elif op in (sre_c.ASSERT, sre_c.ASSERT_NOT):
                d, sub = av
                if d == 1:
                    walk(sub, p)
                else:
                    w = width(sub)
                    lo = min(lo, p - w)
                    walk(sub, p - w)
            elif op is sre_c.SUBPATTERN:
                p = walk(av[3], p)
            elif op is sre_c.BRANCH:
                ends = [walk(a, p) for a in av[1]]
                p = max(ends)
            elif op is sre_c.MAX_REPEAT:
                for _ in range(av[0]):
                    p = walk(av[2], p)
        return p
    walk(parse(pattern), 0)
    return -lo, hi
