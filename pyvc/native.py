"""Native (CPython) side: the same contracts executed on the REAL functions.

Three uses, all labelled as such in the evidence and never counted as proved:
  * replay of solver counterexamples (model -> concrete input -> real call),
  * bounded stand-ins for clauses no VC decides (stated bound),
  * CPython cross-check of the spec functions / encoder axioms.
"""
from __future__ import annotations
import sys, os, json, time, random, importlib, traceback, hashlib

VERIF = os.path.dirname(os.path.dirname(os.path.abspath(__file__)))
REPO = os.environ.get('PYVC_REPO', '/repo')


def use_repo():
    if REPO not in sys.path[:1]:
        sys.path.insert(0, REPO)
    import logging, warnings
    warnings.filterwarnings('ignore')
    logging.disable(logging.CRITICAL)


class NativeCheck:
    name = '?'
    functions = ()          # contract names this check replays for
    bounded_for = ''        # clause for which this is the bounded stand-in ('' = cross-check only)
    bound = ''              # the stated bound
    quick_budget_s = 20
    thorough_budget_s = 240

    def cases(self, rng, tier):
        return iter(())

    def check(self, inp):
        """Run the real code on inp; return None if the contract holds, else a dict."""
        raise NotImplementedError

    def nontrivial(self, inp):
        return json.dumps(inp, sort_keys=True, default=str)

    def from_model(self, model):
        return None


def _checks(prop):
    from pyvc.runner import PROP_MODULES
    out = []
    for m in PROP_MODULES[prop]:
        mod = importlib.import_module(m)
        for c in getattr(mod, 'NATIVE', []):
            if not getattr(c, 'props', None) or prop in c.props:
                out.append(c)
    return out


def run_native(prop, tier, seed, results=None):
    use_repo()
    out = dict(evaluations=0, distinct_nontrivial=0, violations=[], samples=[], bounded=[],
               assumptions=[], rule='', undecided=False, per_check={})
    rules = []
    try:
        checks = _checks(prop)
    except Exception:
        out['crash'] = traceback.format_exc()[-800:]
        return out
    for c in checks:
        rng = random.Random(seed * 1000003 + int(hashlib.sha1(c.name.encode()).hexdigest()[:6], 16))
        budget = c.quick_budget_s if tier != 'thorough' else c.thorough_budget_s
        t0 = time.time()
        n, keys, fails, exhausted = 0, set(), [], True
        try:
            for inp in c.cases(rng, tier):
                if time.time() - t0 > budget:
                    exhausted = False
                    break
                n += 1
                try:
                    bad = c.check(inp)
                except Exception as ex:   # a crash of the real code inside a check is a finding of the check
                    bad = dict(observed=f'unexpected {type(ex).__name__}: {ex}', expected='contract holds',
                               traceback=traceback.format_exc()[-600:])
                k = c.nontrivial(inp)
                if k is not None:
                    keys.add(k)
                if bad is not None:
                    if len(fails) < 12:
                        fails.append(dict(check=c.name, input=inp, **bad))
                    if len(fails) >= 12:
                        break
                elif len(out['samples']) < 12 and n % 97 == 1:
                    out['samples'].append(dict(check=c.name, input=inp))
        except Exception:
            out['violations'].append(dict(check=c.name, input=None, observed='checker crash in generator',
                                          expected='', traceback=traceback.format_exc()[-800:], crash=True))
        out['evaluations'] += n
        out['distinct_nontrivial'] += len(keys)
        out['per_check'][c.name] = dict(evaluations=n, distinct_nontrivial=len(keys), failures=len(fails),
                                         exhaustive=exhausted, seconds=round(time.time() - t0, 2),
                                         bound=c.bound, bounded_for=c.bounded_for)
        if c.bounded_for:
            out['bounded'].append(dict(check=c.name, clause=c.bounded_for, bound=c.bound,
                                       evaluations=n, level='bounded stand-in (not proved)'))
        rules.append(f'{c.name}: {c.bound}')
        out['violations'].extend(fails)
    out['rule'] = ' | '.join(rules)
    return out


def _write(prop, name, payload):
    d = os.path.join(VERIF, 'replays', prop)
    os.makedirs(d, exist_ok=True)
    safe = ''.join(ch if ch.isalnum() or ch in '-_.' else '_' for ch in name)[:120]
    p = os.path.join(d, safe + '.json')
    with open(p, 'w') as fh:
        json.dump(payload, fh, indent=1, default=str)
    return p


def replay_refutation(prop, r, vc, nat):
    """Concretise the solver's model and run the real function; fall back to the failures the
    bounded search found for the same function."""
    use_repo()
    payload = dict(property=prop, obligation=vc['name'], function=r['name'], source_sha256_16=r['source_hash'],
                   solver=vc['backend'], solver_seconds=vc['time'], path=vc['path'], goal=vc.get('goal'),
                   model=vc.get('model'), reproduced=False)
    try:
        for c in _checks(prop):
            if r['name'] not in c.functions:
                continue
            inp = None
            try:
                inp = c.from_model(vc.get('model') or {})
            except Exception:
                inp = None
            if inp is not None:
                try:
                    bad = c.check(inp)
                except Exception as ex:
                    bad = dict(observed=f'unexpected {type(ex).__name__}: {ex}', expected='contract holds')
                if bad is not None:
                    payload.update(reproduced=True, check=c.name, input=inp, **bad)
                    break
                payload.setdefault('model_input_did_not_fail', []).append(dict(check=c.name, input=inp))
            for v in nat.get('violations', []):
                if v.get('check') == c.name and not v.get('crash'):
                    payload.update(reproduced=True, **v)
                    payload['note'] = 'failing input found by the bounded search for the same function'
                    break
            if payload['reproduced']:
                break
    except Exception:
        payload['replay_error'] = traceback.format_exc()[-600:]
    payload['path_file'] = _write(prop, vc['name'] + '-' + vc['path'], payload)
    return dict(path=payload['path_file'], reproduced=payload['reproduced'])


def write_native_violation(prop, v):
    payload = dict(property=prop, obligation=f"native/{v.get('check')}", reproduced=not v.get('crash'), **v)
    p = _write(prop, f"native-{v.get('check')}-" + hashlib.sha1(json.dumps(v.get('input'), sort_keys=True, default=str).encode()).hexdigest()[:8], payload)
    return dict(path=p, reproduced=not v.get('crash'))


def replay_file(prop, path):
    use_repo()
    d = json.load(open(path))
    name = d.get('check')
    if not name or d.get('input') is None:
        print(f'replay: {path} carries no concrete input (obligation {d.get("obligation")}); solver output only')
        print(json.dumps({k: d.get(k) for k in ('obligation', 'function', 'goal', 'model')}, indent=1, default=str)[:3000])
        return 0
    for c in _checks(prop):
        if c.name == name:
            bad = c.check(d['input'])
            if bad is None:
                print(f'replay: contract holds on the stored input ({name})')
                return 0
            print(f'VIOLATION property={prop} replay={path}')
            print(json.dumps(bad, indent=1, default=str)[:2000])
            return 1
    print('replay: native check not found')
    return 3
