"""Contract base class and the per-function verification driver."""
from __future__ import annotations
import time, types, traceback, os
import z3
from .core import Engine, PathEnd, Unsupported, CheckerBug, discharge, discharge_all, VC, as_bool
from .interp import Interp, PyRaise, LoopSpec, Env
from .registry import Registry, install_bio_models
from .repo import RepoIndex, source_hash
from .values import *


class Contract:
    """A contract on one real function, identified by file + qualified name.

    setup(I)            -> namespace st with st.args / st.kwargs (+ symbolic handles);
                           assumes the `requires` via I.e.assume
    loops               -> {ordinal: LoopSpec}
    post_return(I, st, ret) / post_raise(I, st, exc)
                        -> emit obligations with I.e.prove(name, formula)
    summary(I, args, kwargs) -> value   modular use at call sites (optional)
    replay(model, vc)   -> dict(reproduced=bool, call=..., observed=..., expected=...)
    """
    path = None
    qualname = None
    props = ()
    loops = {}
    declared_raises = None        # list of exception class names; None = unchecked
    timeout_ms = 10000
    max_paths = 4000
    models = ()                   # extra installers fn(reg)
    assumptions = ()              # strings copied to the evidence
    use_summaries = True
    cover_any = False             # True: a cover point need only be reachable on some explored path (see runner)

    def name(self):
        return f'{self.path}:{self.qualname}'

    def setup(self, I):
        raise NotImplementedError

    def post_return(self, I, st, ret):
        pass

    def post_raise(self, I, st, exc):
        pass

    def check_declared(self, I, exc):
        declared = self.declared_raises
        if declared is None and type(self).post_raise is Contract.post_raise:
            declared = ()        # no exceptional exit is part of this contract
        if declared is not None:
            I.e.prove(f'{self.qualname}/raises/declared:{exc.cls}',
                      exc.cls in declared)

    def install(self, reg):
        """Install this contract's summary into a registry (modular calls)."""
        if type(self).summary is Contract.summary:
            return
        parts = self.qualname.split('.')
        if len(parts) == 2:
            reg.method_(parts[0], parts[1], lambda I, obj, a, k, c=self: c.summary(I, [obj] + list(a), k))
        reg.func_(self.path, self.qualname, lambda I, a, k, c=self: c.summary(I, a, k))

    def summary(self, I, args, kwargs):
        raise NotImplementedError

    def replay(self, model, vc):
        return None


class FunctionResult:
    def __init__(self, contract):
        self.contract = contract
        self.vcs = []
        self.paths = 0
        self.status = 'ok'          # ok | unsupported | crash | missing
        self.detail = ''
        self.source_hash = None
        self.notes = []
        self.time = 0.0
        self.exits = []


ALL_CONTRACTS = []


def register(cls):
    ALL_CONTRACTS.append(cls())
    return cls


def build_registry(repo, contract, extra=()):
    reg = Registry()
    reg.repo = repo
    install_bio_models(reg)
    from . import models
    models.install_common(reg)
    if contract.use_summaries:
        for c in ALL_CONTRACTS:
            if c is not contract and not (c.path == contract.path and c.qualname == contract.qualname):
                c.install(reg)
    for m in list(contract.models) + list(extra):
        m(reg)
    return reg


def verify_function(contract, repo=None, tier='quick'):
    repo = repo or RepoIndex()
    res = FunctionResult(contract)
    t0 = time.time()
    try:
        module, cls, fnode = repo.function_node(contract.path, contract.qualname)
    except KeyError as ex:
        res.status = 'missing'
        res.detail = f'function not found: {contract.name()}'
        return res
    res.source_hash = source_hash(fnode)
    repo.prefer_module = module
    e = Engine(contract.qualname, timeout_ms=contract.timeout_ms, max_paths=contract.max_paths)

    def run(e):
        reg = build_registry(repo, contract)
        I = Interp(e, repo, reg)
        I.tier = tier
        st = contract.setup(I)
        e.cover(f'{contract.qualname}/cover/requires-satisfiable')
        try:
            ret = I.inline(module, cls, fnode, list(st.args), dict(getattr(st, 'kwargs', {})),
                           loops=contract.loops, qualname=contract.qualname)
        except PyRaise as r:
            e.path_exits.append(('raise', r.exc.cls))
            contract.post_raise(I, st, r.exc)
            contract.check_declared(I, r.exc)
        else:
            e.path_exits.append(('return', None))
            contract.post_return(I, st, ret)

    try:
        e.explore(run)
    except Unsupported as ex:
        res.status = 'unsupported'
        res.detail = str(ex)
    except CheckerBug as ex:
        res.status = 'crash'
        res.detail = str(ex)
    except Exception as ex:      # checker bug: never reported as a violation
        res.status = 'crash'
        res.detail = ''.join(traceback.format_exception(ex))[-1500:]
    res.paths = e.paths
    res.notes = e.notes
    res.exits = e.path_exits
    axioms = list(e.axioms) + e.strlit_axioms()
    if res.status == 'ok':
        try:
            discharge_all(e.vcs, axioms, timeout_ms=contract.timeout_ms, also_cvc5=(tier == 'thorough'),
                          jobs=int(os.environ.get('PYVC_JOBS', '4')))
        except CheckerBug as ex:
            res.status = 'crash'
            res.detail = str(ex)
    res.vcs = e.vcs
    res.axioms = axioms
    res.time = time.time() - t0
    return res


class Lemma(Contract):
    """A lemma over spec functions / other contracts' postconditions: no function body.

    obligations(e) -> list of (name, hyps:list, goal).  Proved once, then its
    `statement` may be assumed by contracts (they list it in `uses_lemmas`).
    """
    path = '<lemma>'

    def obligations(self, e):
        raise NotImplementedError

    def name(self):
        return f'lemma:{self.qualname}'

    def install(self, reg):
        pass

    def verify(self, repo=None, tier='quick'):
        res = FunctionResult(self)
        t0 = time.time()
        e = Engine(self.qualname, timeout_ms=self.timeout_ms)
        e.prefix, e.pos, e.initial_len = [], 0, 0
        try:
            obs = self.obligations(e)
            seen_hyps = set()
            for name, hyps, goal in obs:
                vc = VC(f'lemma/{self.qualname}/{name}', list(hyps), as_bool(goal), [], {}, 'obligation',
                        self.qualname)
                e.vcs.append(vc)
                key = tuple(h.get_id() for h in hyps if isinstance(h, z3.ExprRef))
                if hyps and key not in seen_hyps:
                    # vacuity guard: the hypotheses of a lemma must be satisfiable
                    seen_hyps.add(key)
                    e.vcs.append(VC(f'lemma/{self.qualname}/cover/hypotheses-of/{name}', list(hyps),
                                    z3.BoolVal(True), [], {}, 'cover', self.qualname))
            axioms = list(e.axioms) + e.strlit_axioms()
            discharge_all(e.vcs, axioms, timeout_ms=self.timeout_ms, also_cvc5=(tier == 'thorough'))
        except CheckerBug as ex:
            res.status, res.detail = 'crash', str(ex)
        except Exception as ex:
            res.status = 'crash'
            res.detail = ''.join(traceback.format_exception(ex))[-1500:]
        res.vcs = e.vcs
        res.paths = 1
        res.source_hash = 'lemma'
        res.time = time.time() - t0
        return res


def induction(name, P, n, extra_hyps=()):
    """Obligations for  forall b. 0<=b<=n -> P(b)  by induction on b."""
    b = z3.Int(f'ind_{name}')
    return [(f'{name}/base', list(extra_hyps), P(z3.IntVal(0))),
            (f'{name}/step', list(extra_hyps) + [b >= 0, b < n, P(b)], P(b + 1))]
