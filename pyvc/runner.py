"""Property-level driver: runs every contract of a property, the native (CPython)
replay / bounded stand-ins, writes evidence, prints VIOLATION / KNOWN-FINDING lines.

Exit codes: 0 held, 1 violation, 2 undecided, 3 checker crash / vacuity guard.
"""
from __future__ import annotations
import sys, os, json, time, importlib, hashlib, traceback, random, re
from concurrent.futures import ProcessPoolExecutor, as_completed

VERIF = os.path.dirname(os.path.dirname(os.path.abspath(__file__)))
REPO = os.environ.get('PYVC_REPO', '/repo')

PROP_MODULES = {
    'C04': ['contracts.c04', 'contracts.c06', 'contracts.c08', 'contracts.c09', 'contracts.c10', 'contracts.c07b', 'contracts.c18c'], 'C05': ['contracts.c05', 'contracts.c09', 'contracts.c06', 'contracts.c07', 'contracts.c10', 'contracts.c13', 'contracts.c07b', 'contracts.c06b'], 'C06': ['contracts.c06', 'contracts.c06b', 'contracts.c10', 'contracts.c13', 'contracts.c12'],
    'C07': ['contracts.c07', 'contracts.c06', 'contracts.c15', 'contracts.c14', 'contracts.c07b', 'contracts.c06b'], 'C08': ['contracts.c08', 'contracts.c09', 'contracts.c08b'], 'C09': ['contracts.c09', 'contracts.c09c', 'contracts.c08b', 'contracts.c11'],
    'C10': ['contracts.c10', 'contracts.c12'], 'C11': ['contracts.c11', 'contracts.c11b', 'contracts.c11c'], 'C12': ['contracts.c12', 'contracts.c10', 'contracts.c12b'],
    'C13': ['contracts.c13'], 'C14': ['contracts.c14', 'contracts.c11b'], 'C15': ['contracts.c15', 'contracts.c06', 'contracts.c11b', 'contracts.c15b', 'contracts.c07b'],
    'C16': ['contracts.c16', 'contracts.c11b', 'contracts.c16b'], 'C17': ['contracts.c17', 'contracts.c13'], 'C18': ['contracts.c18', 'contracts.c04', 'contracts.c18b', 'contracts.c18c'],
    'C19': ['contracts.c19', 'contracts.c18', 'contracts.c18b', 'contracts.c19b', 'contracts.c12b', 'contracts.c19c', 'contracts.c18c'], 'C20': ['contracts.c20', 'contracts.c10'],
}

DROPPED = ['docstrings', 'type annotations', 'logger.* / get_logger() calls (no-ops)',
           '# pylint comments', 'decorators other than property/classmethod/staticmethod']

TRUSTED = ['CPython 3.12 semantics as encoded by pyvc (DESIGN.md §1.1): unbounded ints, '
           'Euclidean div/mod = Python floor div/mod for positive divisors, slice clipping, '
           'argument binding, exception propagation',
           'z3 5.1.0 (Python API) and /usr/bin/cvc5 1.0.3 as back ends',
           'no aliasing between distinct symbolic objects',
           'Biopython SimpleLocation/SeqFeature __len__/__contains__/__init__ as modelled in pyvc/registry.py']


def _load(prop):
    mods = []
    for m in PROP_MODULES[prop]:
        mods.append(importlib.import_module(m))
    return mods


def _verify_one(args):
    """Worker: verify contract #idx of the property's module list (fresh process)."""
    prop, idx, tier = args
    sys.path.insert(0, VERIF)
    from pyvc.contract import ALL_CONTRACTS, verify_function
    from pyvc.repo import RepoIndex
    _load(prop)
    cs = [c for c in ALL_CONTRACTS if prop in c.props]
    c = cs[idx]
    repo = RepoIndex()
    t0 = time.time()
    try:
        r = c.verify(repo, tier) if hasattr(c, 'verify') else verify_function(c, repo, tier)
    except Exception as ex:
        return dict(idx=idx, name=c.name(), status='crash',
                    detail=''.join(traceback.format_exception(ex))[-1500:], vcs=[], paths=0,
                    time=time.time() - t0, notes=[], source_hash=None, assumptions=list(c.assumptions))
    vcs = []
    for vc in r.vcs:
        d = dict(name=vc.name, kind=vc.kind, status=vc.status, backend=vc.backend,
                 time=round(vc.time, 4), path=''.join('T' if x else 'F' for x in vc.path),
                 reason=vc.reason)
        if vc.status == 'refuted' and vc.kind == 'obligation':
            d['model'] = vc.model if isinstance(vc.model, dict) or vc.model is None else model_to_dict(vc.model)
            d['goal'] = str(vc.goal)[:600]
        vcs.append(d)
    return dict(idx=idx, name=c.name(), status=r.status, detail=r.detail, vcs=vcs, paths=r.paths,
                time=round(r.time, 3), notes=r.notes, source_hash=r.source_hash,
                assumptions=list(c.assumptions), lemma=c.path == '<lemma>',
                uses_lemmas=list(getattr(c, 'uses_lemmas', ())))


def model_to_dict(m):
    if m is None:
        return None
    import z3
    out = {}
    for d in m.decls():
        try:
            v = m[d]
            if isinstance(v, z3.FuncInterp):
                ents = {}
                for i in range(v.num_entries()):
                    en = v.entry(i)
                    ents[','.join(str(en.arg_value(j)) for j in range(en.num_args()))] = str(en.value())
                ents['else'] = str(v.else_value())[:200]
                out[d.name()] = ents
            elif z3.is_array(v) if hasattr(z3, 'is_array') else False:
                out[d.name()] = str(v)[:400]
            else:
                out[d.name()] = str(v)[:400]
        except Exception:
            out[d.name()] = '?'
    return out


def load_known():
    p = os.path.join(VERIF, 'known_findings.json')
    if not os.path.exists(p):
        return []
    return json.load(open(p)).get('findings', [])


def main(argv=None):
    argv = argv or sys.argv[1:]
    prop = argv[0]
    tier = os.environ.get('VERIF_TIER', 'quick')
    replay = None
    i = 1
    while i < len(argv):
        if argv[i] == '--tier':
            tier = argv[i + 1]; i += 2
        elif argv[i] == '--replay':
            replay = argv[i + 1]; i += 2
        else:
            i += 1
    seed = int(os.environ.get('VERIF_SEED', '0') or 0)
    if replay:
        return do_replay(prop, replay)
    t0 = time.time()
    sys.path.insert(0, VERIF)
    try:
        from pyvc.contract import ALL_CONTRACTS
        _load(prop)
    except Exception:
        traceback.print_exc()
        print(f'CHECKER-CRASH property={prop} cannot load contracts')
        return 3
    cs = [c for c in ALL_CONTRACTS if prop in c.props]
    if not cs:
        print(f'CHECKER-CRASH property={prop}: no contracts')
        return 3
    results = [None] * len(cs)
    workers = min(16, len(cs), os.cpu_count() or 4)
    with ProcessPoolExecutor(max_workers=workers) as ex:
        futs = {ex.submit(_verify_one, (prop, i, tier)): i for i in range(len(cs))}
        for f in as_completed(futs):
            r = f.result()
            results[r['idx']] = r

    # ---- native part: replay of refutations, bounded stand-ins, CPython cross-check
    from pyvc import native
    nat = native.run_native(prop, tier, seed, results)

    # ---- verdict
    known = [k for k in load_known() if k.get('property') == prop and k.get('status') == 'known']
    n_ob = n_dis = 0
    refuted, unknown, crashed, unsupported, covers_failed = [], [], [], [], []
    for r in results:
        if r['status'] == 'crash':
            crashed.append(r)
        elif r['status'] in ('unsupported', 'missing'):
            unsupported.append(r)
        for vc in r['vcs']:
            if vc['status'] is None:
                continue        # function could not be explored (unsupported / crash): reported per function
            if vc['kind'] == 'obligation':
                n_ob += 1
                if vc['status'] == 'discharged':
                    n_dis += 1
                elif vc['status'] == 'refuted':
                    refuted.append((r, vc))
                else:
                    unknown.append((r, vc))
            else:
                if vc['status'] in ('refuted', 'unknown'):
                    # a contract whose environment is mostly havoc (cover_any) explores decision sequences that are
                    # infeasible only through quantified facts: there a cover point must be reachable on SOME path
                    if getattr(cs[r['idx']], 'cover_any', False) and any(
                            v2['name'] == vc['name'] and v2['status'] == 'discharged' for v2 in r['vcs']):
                        continue
                    covers_failed.append((r, vc))
    violations = []
    known_hits = []
    import shutil
    shutil.rmtree(os.path.join(VERIF, 'replays', prop), ignore_errors=True)
    os.makedirs(os.path.join(VERIF, 'replays', prop), exist_ok=True)
    n_known_ob = 0
    seen_obl = set()
    for r, vc in refuted:
        kf = match_known(known, r, vc)
        if kf:
            known_hits.append(kf)
            n_known_ob += 1
            continue
        if (r['name'], vc['name']) in seen_obl:
            continue
        seen_obl.add((r['name'], vc['name']))
        rp = native.replay_refutation(prop, r, vc, nat)
        violations.append(rp)
    still_unknown = []
    for r, vc in unknown:
        # an obligation the solvers leave open, on a function for which the native search found a
        # failing input, is reported as a violation of that obligation (with the replayed input)
        if (r['name'], vc['name']) in seen_obl:
            continue
        if any(v.get('check') and not v.get('crash') for v in nat.get('violations', [])):
            seen_obl.add((r['name'], vc['name']))
            rp = native.replay_refutation(prop, r, vc, nat)
            if rp['reproduced']:
                violations.append(rp)
                continue
        still_unknown.append((r, vc))
    unknown = still_unknown
    attributed = set()
    for v in violations:
        try:
            attributed.add(json.load(open(v['path'])).get('check'))
        except Exception:
            pass
    seen_checks = set()
    for v in nat.get('violations', []):
        kf = match_known_native(known, v)
        if kf:
            known_hits.append(kf)
            continue
        if v.get('check') in attributed or v.get('check') in seen_checks:
            continue
        seen_checks.add(v.get('check'))
        violations.append(native.write_native_violation(prop, v))
    # expected known findings that no longer reproduce are simply not printed
    printed = set()
    for kf in known_hits:
        key = kf['id']
        if key not in printed:
            printed.add(key)
            print(f"KNOWN-FINDING: property={prop} {kf['what']}")
    code = 0
    for v in violations:
        tail = '' if v.get('reproduced') else ' no-failing-input-found'
        print(f"VIOLATION property={prop} replay={v['path']}{tail}")
        code = 1
    if code == 0:
        if crashed or covers_failed or n_ob == 0:
            code = 3
            for r in crashed:
                print(f"CHECKER-CRASH {r['name']}: {r['detail'][-400:]}")
            for r, vc in covers_failed:
                print(f"VACUITY {r['name']}: {vc['name']} {vc['status']}")
        elif unsupported or unknown or nat.get('undecided'):
            code = 2
            for r in unsupported:
                print(f"UNDECIDED {r['name']}: {r['status']}: {r['detail']}")
            for r, vc in unknown:
                print(f"UNDECIDED {r['name']}: {vc['name']} unknown ({vc['reason']})")
    wall = time.time() - t0
    write_evidence(prop, tier, seed, results, nat, n_ob - n_known_ob, n_dis, len(violations), wall, known_hits, n_known_ob)
    print(f'property={prop} tier={tier} functions={len(cs)} obligations={n_ob} discharged={n_dis} '
          f'refuted={len(refuted)} unknown={len(unknown)} native_evaluations={nat.get("evaluations", 0)} '
          f'wall={wall:.1f}s exit={code}')
    return code


def match_known(known, r, vc):
    for k in known:
        if k.get('obligation') and k['obligation'] == vc['name'] and k.get('function', r['name']) == r['name']:
            return k
    return None


def match_known_native(known, v):
    for k in known:
        if k.get('native_check') and k['native_check'] == v.get('check') and \
                ('input' not in k or k.get('input') == v.get('input')) and k.get('signature') == v.get('signature') \
                and k.get('signature') is not None:
            return k
    return None


def write_evidence(prop, tier, seed, results, nat, n_ob, n_dis, n_viol, wall, known_hits, n_known_ob=0):
    import subprocess
    funcs, samples, backends, assumptions = [], [], {}, []
    solver_time = 0.0
    for r in results:
        funcs.append(dict(function=r['name'], source_sha256_16=r['source_hash'], status=r['status'],
                          paths=r['paths'], obligations=sum(1 for v in r['vcs'] if v['kind'] == 'obligation'),
                          discharged=sum(1 for v in r['vcs'] if v['kind'] == 'obligation' and v['status'] == 'discharged'),
                          covers=sum(1 for v in r['vcs'] if v['kind'] != 'obligation'),
                          seconds=r['time'], notes=r['notes'], uses_lemmas=r.get('uses_lemmas', [])))
        for v in r['vcs']:
            solver_time += v['time']
            b = v['backend'] or '?'
            backends[b] = backends.get(b, 0) + 1
        for a in r['assumptions']:
            if a not in assumptions:
                assumptions.append(a)
        for n in r['notes']:
            s = f"{r['name']}: {n}"
            if s not in assumptions and (n.startswith('havoc') or n.startswith('assumed')):
                assumptions.append(s)
        obl = [v for v in r['vcs'] if v['kind'] == 'obligation'][:3]
        for v in obl:
            samples.append(dict(function=r['name'], obligation=v['name'], status=v['status'],
                                backend=v['backend'], seconds=v['time'], path=v['path']))
    level = 'proof'
    try:
        sys.path.insert(0, VERIF)
        import manifest_src
        level = manifest_src.CHECKS.get(prop, {}).get('category', 'proof')
    except Exception:
        pass
    cov = dict(obligations=n_ob, discharged=n_dis,
               checker_cmd=f'bin/check {prop} --tier {tier}',
               trusted_base=TRUSTED, functions_under_contract=funcs,
               backends=backends, solver_seconds=round(solver_time, 3),
               extraction_drops=DROPPED, samples=samples[:40],
               evaluations=max(1, nat.get('evaluations', 0)),
               distinct_nontrivial=max(0, nat.get('distinct_nontrivial', 0)),
               rule=nat.get('rule', ''), bounded=nat.get('bounded', []),
               native_samples=nat.get('samples', [])[:10],
               samples_native=nat.get('samples', [])[:10],
               known_findings_reproduced=sorted({k['id'] for k in known_hits}),
               obligations_refuted_as_listed_known_findings=n_known_ob,
               explanation='contract-based deductive verification: VCs generated from the real '
                           'source by pyvc, discharged by z3/cvc5; native part = replay + bounded stand-ins '
                           '(never counted as proved)')
    ev = dict(property_id=prop, tier=tier if tier in ('quick', 'thorough') else 'quick', seed=seed,
              level=level, coverage=cov,
              assumptions=assumptions + nat.get('assumptions', []),
              wall_s=round(wall, 2), violations=n_viol)
    os.makedirs(os.path.join(VERIF, 'evidence'), exist_ok=True)
    with open(os.path.join(VERIF, 'evidence', f'{prop}.json'), 'w') as fh:
        json.dump(ev, fh, indent=1, default=str)


def do_replay(prop, path):
    from pyvc import native
    return native.replay_file(prop, path)


if __name__ == '__main__':
    sys.exit(main())
