"""Registry of sidecar models, contract summaries and loop specs used by the interpreter."""
from __future__ import annotations
import z3
from .values import *
from .core import Unsupported, as_bool


class Registry:
    def __init__(self):
        self._protocol = {}      # (cls, dunder) -> fn
        self._attr = {}          # (cls, name) -> fn(I, obj)
        self._setattr = {}
        self._method = {}        # (cls, name) -> fn(I, obj, args, kwargs)
        self._func = {}          # (relpath, qualname) -> fn(I, args, kwargs)
        self._ext = {}           # dotted name -> fn(I, args, kwargs)
        self._ext_init = {}      # class name -> fn(I, obj, args, kwargs)
        self._ctor = {}          # class name -> fn(I, args, kwargs)
        self._loops = {}         # (relpath, qualname) -> {ordinal: LoopSpec}
        self._open = set()
        self._closures = {}
        self.on_yield = None
        self._globals = {}       # (relpath|None, name) -> value or fn(I)
        self._modattr = {}       # (modname-suffix, name) -> value/fn
        self.value_methods = []  # fn(obj, name) -> hook | None
        self.comprehension_hooks = []
        self.sum_hooks = []
        self.sorted_hooks = []
        self.iter_hooks = []
        self.with_hooks = []
        self.int_hooks = []
        self.str_hooks = []
        self.isinstance_hooks = []
        self.set_hooks = []

    # ---- registration
    def protocol_(self, cls, dunder, fn):
        self._protocol[(cls, dunder)] = fn

    def attr_(self, cls, name, fn):
        self._attr[(cls, name)] = fn

    def method_(self, cls, name, fn):
        self._method[(cls, name)] = fn

    def func_(self, relpath, qualname, fn):
        self._func[(relpath, qualname)] = fn

    def ext_(self, dotted, fn):
        self._ext[dotted] = fn

    def ext_init_(self, cls, fn):
        self._ext_init[cls] = fn

    def ctor_(self, cls, fn):
        self._ctor[cls] = fn

    def loops_(self, relpath, qualname, loops):
        self._loops[(relpath, qualname)] = loops

    def global_(self, relpath, name, v):
        self._globals[(relpath, name)] = v

    def modattr_(self, mod, name, v):
        self._modattr[(mod, name)] = v

    # ---- lookup (class hierarchy aware where a repo index is attached)
    repo = None

    def _mro(self, cls):
        return self.repo.mro_names(cls) if self.repo else [cls]

    def protocol(self, cls, dunder):
        for c in self._mro(cls):
            h = self._protocol.get((c, dunder))
            if h:
                return h
            # a real method defined lower in the MRO wins over a model higher up
            if self.repo and self.repo.get_class(c) and dunder in self.repo.get_class(c).methods:
                return None
        return None

    def attr_hook(self, cls, name):
        for c in self._mro(cls):
            h = self._attr.get((c, name))
            if h:
                return h
        return None

    def setattr_hook(self, cls, name):
        for c in self._mro(cls):
            h = self._setattr.get((c, name))
            if h:
                return h
        return None

    def method_hook(self, cls, name):
        for c in self._mro(cls):
            h = self._method.get((c, name))
            if h:
                return h
            if self.repo and self.repo.get_class(c) and name in self.repo.get_class(c).methods:
                return None
        return None

    def is_open(self, cls):
        return cls in self._open

    def function_hook(self, rf):
        return self._func.get((rf.module.relpath, rf.qualname))

    def external_function(self, dotted):
        h = self._ext.get(dotted)
        if h:
            return h
        tail = dotted.split('.')
        for i in range(1, len(tail)):
            h = self._ext.get('.'.join(tail[i:]))
            if h:
                return h
        return None

    def external_init(self, cls):
        return self._ext_init.get(cls)

    def constructor(self, cls):
        return self._ctor.get(cls)

    def loops_for(self, relpath, qualname):
        return self._loops.get((relpath, qualname))

    def global_override(self, I, module, name):
        v = self._globals.get((module.relpath, name))
        if v is None:
            v = self._globals.get((None, name))
        if callable(v) and getattr(v, '_is_factory', False):
            return v(I)
        return v

    def module_attr(self, I, modname, name):
        for (m, n), v in self._modattr.items():
            if n == name and (modname == m or modname.endswith('.' + m) or m.endswith('.' + modname)):
                return v(I) if callable(v) and getattr(v, '_is_factory', False) else v
        h = self.external_function(modname + '.' + name)
        if h:
            return Builtin(modname + '.' + name, lambda I, a, k, h=h: h(I, a, k))
        return None

    def comprehension(self, I, node, env, view, kind):
        for h in self.comprehension_hooks:
            r = h(I, node, env, view, kind)
            if r is not None:
                return r
        return None

    def value_method(self, obj, name):
        for h in self.value_methods:
            r = h(obj, name)
            if r is not None:
                return r
        return None

    def sum_hook(self, I, v):
        for h in self.sum_hooks:
            r = h(I, v)
            if r is not None:
                return r
        return None

    def sorted_hook(self, I, items, kw):
        for h in self.sorted_hooks:
            r = h(I, items, kw)
            if r is not None:
                return r
        return None

    def iter_hook(self, I, v):
        for h in self.iter_hooks:
            r = h(I, v)
            if r is not None:
                return r
        return None

    def with_enter(self, cm):
        for h in self.with_hooks:
            r = h('enter', cm)
            if r is not None:
                return r
        return None

    def with_exit(self, cm):
        for h in self.with_hooks:
            r = h('exit', cm)
            if r is not None:
                return r
        return None

    def int_hook(self, v):
        for h in self.int_hooks:
            r = h(v)
            if r is not None:
                return r
        return None

    def float_hook(self, v):
        return None

    def str_hook(self, v):
        for h in self.str_hooks:
            r = h(v)
            if r is not None:
                return r
        return None

    def isinstance_hook(self, v, name):
        for h in self.isinstance_hooks:
            r = h(v, name)
            if r is not None:
                return r
        return None

    def set_hook(self, items):
        for h in self.set_hooks:
            r = h(items)
            if r is not None:
                return r
        return None


def factory(fn):
    fn._is_factory = True
    return fn


# ---------------------------------------------------------------------------
# Base models: Biopython classes the repo subclasses.  These are *assumed*
# contracts (trusted base), copied from Bio 1.8x source and cross-checked natively
# by bounded/axioms.py.
# ---------------------------------------------------------------------------

def install_bio_models(reg: Registry):
    # Bio.SeqFeature.SimpleLocation (FeatureLocation is an alias)
    def loc_init(I, obj, args, kwargs):
        names = ['start', 'end', 'strand', 'ref', 'ref_db']
        vals = dict(strand=None, ref=None, ref_db=None)
        for n, a in zip(names, args):
            vals[n] = a
        for k, v in kwargs.items():
            if k not in names:
                I.raise_('TypeError', f'unexpected keyword {k}')
            vals[k] = v
        if 'start' not in vals or 'end' not in vals:
            I.raise_('TypeError', 'missing start/end')
        s, en = vals['start'], vals['end']
        # Bio raises ValueError when end < start
        c = I.compare('<', en, s)
        if c is True or (c is not False and I.e.branch(c, 'loc end<start')):
            I.raise_('ValueError', 'End location must be greater than or equal to start location')
        obj.fields.update(vals)
    for cn in ('BioFeatureLocation', 'SimpleLocation'):
        reg.ext_init_(cn, loc_init)
        reg.protocol_(cn, '__len__', lambda I, o: I.binop('-', o.fields['end'], o.fields['start']))

        def loc_contains(I, o, v):
            if not is_intlike(v) and not isinstance(v, bool):
                I.raise_('ValueError', 'only integer positions')
            a = I.compare('<=', o.fields['start'], v)
            b = I.compare('<', v, o.fields['end'])
            if isinstance(a, bool) and isinstance(b, bool):
                return a and b
            return z3.And(as_bool(a), as_bool(b))
        reg.protocol_(cn, '__contains__', loc_contains)

    # Bio.SeqFeature.SeqFeature
    def feat_init(I, obj, args, kwargs):
        names = ['location', 'type', 'id', 'qualifiers', 'sub_features']
        vals = dict(location=None, type='', id='<unknown id>', qualifiers=None)
        for n, a in zip(names, args):
            vals[n] = a
        for k, v in kwargs.items():
            if k not in names + ['strand', 'ref', 'ref_db']:
                I.raise_('TypeError', f'unexpected keyword {k}')
            vals[k] = v
        obj.fields['location'] = vals['location']
        obj.fields['type'] = vals['type']
        obj.fields['id'] = vals['id']
        obj.fields['qualifiers'] = vals['qualifiers'] if vals['qualifiers'] is not None else {}
    reg.ext_init_('BioSeqFeature', feat_init)
    reg.protocol_('BioSeqFeature', '__len__', lambda I, o: I.length(o.fields['location']))
    reg.protocol_('BioSeqFeature', '__contains__',
                  lambda I, o, v: I.contains(o.fields['location'], v))
    reg.protocol_('BioSeqFeature', '__bool__', lambda I, o: True)
