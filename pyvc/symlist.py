"""Mutable symbolic containers: list of symbolic length, uninterpreted-predicate set, map."""
from __future__ import annotations
import z3
from .values import *
from .core import Unsupported, as_bool


class SymList:
    """Python list of symbolic length. Elements are z3 terms of `sort`, wrapped by `wrap`."""

    def __init__(self, I, name, sort=None, wrap=None, unwrap=None, length=None, arr=None):
        self.I = I
        self.name = name
        self.sort = sort if sort is not None else z3.IntSort()
        self.wrap = wrap or (lambda t: t)
        self.unwrap = unwrap or (lambda v: v if is_z3(v) else z3.IntVal(v))
        e = I.e
        self.length = length if length is not None else e.int(f'{name}_len')
        self.arr = arr if arr is not None else z3.Array(e.fresh_name(f'{name}_arr'), z3.IntSort(), self.sort)
        if length is None:
            e.assume(self.length >= 0)

    @classmethod
    def empty(cls, I, name, **kw):
        return cls(I, name, length=z3.IntVal(0), **kw)

    def sym_len(self, I):
        return self.length

    def sym_truth(self, I):
        return self.length != 0

    def sym_getitem(self, I, idx):
        i = I.norm_index(idx, self.length)
        return self.wrap(self.arr[i])

    def raw(self, i):
        return self.arr[i]

    def sym_view(self, I):
        ln, arr, wrap = self.length, self.arr, self.wrap
        return FnView(ln, lambda i: wrap(arr[i]), tag=self.name)

    def sym_method(self, I, name, args, kwargs):
        if name == 'append':
            self.arr = z3.Store(self.arr, self.length, self.unwrap(args[0]))
            self.length = self.length + 1
            return None
        if name == 'clear':
            self.length = z3.IntVal(0)
            return None
        if name == 'pop' and not args:
            if not I.e.branch(self.length > 0, 'pop-nonempty'):
                I.raise_('IndexError', 'pop from empty list')
            self.length = self.length - 1
            return self.wrap(self.arr[self.length])
        raise Unsupported(f'SymList.{name}')

    def sym_havoc(self, I, name):
        return SymList(I, name, self.sort, self.wrap, self.unwrap)

    def sym_iadd(self, I, other):
        from .seqalg import extend_symlist
        return extend_symlist(I, self, I.as_view(other))

    def sym_isinstance(self, I, name):
        return name == 'list'

    def __repr__(self):
        return f'<SymList {self.name} len={self.length}>'


class SymSet:
    """A set of z3 terms as an uninterpreted membership predicate in SSA form."""

    def __init__(self, I, name, sort=None, unwrap=None, member=None):
        self.I = I
        self.name = name
        self.sort = sort if sort is not None else z3.IntSort()
        self.unwrap = unwrap or (lambda v: v if is_z3(v) else z3.IntVal(v))
        self.member = member if member is not None else \
            z3.Function(I.e.fresh_name(f'{name}_in'), self.sort, z3.BoolSort())

    def has(self, t):
        return self.member(t)

    def sym_contains(self, I, item):
        return self.member(self.unwrap(item))

    def add(self, t):
        old = self.member
        new = z3.Function(self.I.e.fresh_name(f'{self.name}_in'), self.sort, z3.BoolSort())
        x = z3.Const(self.I.e.fresh_name('x_set'), self.sort)
        self.I.e.assume(z3.ForAll([x], new(x) == z3.Or(old(x), x == t)))
        self.member = new

    def remove(self, t):
        old = self.member
        new = z3.Function(self.I.e.fresh_name(f'{self.name}_in'), self.sort, z3.BoolSort())
        x = z3.Const(self.I.e.fresh_name('x_set'), self.sort)
        self.I.e.assume(z3.ForAll([x], new(x) == z3.And(old(x), x != t)))
        self.member = new

    def sym_method(self, I, name, args, kwargs):
        if name == 'add':
            self.add(self.unwrap(args[0]))
            return None
        if name in ('discard',):
            self.remove(self.unwrap(args[0]))
            return None
        raise Unsupported(f'SymSet.{name}')

    def sym_havoc(self, I, name):
        return SymSet(I, name, self.sort, self.unwrap)
