"""PStr: Python str / Bio.Seq content as (length, index -> character code), where indexing
with an int yields a length-1 string (Python semantics), with concatenation, slicing,
reverse complement and extensional equality.  Character codes are z3 Ints (ord())."""
from __future__ import annotations
import z3
from .values import *
from .core import Unsupported, as_bool

I_ = z3.IntSort()
COMP = z3.Function('dna_complement', I_, I_)


_PAIRS = {ord(a): ord(b) for a, b in ('AT', 'TA', 'CG', 'GC', 'NN')}


def comp_axioms():
    """ground facts of the complement map (Bio.Seq: A<->T, C<->G, N->N)"""
    return [COMP(a) == b for a, b in _PAIRS.items()]


def cmpl(t):
    """complement of a character term; the involution comp(comp(x)) = x is applied structurally
    (pushed through if-then-else), so no quantified axiom is needed"""
    t = _z(t)
    if z3.is_int_value(t) and t.as_long() in _PAIRS:
        return z3.IntVal(_PAIRS[t.as_long()])
    if z3.is_app(t) and t.decl().kind() == z3.Z3_OP_ITE:
        return z3.If(t.arg(0), cmpl(t.arg(1)), cmpl(t.arg(2)))
    if z3.is_app(t) and t.decl().name() == 'dna_complement':
        return t.arg(0)
    return COMP(t)


def _z(v):
    return v if is_z3(v) else z3.IntVal(v)


class PStr(View):
    def __init__(self, length, getter, tag='pstr', kind='str'):
        self._len, self._get, self.tag, self.kind = length, getter, tag, kind

    # ---- construction
    @classmethod
    def lit(cls, s):
        codes = [ord(c) for c in s]

        def get(i):
            if isinstance(i, int):
                return z3.IntVal(codes[i]) if 0 <= i < len(codes) else z3.IntVal(-1)
            r = z3.IntVal(-1)
            for k in range(len(codes) - 1, -1, -1):
                r = z3.If(i == k, codes[k], r)
            return r
        return cls(len(s), get, tag=repr(s))

    @classmethod
    def sym(cls, e, name, length=None):
        n = length if length is not None else e.int(f'{name}_len')
        arr = e.array(f'{name}_ch')
        if length is None:
            e.assume(n >= 0)
        p = cls(n, lambda i: arr[_z(i)], tag=name)
        p.arr = arr
        return p

    @classmethod
    def of(cls, v):
        if isinstance(v, PStr):
            return v
        if isinstance(v, str):
            return cls.lit(v)
        return None

    # ---- View
    def length(self):
        return self._len

    def get(self, i):
        return self._get(i)

    # ---- protocol
    def sym_len(self, I):
        return self._len

    def sym_truth(self, I):
        return self._len != 0 if is_z3(self._len) else self._len != 0

    def sym_str(self, I):
        return self

    def sym_isinstance(self, I, name):
        return name in ('str', 'Seq')

    def sym_getitem(self, I, idx):
        if isinstance(idx, SymObj) and idx.cls == 'slice':
            return self.sym_getslice(I, idx.fields['start'], idx.fields['stop'], idx.fields['step'])
        i = I.norm_index(idx, self._len)
        g = self._get
        return PStr(1, lambda k, i=i: g(i), tag=f'{self.tag}[{i}]', kind=self.kind)

    def sym_getslice(self, I, lo, hi, st):
        if st not in (None, 1):
            raise Unsupported('string slice with step')
        a, b = I.clip_slice(lo, hi, self._len)
        ln = b - a
        if is_z3(ln):
            ln = z3.simplify(z3.If(b > a, b - a, 0))
            if z3.is_int_value(ln):
                ln = ln.as_long()
        else:
            ln = max(ln, 0)
        g = self._get
        return PStr(ln, lambda i, a=a: g(a + i), tag=f'{self.tag}[{a}:{b}]', kind=self.kind)

    def concat(self, other):
        n1, g1, g2 = self._len, self._get, other._get
        if isinstance(n1, int) and n1 == 0:
            return other
        if isinstance(other._len, int) and other._len == 0:
            return self

        def get(i):
            if isinstance(i, int) and isinstance(n1, int):
                return g1(i) if i < n1 else g2(i - n1)
            return z3.If(_z(i) < n1, g1(i), g2(i - n1))
        return PStr(n1 + other._len, get, tag=f'({self.tag}+{other.tag})', kind=self.kind)

    def sym_binop(self, I, op, other, reflected):
        if op != '+':
            return NotImplemented
        o = PStr.of(other)
        if o is None:
            return NotImplemented
        return o.concat(self) if reflected else self.concat(o)

    def revcomp(self):
        n, g = self._len, self._get
        return PStr(n, lambda i: cmpl(g(n - 1 - i)), tag=f'rc({self.tag})', kind=self.kind)

    def eq_formula(self, I, o):
        n1, n2 = self._len, o._len
        if isinstance(n1, int) and isinstance(n2, int):
            if n1 != n2:
                return False
            conj = [self._get(k) == o._get(k) for k in range(n1)]
            if not conj:
                return True
            return z3.simplify(z3.And(*conj))
        small = n1 if isinstance(n1, int) else (n2 if isinstance(n2, int) else None)
        if small is not None and small <= 8:
            conj = [_z(n1) == _z(n2)] + [self._get(k) == o._get(k) for k in range(small)]
            return z3.And(*conj)
        k = z3.Int(I.e.fresh_name('k_streq'))
        return z3.And(_z(n1) == _z(n2),
                      z3.ForAll([k], z3.Implies(z3.And(0 <= k, k < n1), self._get(k) == o._get(k))))

    def sym_eq(self, I, other):
        o = PStr.of(other)
        if o is None:
            if other is None or isinstance(other, (int, float, bool)) or is_z3(other):
                return False
            raise Unsupported(f'string equality between {self!r} and {other!r}')
        return self.eq_formula(I, o)

    def sym_method(self, I, name, args, kwargs):
        if name == 'reverse_complement' and not args:
            return self.revcomp()
        if name == 'complement' and not args:
            n, g = self._len, self._get
            return PStr(n, lambda i: cmpl(g(i)), tag=f'c({self.tag})', kind=self.kind)
        if name in ('startswith', 'endswith') and isinstance(args[0], PStr):
            o = args[0]
            n, m = _z(self._len), _z(o._len)
            off = z3.IntVal(0) if name == 'startswith' else n - m
            k = z3.Int(I.e.fresh_name('k_affix'))
            return z3.And(n >= m, z3.ForAll([k], z3.Implies(z3.And(0 <= k, k < m), self._get(off + k) == o._get(k))))
        if name == 'startswith' and isinstance(args[0], str):
            lit = args[0]
            n = self._len
            conj = [_z(n) >= len(lit)] + [self._get(k) == ord(c) for k, c in enumerate(lit)]
            return z3.And(*conj)
        if name == 'upper' and self.kind == 'dna-upper':
            return self
        if name in ('__str__',):
            return self
        if name in ('rstrip', 'lstrip', 'strip') and len(args) <= 1:
            # stripping characters: some infix of the string (over-approximation: which characters go is not followed;
            # a refutation built on it carries no replayable input)
            n = _z(self._len)
            a = I.e.int('stripped_from') if name in ('lstrip', 'strip') else z3.IntVal(0)
            b = I.e.int('stripped_to') if name in ('rstrip', 'strip') else n
            I.e.assume(z3.And(0 <= a, a <= b, b <= n))
            g = self._get
            return PStr(b - a, lambda i, a=a: g(a + i), tag=f'{self.tag}.{name}()', kind=self.kind)
        raise Unsupported(f'str.{name} on a symbolic string')

    def __repr__(self):
        return f'<PStr {self.tag} len={self._len}>'


def nth(p, i):
    """character code at position i (i a z3 Int or int), no bounds check"""
    return p.get(i)
