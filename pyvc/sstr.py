"""Structured strings: text built by join / f-strings / + from atomic parts is kept as a flat list of tokens
(concrete str pieces and symbolic atoms).  split / rstrip / strip / int / == act structurally.

TRUSTED (stated in the evidence, cross-checked natively by the round-trip runs): a symbolic atom contains none of the
separator characters it is later split on ("\\t", ";", "=", ",", '"') and no leading/trailing white space; str(int) and
int(str) are inverse on decimal numerals."""
from __future__ import annotations
import z3
from .values import *
from .core import Unsupported, as_bool


class Tok:
    """an atomic piece of text (an id, a symbol, a position string): opaque, compared by identity"""
    def __init__(self, name):
        self.name = name

    def sym_str(self, I):
        return self

    def sym_truth(self, I):
        return True

    def sym_method(self, I, name, a, k):
        if name in ('strip', 'rstrip', 'lstrip'):
            return self
        if name == 'startswith' and a and isinstance(a[0], str):
            return False                      # assumed: atoms do not start with markup characters
        raise Unsupported(f'Tok.{name}')

    def sym_eq(self, I, other):
        return other is self

    def __repr__(self):
        return f'<Tok {self.name}>'


def flat(v):
    """token list of a text value"""
    if isinstance(v, str):
        return [v] if v else []
    if isinstance(v, OpaqueStr):
        p = v.parts
        if p and p[0] == 'join' and len(p) >= 2 and isinstance(p[1], str):
            items = p[2:]
            if len(items) == 1 and isinstance(items[0], (list, tuple)):
                items = list(items[0])
            out = []
            for i, it in enumerate(items):
                if i:
                    out += flat(p[1])
                out += flat(it)
            return out
        if p and p[0] == 'str' and len(p) == 2:
            return [v]                         # str(<int term>) is one atom
        out = []
        for x in p:
            out += flat(x)
        return out
    if isinstance(v, (list, tuple)) and len(v) == 3 and v[0] == 'fmt':
        return [v]
    if v is None:
        return ['None']
    if isinstance(v, bool):
        return [str(v)]
    if isinstance(v, int):
        return [str(v)]
    if is_z3(v):
        return [OpaqueStr(['str', v])]
    return [v]


def merge(tokens):
    out = []
    for t in tokens:
        if isinstance(t, str) and out and isinstance(out[-1], str):
            out[-1] += t
        elif isinstance(t, str) and t == '':
            continue
        else:
            out.append(t)
    return out


def build(tokens):
    tokens = merge(tokens)
    if not tokens:
        return ''
    if len(tokens) == 1:
        return tokens[0]
    return OpaqueStr(tokens)


def split(v, sep, maxsplit=-1):
    groups = [[]]
    n = 0
    for t in merge(flat(v)):
        if isinstance(t, str):
            pieces = t.split(sep, maxsplit - n) if maxsplit >= 0 else t.split(sep)
            groups[-1].append(pieces[0])
            for piece in pieces[1:]:
                groups.append([piece])
                n += 1
        else:
            groups[-1].append(t)
    return [build(g) for g in groups]


def rstrip(v, chars=None):
    toks = merge(flat(v))
    while toks and isinstance(toks[-1], str):
        s = toks[-1].rstrip(chars) if chars is not None else toks[-1].rstrip()
        if s:
            toks[-1] = s
            break
        toks.pop()
    return build(toks)


def lstrip(v, chars=None):
    toks = merge(flat(v))
    while toks and isinstance(toks[0], str):
        s_ = toks[0].lstrip(chars) if chars is not None else toks[0].lstrip()
        if s_:
            toks[0] = s_
            break
        toks.pop(0)
    return build(toks)


def tok_eq(I, a, b):
    if a is b:
        return True
    if isinstance(a, str) or isinstance(b, str):
        return a == b if isinstance(a, str) and isinstance(b, str) else False
    sa = isinstance(a, OpaqueStr) and a.parts[:1] == ['str']
    sb = isinstance(b, OpaqueStr) and b.parts[:1] == ['str']
    if sa and sb:
        return I.eq(a.parts[1], b.parts[1])
    if sa or sb:
        return False
    if hasattr(a, 'eq_formula') and hasattr(b, 'eq_formula'):
        return a.eq_formula(I, b)
    return False


def text_eq(I, a, b):
    """structural equality of two texts: same token sequence (atoms by identity / value)"""
    ta, tb = merge(flat(a)), merge(flat(b))
    if len(ta) != len(tb):
        return False
    conj = []
    for x, y in zip(ta, tb):
        r = tok_eq(I, x, y)
        if r is False:
            return False
        if r is not True:
            conj.append(as_bool(r))
    return z3.And(*conj) if conj else True


def install(reg):
    def hook(obj, name):
        if not isinstance(obj, OpaqueStr):
            return None
        if name == 'split':
            def do(I, o, a, k):
                if not a:
                    raise Unsupported('split() on white space')
                return split(o, a[0], a[1] if len(a) > 1 else k.get('maxsplit', -1))
            return do
        if name == 'partition':
            def part(I, o, a, k):
                pieces = split(o, a[0], 1)
                pieces = list(pieces) if isinstance(pieces, (list, tuple)) else None
                if pieces is None or not 1 <= len(pieces) <= 2:
                    raise Unsupported('partition on structured text')
                return (pieces[0], a[0], pieces[1]) if len(pieces) == 2 else (pieces[0], '', '')
            return part
        if name == 'rstrip':
            return lambda I, o, a, k: rstrip(o, a[0] if a else None)
        if name == 'lstrip':
            return lambda I, o, a, k: lstrip(o, a[0] if a else None)
        if name == 'strip':
            # strip(chars): the given characters are removed from the concrete ends (an atom at an end is assumed not to start / end with them)
            return lambda I, o, a, k: (rstrip(lstrip(o, a[0]), a[0]) if a and isinstance(a[0], str) else o)
        if name == 'upper':
            return lambda I, o, a, k: o if all(not isinstance(t, str) or t.upper() == t for t in flat(o)) else OpaqueStr(['upper', o])
        if name == 'isdigit' and obj.parts[:1] == ['str'] and len(obj.parts) == 2 and is_sym_int(obj.parts[1]):
            # str(n).isdigit(): decimal digits only, i.e. no minus sign
            return lambda I, o, a, k: o.parts[1] >= 0
        if name == 'startswith':
            def sw(I, o, a, k):
                toks = merge(flat(o))
                if toks and isinstance(toks[0], str) and isinstance(a[0], str):
                    if len(toks[0]) >= len(a[0]) or len(toks) == 1:
                        return toks[0].startswith(a[0])
                if toks and not isinstance(toks[0], str):
                    return False
                raise Unsupported('startswith on structured text')
            return sw
        return None
    reg.value_methods.insert(0, hook)

    def int_hook(v):
        if isinstance(v, OpaqueStr) and v.parts[:1] == ['str'] and len(v.parts) == 2 and is_sym_int(v.parts[1]):
            return lambda I, v: v.parts[1]
        return None
    reg.int_hooks.insert(0, int_hook)
