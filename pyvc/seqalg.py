"""Sequences of symbolic length as (length, index -> element) with Python slicing semantics,
the filter axiom for `[i for i, _ in enumerate(s) if P(i)]`, and a predicate-defined int set."""
from __future__ import annotations
import z3
from .values import *
from .core import Unsupported, as_bool

I_ = z3.IntSort()


class SymString(View):
    """str / Seq content: characters are z3 Ints (codes); immutable."""
    def __init__(self, length, getter, tag='str'):
        self._len, self._get, self.tag = length, getter, tag

    def length(self):
        return self._len

    def get(self, i):
        return self._get(i)

    def sym_len(self, I):
        return self._len

    def sym_getitem(self, I, idx):
        i = I.norm_index(idx, self._len)
        return self._get(i)

    def sym_getslice(self, I, lo, hi, st):
        if st not in (None, 1):
            raise Unsupported('string slice with step')
        a, b = I.clip_slice(lo, hi, self._len)
        ln = b - a
        ln = z3.If(ln > 0, ln, 0) if is_z3(ln) else max(ln, 0)
        g = self._get
        return SymString(ln, lambda i, a=a: g(a + i), tag=f'{self.tag}[{a}:{b}]')

    def sym_truth(self, I):
        return self._len != 0

    def sym_isinstance(self, I, name):
        return name == 'str'

    def sym_str(self, I):
        return self

    def sym_eq(self, I, other):
        if isinstance(other, SymString):
            k = z3.Int(I.e.fresh_name('k_streq'))
            return z3.And(self._len == other._len,
                          z3.ForAll([k], z3.Implies(z3.And(0 <= k, k < self._len), self._get(k) == other._get(k))))
        raise Unsupported('string equality with a non-symbolic string')

    def sym_method(self, I, name, args, kwargs):
        if name == 'startswith' and isinstance(args[0], str) and len(args[0]) == 1 and hasattr(I, 'char_code'):
            return z3.And(self._len > 0, self._get(0) == I.char_code(args[0]))
        raise Unsupported(f'str.{name} on a symbolic string')


class PredSet:
    """a collection of ints known only through its membership predicate (`x in s`)"""
    def __init__(self, pred):
        self.pred = pred

    def sym_contains(self, I, item):
        return self.pred(item if is_z3(item) else z3.IntVal(item))


class FilterList(View):
    """[i for i, _ in enumerate(s) if P(i)] — the filter axiom (DESIGN.md §1.1)."""
    def __init__(self, I, n, P, name='NF'):
        e = I.e
        self.n, self.P = n, P
        self.cnt = z3.Function(e.fresh_name(f'cnt_{name}'), I_, I_)
        self.X = z3.Array(e.fresh_name(name), I_, I_)
        q, t, a, b = z3.Ints(f'{name}_q {name}_t {name}_a {name}_b')
        cnt, X = self.cnt, self.X
        self.m = cnt(n)
        self.axioms = [
            cnt(0) == 0,
            z3.ForAll([q], z3.Implies(q >= 0, cnt(q + 1) == cnt(q) + z3.If(P(q), 1, 0)), patterns=[cnt(q + 1)]),
        ]
        pq = P(q)
        while z3.is_not(pq):
            pq = pq.arg(0)
        if z3.is_app(pq) and pq.decl().kind() == z3.Z3_OP_UNINTERPRETED:
            self.axioms.append(z3.ForAll([q], z3.Implies(q >= 0, cnt(q + 1) == cnt(q) + z3.If(P(q), 1, 0)),
                                         patterns=[z3.MultiPattern(cnt(q), pq)]))
        self.axioms += [
            z3.ForAll([q], z3.Implies(z3.And(0 <= q, q < n, P(q)), X[cnt(q)] == q), patterns=[cnt(q)]),
            z3.ForAll([t], z3.Implies(z3.And(0 <= t, t < self.m),
                                      z3.And(0 <= X[t], X[t] < n, P(X[t]), cnt(X[t]) == t)), patterns=[X[t]]),
        ]
        # lemma (proved separately by induction, see contracts: FilterCountMonotone)
        self.lemma = z3.ForAll([a, b], z3.Implies(z3.And(0 <= a, a <= b),
                                                   z3.And(cnt(a) <= cnt(b), cnt(b) - cnt(a) <= b - a)),
                               patterns=[z3.MultiPattern(cnt(a), cnt(b))])
        for ax in self.axioms + [self.lemma]:
            e.assume(ax)

    def length(self):
        return self.m

    def get(self, i):
        return self.X[i if is_z3(i) else z3.IntVal(i)]


def extend_symlist(I, lst, view):
    """lst += list(view): functional definition of the extended array"""
    e = I.e
    n0, arr0 = lst.length, lst.arr
    vlen = view.length()
    new = z3.Array(e.fresh_name(f'{lst.name}_ext'), I_, lst.sort)
    q = z3.Int(e.fresh_name('q_ext'))
    e.assume(z3.ForAll([q], z3.Implies(z3.And(0 <= q, q < n0), new[q] == arr0[q]), patterns=[new[q]]))
    body = lst.unwrap(view.get(q - n0))
    e.assume(z3.ForAll([q], z3.Implies(z3.And(n0 <= q, q < n0 + vlen), new[q] == body), patterns=[new[q]]))
    lst.arr = new
    lst.length = n0 + vlen
    return lst
