"""Developer helper: verify the contracts of one module and print a table."""
import sys, importlib, time, os
from .contract import ALL_CONTRACTS, verify_function
from .repo import RepoIndex

def main():
    modname = sys.argv[1]
    pos = [a for a in sys.argv[2:] if not a.startswith('-')]
    only = pos[0] if pos else None
    importlib.import_module(modname)
    repo = RepoIndex()
    for c in ALL_CONTRACTS:
        if only and only not in c.qualname and only not in type(c).__name__:
            continue
        if hasattr(c, 'verify'):
            r = c.verify(repo)
        else:
            r = verify_function(c, repo, tier=os.environ.get('PYVC_TIER', 'quick'))
        print(f'== {c.name()}  status={r.status} paths={r.paths} vcs={len(r.vcs)} t={r.time:.2f}s {r.detail}')
        for vc in r.vcs:
            flag = {'discharged': 'ok ', 'refuted': 'REFUTED', 'unknown': 'unknown', None: 'none'}[vc.status]
            if vc.status != 'discharged' or '-v' in sys.argv:
                print(f'   [{flag}] {vc.kind:10s} {vc.name}  ({vc.backend}, {vc.time:.3f}s) path={vc.path} {vc.reason}')
                if vc.model is not None and '-m' in sys.argv:
                    print('      model:', vc.model)
        for n in r.notes:
            print('   note:', n)
main()
