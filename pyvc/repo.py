"""Index of the real source tree: re-read from /repo's working tree on every run."""
from __future__ import annotations
import ast, os, glob, hashlib

REPO = os.environ.get('PYVC_REPO', '/repo')

BUILTIN_EXC = {
    'BaseException': None, 'Exception': 'BaseException', 'ValueError': 'Exception',
    'KeyError': 'LookupError', 'IndexError': 'LookupError', 'LookupError': 'Exception',
    'TypeError': 'Exception', 'AttributeError': 'Exception', 'RuntimeError': 'Exception',
    'StopIteration': 'Exception', 'UnboundLocalError': 'NameError', 'NameError': 'Exception',
    'AssertionError': 'Exception', 'ZeroDivisionError': 'ArithmeticError',
    'ArithmeticError': 'Exception', 'NotImplementedError': 'RuntimeError',
    'FileNotFoundError': 'OSError', 'OSError': 'Exception', 'TimeoutError': 'OSError',
    'KeyboardInterrupt': 'BaseException', 'SystemExit': 'BaseException',
    'UnicodeDecodeError': 'ValueError', 'FileExistsError': 'OSError',
}


class ClassInfo:
    def __init__(self, name, module, node):
        self.name = name
        self.module = module
        self.node = node
        self.bases = []
        for b in node.bases:
            if isinstance(b, ast.Name):
                self.bases.append(b.id)
            elif isinstance(b, ast.Attribute):
                self.bases.append(b.attr)
        self.methods = {}
        self.properties = {}
        self.setters = {}
        self.class_attrs = {}
        self.classmethods = set()
        self.staticmethods = set()
        for n in node.body:
            if isinstance(n, ast.FunctionDef):
                decos = [ast.unparse(d) for d in n.decorator_list]
                if 'property' in decos:
                    self.properties[n.name] = n
                elif any(d.endswith('.setter') for d in decos):
                    self.setters[n.name] = n
                else:
                    self.methods[n.name] = n
                    if 'classmethod' in decos:
                        self.classmethods.add(n.name)
                    if 'staticmethod' in decos:
                        self.staticmethods.add(n.name)
            elif isinstance(n, ast.Assign) and len(n.targets) == 1 \
                    and isinstance(n.targets[0], ast.Name):
                self.class_attrs[n.targets[0].id] = n.value


class ModuleInfo:
    def __init__(self, path, relpath, tree):
        self.path = path
        self.relpath = relpath
        self.tree = tree
        self.functions = {}
        self.classes = {}
        self.consts = {}       # name -> ast value node (module level assignments)
        self.imports = {}      # local alias -> ('module', dotted) | ('name', dotted, name)
        for n in tree.body:
            if isinstance(n, ast.FunctionDef):
                self.functions[n.name] = n
            elif isinstance(n, ast.ClassDef):
                self.classes[n.name] = ClassInfo(n.name, self, n)
            elif isinstance(n, ast.Assign):
                for t in n.targets:
                    if isinstance(t, ast.Name):
                        self.consts[t.id] = n.value
            elif isinstance(n, ast.AnnAssign) and isinstance(n.target, ast.Name) and n.value:
                self.consts[n.target.id] = n.value
            elif isinstance(n, ast.Import):
                for a in n.names:
                    self.imports[a.asname or a.name.split('.')[0]] = ('module', a.name)
            elif isinstance(n, ast.ImportFrom):
                for a in n.names:
                    self.imports[a.asname or a.name] = ('name', n.module or '', a.name, n.level)


class RepoIndex:
    def __init__(self, root=None):
        self.root = root or REPO
        self.modules = {}
        self.classes = {}
        self.functions = {}
        self.exc_bases = dict(BUILTIN_EXC)
        for f in sorted(glob.glob(os.path.join(self.root, 'moPepGen', '**', '*.py'),
                                  recursive=True)):
            rel = os.path.relpath(f, self.root)
            if rel.startswith('moPepGen/util/'):
                continue
            try:
                tree = ast.parse(open(f).read())
            except SyntaxError:
                continue
            m = ModuleInfo(f, rel, tree)
            self.modules[rel] = m
            for c in m.classes.values():
                self.classes.setdefault(c.name, []).append(c)
            for fn in m.functions:
                self.functions.setdefault(fn, []).append((m, m.functions[fn]))
        for cname, lst in self.classes.items():
            for c in lst:
                if c.bases:
                    # first exception-like base wins
                    for b in c.bases:
                        if b in self.exc_bases or b in self.classes:
                            self.exc_bases.setdefault(cname, b)
                            break

    def module(self, rel):
        return self.modules[rel]

    prefer_module = None

    def get_class(self, name, prefer_module=None):
        lst = self.classes.get(name)
        if not lst:
            return None
        prefer_module = prefer_module or self.prefer_module
        if prefer_module is not None:
            for c in lst:
                if c.module is prefer_module:
                    return c
        return lst[0] if len(lst) == 1 else None

    def find_method(self, cname, mname, kind='methods', prefer_module=None):
        """MRO lookup (depth-first over repo bases). Returns (ClassInfo, node) or None."""
        seen = set()
        stack = [cname]
        while stack:
            n = stack.pop(0)
            if n in seen:
                continue
            seen.add(n)
            c = self.get_class(n, prefer_module)
            if c is None:
                continue
            tbl = getattr(c, kind)
            if mname in tbl:
                return c, tbl[mname]
            stack = list(c.bases) + stack
        return None

    def mro_names(self, cname, prefer_module=None):
        out, seen, stack = [], set(), [cname]
        while stack:
            n = stack.pop(0)
            if n in seen:
                continue
            seen.add(n)
            out.append(n)
            c = self.get_class(n, prefer_module)
            if c is not None:
                stack = list(c.bases) + stack
        return out

    def is_subclass(self, cname, base):
        if cname == base:
            return True
        if base in self.mro_names(cname):
            return True
        # exception hierarchy
        cur, seen = cname, set()
        while cur is not None and cur not in seen:
            seen.add(cur)
            if cur == base:
                return True
            cur = self.exc_bases.get(cur)
        return False

    def function_node(self, relpath, qualname):
        m = self.modules[relpath]
        parts = qualname.split('.')
        if len(parts) == 1:
            return m, None, m.functions[parts[0]]
        if parts[0] in m.functions and parts[0] not in m.classes:
            # a function defined inside a module-level function: outer.inner
            node = m.functions[parts[0]]
            for nm in parts[1:]:
                inner = [n for n in ast.walk(node) if isinstance(n, ast.FunctionDef) and n.name == nm and n is not node]
                if not inner:
                    raise KeyError(qualname)
                node = inner[0]
            return m, None, node
        c = m.classes[parts[0]]
        for tbl in (c.methods, c.properties, c.setters):
            if parts[1] in tbl:
                return m, c, tbl[parts[1]]
        raise KeyError(qualname)


def source_hash(node):
    return hashlib.sha256(ast.unparse(node).encode()).hexdigest()[:16]
