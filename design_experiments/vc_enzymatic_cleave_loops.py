import z3, time
I=z3.IntSort(); B=z3.BoolSort()
vis=z3.Function('vis',I,I,B); vis2=z3.Function('vis2',I,I,B)
n,mc,start,end,a,b=z3.Ints('n mc start end a b')
def target(a,b): return z3.And(0<=a,a<b,b<=n-1,b-a-1<=mc)
def outer(v,start): return z3.And(0<=start, z3.ForAll([a,b], v(a,b)==z3.And(target(a,b),a<start)))
def inner(v,start,end): return z3.And(0<=start,start<end,end<=n, z3.ForAll([a,b], v(a,b)==z3.Or(z3.And(target(a,b),a<start), z3.And(a==start,start<b,b<end,target(a,b)))))
pre=[n>=2, mc>=0]
def prove(name,hyps,goal):
    s=z3.Solver(); s.set('timeout',20000); s.add(*pre,*hyps,z3.Not(goal))
    t0=time.time(); r=s.check(); print(name,'proved' if r==z3.unsat else r, round(time.time()-t0,3))
    if r==z3.sat: print(s.model())
emp=lambda a,b: z3.BoolVal(False)
prove('outer_init',[],outer(emp,z3.IntVal(0)))
prove('inner_init',[outer(vis,start),start<n-1],inner(vis,start,start+1))
upd=z3.ForAll([a,b], vis2(a,b)==z3.Or(vis(a,b), z3.And(a==start,b==end)))
prove('inner_pres',[inner(vis,start,end),end-start-1<=mc,end<n,upd],inner(vis2,start,end+1))
prove('inner_exit->outer',[inner(vis,start,end),z3.Not(z3.And(end-start-1<=mc,end<n)),start<n-1],outer(vis,start+1))
prove('final',[outer(vis,start),z3.Not(start<n-1)],z3.ForAll([a,b],vis(a,b)==target(a,b)))
