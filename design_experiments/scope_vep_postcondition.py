import random, copy, sys
from Bio.Seq import Seq
from test.unit import create_genomic_annotation, create_dna_record_dict
from moPepGen.parser.VEPParser import VEPRecord
from moPepGen.err import TranscriptionStartSiteMutationError, TranscriptionStopSiteMutationError
random.seed(1)
def rc(s): return str(Seq(s).reverse_complement())
viol=[]; n=0; rej=0
for trial in range(6):
  for strand in (1,-1):
    chrom=''.join(random.choice('ACGT') for _ in range(60))
    gs,ge=10,50; ts,te=14,46
    attrs_g={'gene_id':'G','gene_name':'S'}; attrs_t={'transcript_id':'T','gene_id':'G','protein_id':'P','gene_name':'S'}
    data={'genes':[{'gene_id':'G','chrom':'chr1','strand':strand,'gene':(gs,ge,attrs_g),'transcripts':['T']}],
          'transcripts':[{'transcript_id':'T','chrom':'chr1','strand':strand,'transcript':(ts,te,attrs_t),'exon':[(ts,25,attrs_t),(30,te,attrs_t)]}]}
    anno=create_genomic_annotation(data); genome=create_dna_record_dict({'chr1':chrom})
    def gene_of(c,lo,hi): 
        s=c[lo:hi]; return s if strand==1 else rc(s)
    G=gene_of(chrom,gs,ge)
    events=[]
    for a in range(gs+1,ge+1):        # 1-based positions
        for base in 'ACGT':
            if base!=chrom[a-1]: events.append(('snv',a,a,base))
        for b in range(a,min(a+4,ge+1)): events.append(('del',a,b,'-'))
        if a<ge: events.append(('ins',a,a+1,random.choice(['A','CG','TTA'])))
        for b in range(a+2,min(a+5,ge+1)): events.append(('sub',a,b,''.join(random.choice('ACGT') for _ in range(random.choice([1,2,3,4])))))
    for kind,a,b,allele in events:
        loc=f'chr1:{a}' if a==b else f'chr1:{a}-{b}'
        rec=VEPRecord('x',loc,allele,'G','T','Transcript',['x'],'','','',('',''),('',''),'',{})
        n+=1
        try:
            v=rec.convert_to_variant_record(anno,genome)
        except (TranscriptionStartSiteMutationError,TranscriptionStopSiteMutationError):
            rej+=1; continue
        except Exception as e:
            viol.append((kind,strand,a,b,allele,'EXC',type(e).__name__,str(e)[:60])); continue
        if kind=='snv': c2=chrom[:a-1]+allele+chrom[a:]
        elif kind=='del': c2=chrom[:a-1]+chrom[b:]
        elif kind=='ins': c2=chrom[:a]+allele+chrom[a:]
        else: c2=chrom[:a-1]+allele+chrom[b:]
        d=len(c2)-len(chrom)
        exp=gene_of(c2,gs,ge+d)
        s,e=int(v.location.start),int(v.location.end)
        got=G[:s]+v.alt+G[e:]
        if str(v.ref)!=G[s:e] or got!=exp:
            viol.append((kind,strand,a,b,allele,(s,e,v.ref,v.alt),'refok' if str(v.ref)==G[s:e] else 'REFBAD'))
print('events',n,'rejected',rej,'violations',len(viol))
import collections
print(collections.Counter((v[0],v[1]) for v in viol))
for v in viol[:12]: print(v)
