""" Small-scope native check of the C15 spec: the sequence denoted by a fusion GVF
record (as apply_fusion/call_peptide_fusion read it) equals donor transcript up to
the left breakpoint (+ retained intronic bases) followed by the acceptor transcript
from the right breakpoint. STAR-Fusion path; both strands of both genes. """
import random
from Bio.Seq import Seq
from test.unit import create_genomic_annotation, create_dna_record_dict
from moPepGen.parser.STARFusionParser import STARFusionRecord
random.seed(5)
def rc(s): return str(Seq(s).reverse_complement())
def mk(n, lo, hi):
    while True:
        pts = sorted(random.sample(range(lo, hi), 2*n))
        ex = [(pts[2*i], pts[2*i+1]) for i in range(n)]
        if all(ex[i][1] < ex[i+1][0] for i in range(n-1)): return ex
bad = 0; n = 0; exc = 0
for trial in range(400):
    chrom = ''.join(random.choice('ACGT') for _ in range(160))
    s1, s2 = random.choice([1,-1]), random.choice([1,-1])
    e1 = mk(random.randint(1,3), 12, 68); e2 = mk(random.randint(1,3), 92, 148)
    g1 = (10, 70); g2 = (90, 150)
    def attrs(g, t): return {'gene_id':g,'gene_name':g}, {'transcript_id':t,'gene_id':g,'protein_id':'P'+t,'gene_name':g}
    ag1, at1 = attrs('G1','T1'); ag2, at2 = attrs('G2','T2')
    data = {'genes':[
        {'gene_id':'G1','chrom':'chr1','strand':s1,'gene':(*g1,ag1),'transcripts':['T1']},
        {'gene_id':'G2','chrom':'chr1','strand':s2,'gene':(*g2,ag2),'transcripts':['T2']}],
      'transcripts':[
        {'transcript_id':'T1','chrom':'chr1','strand':s1,'transcript':(e1[0][0],e1[-1][1],at1),'exon':[(a,b,at1) for a,b in e1]},
        {'transcript_id':'T2','chrom':'chr1','strand':s2,'transcript':(e2[0][0],e2[-1][1],at2),'exon':[(a,b,at2) for a,b in e2]}]}
    anno = create_genomic_annotation(data); genome = create_dna_record_dict({'chr1':chrom})
    def tx_positions(ex, strand):   # genomic positions in transcript order
        p = [g for a,b in ex for g in range(a,b)]
        return p if strand == 1 else p[::-1]
    def base(g, strand): return chrom[g] if strand == 1 else rc(chrom[g])
    P1 = tx_positions(e1, s1); P2 = tx_positions(e2, s2)
    for bpL in range(e1[0][0]+1, e1[-1][1]+1):           # 1-based, inside donor span
        for bpR in random.sample(range(e2[0][0]+1, e2[-1][1]+1), min(4, e2[-1][1]-e2[0][0])):
            n += 1
            gl, gr = bpL-1, bpR-1
            # expected donor part
            if s1 == 1:
                up = [g for g in P1 if g <= gl]
                intr = [] if gl in P1 else list(range((up[-1]+1) if up else gl, gl+1))
            else:
                up = [g for g in P1 if g >= gl]
                intr = [] if gl in P1 else list(range((up[-1]-1) if up else gl, gl-1, -1))
            if not up: continue
            if s2 == 1:
                down = [g for g in P2 if g >= gr]
                intr2 = [] if gr in P2 else list(range(gr, down[0])) if down else None
            else:
                down = [g for g in P2 if g <= gr]
                intr2 = [] if gr in P2 else list(range(gr, down[0], -1)) if down else None
            if not down: continue
            expected = ''.join(base(g,s1) for g in up+intr) + ''.join(base(g,s2) for g in intr2+down)
            rec = STARFusionRecord('f',10,10,10.,10.,'x','G1',f'chr1:{bpL}:+','G2',f'chr1:{bpR}:+',[],[],'Y',1.,'GT',1.,'AG',1.,[])
            try:
                vs = rec.convert_to_variant_records(anno, genome)
                assert len(vs) == 1
                v = vs[0]
                v.shift_breakpoint_to_closest_exon(anno)
                tv = v.to_transcript_variant(anno, genome, 'T1')
            except Exception as e:
                exc += 1
                if exc < 4: print('EXC', type(e).__name__, e, s1, s2, e1, e2, bpL, bpR)
                continue
            gene1 = anno.genes['G1'].get_gene_sequence(genome['chr1']).seq
            gene2 = anno.genes['G2'].get_gene_sequence(genome['chr1']).seq
            t1 = anno.transcripts['T1'].get_transcript_sequence(genome['chr1']).seq
            t2 = anno.transcripts['T2'].get_transcript_sequence(genome['chr1']).seq
            a = tv.attrs
            got = str(t1[:int(tv.location.start)])
            if a['LEFT_INSERTION_START'] is not None: got += str(gene1[a['LEFT_INSERTION_START']:a['LEFT_INSERTION_END']])
            if a['RIGHT_INSERTION_START'] is not None: got += str(gene2[a['RIGHT_INSERTION_START']:a['RIGHT_INSERTION_END']])
            got += str(t2[anno.coordinate_gene_to_transcript(int(a['ACCEPTER_POSITION']), 'G2', 'T2'):])
            if got != expected:
                bad += 1
                if bad < 6: print('DIFF', s1, s2, e1, e2, bpL, bpR, '\n got', got, '\n exp', expected)
print('cases', n, 'exceptions', exc, 'disagreements', bad)
