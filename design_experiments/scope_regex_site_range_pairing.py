import re, regex, itertools, sys

from moPepGen.aa.expasy_rules import EXPASY_RULES, EXPASY_RULES2, EXPASY_RULES_WINGS_SIZE
import re._parser as sp
def letters(p):
    s=set()
    def walk(x):
        for op,av in x:
            n=str(op)
            if n=='LITERAL' or n=='NOT_LITERAL': s.add(chr(av))
            elif n=='IN':
                for o,a in av:
                    if str(o)=='LITERAL': s.add(chr(a))
            elif n in('ASSERT','ASSERT_NOT'): walk(av[1])
            elif n=='SUBPATTERN': walk(av[3])
            elif n=='BRANCH':
                for b in av[1]: walk(b)
            elif n=='MAX_REPEAT': walk(av[2])
    walk(sp.parse(p)); return s
bad={}
for rule in EXPASY_RULES:
    al=sorted(letters(EXPASY_RULES[rule])|letters(EXPASY_RULES2[rule])|{'Q','*'})
    if len(al)>9: al=al  # may be big
    sp1=re.compile(EXPASY_RULES[rule]); rp=regex.compile(EXPASY_RULES2[rule])
    maxlen=7 if len(al)<=6 else (6 if len(al)<=8 else 5)
    n=0
    for L in range(1,maxlen+1):
        for t in itertools.product(al,repeat=L):
            s=''.join(t); n+=1
            sites=[x.end() for x in sp1.finditer(s)]
            ranges=[(x.start(),x.end()) for x in rp.finditer(s,overlapped=True)]
            ok = len(sites)==len(ranges) and all(r[0]<si<=r[1] or (r[0]<=si<=r[1]) for si,r in zip(sites,ranges))
            if not ok:
                bad.setdefault(rule,[]).append((s,sites,ranges))
                break
        if rule in bad: break
    print(rule, len(al), maxlen, n, 'BAD '+str(bad[rule][0]) if rule in bad else 'ok', flush=True)
