""" Small-scope native check of the C17 spec: fragments of the CircRNAModel are the
strand-corrected images of the reported blocks, and the gene-read circular sequence
(fragments sorted by gene start, concatenated at the str level) equals the reported
genomic blocks concatenated in transcript orientation. Also exercises
get_circ_rna_sequence on the real DNASeqRecordWithCoordinates (TypeError expected on
the pinned tree for >= 2 fragments, see DESIGN 1.8). """
import random, itertools
from Bio.Seq import Seq
from test.unit import create_genomic_annotation, create_dna_record_dict
from moPepGen.parser.CIRCexplorerParser import CIRCexplorer2KnownRecord
random.seed(7)
def rc(s): return str(Seq(s).reverse_complement())
bad = 0; n = 0; typeerr = 0; ok_real = 0
for trial in range(300):
    chrom = ''.join(random.choice('ACGT') for _ in range(100))
    strand = random.choice([1,-1]); k = random.randint(2,5)
    while True:
        pts = sorted(random.sample(range(12, 88), 2*k)); ex = [(pts[2*i], pts[2*i+1]) for i in range(k)]
        if all(ex[i][1] < ex[i+1][0] for i in range(k-1)): break
    ag = {'gene_id':'G','gene_name':'S'}; at = {'transcript_id':'T','gene_id':'G','protein_id':'P','gene_name':'S'}
    data = {'genes':[{'gene_id':'G','chrom':'chr1','strand':strand,'gene':(10,90,ag),'transcripts':['T']}],
            'transcripts':[{'transcript_id':'T','chrom':'chr1','strand':strand,'transcript':(ex[0][0],ex[-1][1],at),'exon':[(a,b,at) for a,b in ex]}]}
    anno = create_genomic_annotation(data); genome = create_dna_record_dict({'chr1':chrom})
    gene_seq = anno.genes['G'].get_gene_sequence(genome['chr1'])
    for i in range(k):
        for j in range(i, k):
            blocks = ex[i:j+1]; n += 1
            start, end = blocks[0][0], blocks[-1][1]
            rec = CIRCexplorer2KnownRecord('chr1', start, end, 'c', 0., '+' if strand==1 else '-', start, start, (0,0,0),
                len(blocks), [b-a for a,b in blocks], [a-start for a,b in blocks], 5, 'circRNA', 'S', 'T', list(range(len(blocks))), 'x')
            m = rec.convert_to_circ_rna(anno)
            expected = ''.join(chrom[a:b] for a,b in blocks)
            if strand == -1: expected = rc(expected)
            frs = sorted(m.fragments)
            got = ''.join(str(gene_seq.seq[int(f.location.start):int(f.location.end)]) for f in frs)
            if got != expected: bad += 1
            try:
                real = str(m.get_circ_rna_sequence(gene_seq).seq)
                ok_real += 1
                if real != expected: bad += 1
            except TypeError:
                typeerr += 1
print('records', n, 'spec disagreements', bad, '| real get_circ_rna_sequence ok', ok_real, 'TypeError', typeerr)
