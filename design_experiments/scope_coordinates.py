import random, itertools
from test.unit import create_genomic_annotation
from moPepGen import ERROR_INDEX_IN_INTRON
random.seed(3)
bad=0; n=0
for trial in range(300):
    strand=random.choice([1,-1])
    k=random.randint(1,4)
    pts=sorted(random.sample(range(5,60),2*k))
    exons=[(pts[2*i],pts[2*i+1]) for i in range(k)]
    # enforce non-adjacent
    if any(exons[i][1]>=exons[i+1][0] for i in range(k-1)): continue
    ag={'gene_id':'G','gene_name':'S'}; at={'transcript_id':'T','gene_id':'G','protein_id':'P','gene_name':'S'}
    data={'genes':[{'gene_id':'G','chrom':'c','strand':strand,'gene':(2,64,ag),'transcripts':['T']}],
          'transcripts':[{'transcript_id':'T','chrom':'c','strand':strand,'transcript':(exons[0][0],exons[-1][1],at),'exon':[(a,b,at) for a,b in exons]}]}
    anno=create_genomic_annotation(data); tx=anno.transcripts['T']
    L=sum(b-a for a,b in exons)
    exonic=[g for a,b in exons for g in range(a,b)]
    order=exonic if strand==1 else list(reversed(exonic))
    for g in range(0,70):
        n+=1
        try:
            i=tx.get_transcript_index(g); res=('ok',i)
        except ValueError as e:
            res=('intron',) if e.args[0]==ERROR_INDEX_IN_INTRON else ('range',)
        if g in exonic: exp=('ok',order.index(g))
        elif exons[0][0]<=g<exons[-1][1]: exp=('intron',)
        else: exp=('range',)
        if res!=exp: bad+=1; print('G2T',strand,exons,g,res,exp) if bad<8 else None
    for i in range(L):
        g=anno.coordinate_transcript_to_genomic(i,'T')
        if g!=order[i]: bad+=1; print('T2G',strand,exons,i,g,order[i]) if bad<8 else None
        # gene coords
        gi=anno.coordinate_genomic_to_gene(g,'G')
        if anno.coordinate_gene_to_genomic(gi,'G')!=g or anno.coordinate_gene_to_transcript(gi,'G','T')!=i: bad+=1
print(n,'checks, bad',bad)
