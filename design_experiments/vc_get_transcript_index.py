import z3, time
z3.set_param('smt.mbqi', True)
I=z3.IntSort()
s=z3.Array('s',I,I); e=z3.Array('e',I,I)
n,g,k,index=z3.Ints('n g k index')
cum=z3.Function('cum',I,I)
j=z3.Int('j')
ax=[cum(0)==0, z3.ForAll([j], z3.Implies(j>=0, cum(j+1)==cum(j)+e[j]-s[j]), patterns=[cum(j+1)])]
# also pattern for cum(j)
ax2=[z3.ForAll([j], z3.Implies(j>=0, cum(j+1)==cum(j)+e[j]-s[j]), patterns=[z3.MultiPattern(cum(j),e[j])])]
wf=[n>=1, z3.ForAll([j], z3.Implies(z3.And(0<=j,j<n), s[j]<e[j])), z3.ForAll([j,z3.Int("j2")], z3.Implies(z3.And(0<=j,j<z3.Int("j2"),z3.Int("j2")<n), e[j]<s[z3.Int("j2")]))]
pre=[s[0]<=g, g<e[n-1]]
inv=lambda k,index: z3.And(0<=k,k<=n,index==cum(k), z3.ForAll([j], z3.Implies(z3.And(0<=j,j<k), e[j]<g)))
def prove(name, hyps, goal):
    sv=z3.Solver(); sv.set('timeout',10000)
    sv.add(*ax,*ax2,*wf,*pre,*hyps, z3.Not(goal))
    t=time.time(); r=sv.check(); print(name, 'proved' if r==z3.unsat else r, round(time.time()-t,3))
    if r==z3.sat: print(sv.model())
prove('init', [], inv(z3.IntVal(0), z3.IntVal(0)))
# preservation branch1
prove('pres1', [inv(k,index), k<n, e[k]<g], inv(k+1, index+e[k]-s[k]))
# fallthrough unreachable
prove('nofall', [inv(k,index), k>=n], z3.BoolVal(False))
# break branch post
res=index+g-s[k]
kk=z3.Int('kk')
post=z3.Exists([kk], z3.And(0<=kk,kk<n,s[kk]<=g,g<e[kk],res==cum(kk)+g-s[kk]))
prove('post_break', [inv(k,index), k<n, z3.Not(e[k]<g), z3.Not(e[k]==g), s[k]<=g], post)
# raise branch: g is intronic: no exon contains g
noex=z3.ForAll([j], z3.Implies(z3.And(0<=j,j<n), z3.Not(z3.And(s[j]<=g,g<e[j]))))
prove('raise_eq', [inv(k,index), k<n, z3.Not(e[k]<g), e[k]==g], noex)
prove('raise_else', [inv(k,index), k<n, z3.Not(e[k]<g), z3.Not(e[k]==g), z3.Not(s[k]<=g)], noex)
