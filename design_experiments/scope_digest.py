import itertools, re
from Bio.Seq import Seq
from Bio import SeqUtils
from moPepGen.aa import AminoAcidSeqRecord
from moPepGen.aa.expasy_rules import EXPASY_RULES
def spec(s, rule, exc, mc, min_mw, lo, hi, nf):
    sites=[m.end() for m in re.finditer(EXPASY_RULES[rule], s)]
    if exc: 
        ex={m.end() for m in re.finditer(EXPASY_RULES[exc], s)}; sites=[x for x in sites if x not in ex]
    S=[0]+sites+[len(s)]
    out=set()
    def ok(p): return 'X' not in p and lo<=len(p)<=hi and SeqUtils.molecular_weight(Seq(p),'protein')>min_mw
    for a in range(len(S)-1):
        for b in range(a+1,len(S)):
            if b-a-1>mc: break
            p=s[S[a]:S[b]]
            if ok(p): out.add(p)
            if a==0 and not nf and p.startswith('M') and ok(p[1:]): out.add(p[1:])
    return out
bad=0;n=0
for rule,exc in [('trypsin','trypsin_exception'),('trypsin',None),('arg-c',None),('lysn',None),('asp-n',None)]:
  al='MKRPDCA'
  for L in range(1,7):
    for t in itertools.product(al,repeat=L):
        s=''.join(t)
        for mc in (0,1,2):
          for nf in (False,True):
            n+=1
            got={str(p.seq) for p in AminoAcidSeqRecord(Seq(s)).enzymatic_cleave(rule,exc,mc,100.0,2,5,nf)}
            exp=spec(s,rule,exc,mc,100.0,2,5,nf)
            if got!=exp:
                bad+=1
                if bad<6: print(rule,s,mc,nf,got^exp)
print(n,bad)
