""" Small-scope native prototype of the C16 bounded stand-in (SE events only):
every record emitted for a transcript that carries the inclusion (U,E,D) or the
skipping (U,D) form, applied with the documented deletion/insertion/substitution
semantics, must give the other form. Isoforms are ordered lists of gene positions. """
import random, itertools
from test.unit import create_genomic_annotation, create_dna_record_dict
from moPepGen.parser.RMATSParser.SERecord import SERecord
random.seed(11)
def apply(tx_pos, v):
    s, e = int(v.location.start), int(v.location.end)
    P = list(tx_pos)
    if v.type == 'Deletion':
        S, E = int(v.attrs['START']), int(v.attrs['END'])
        if S not in P or (E-1) not in P: return ('intronic-endpoint', S, E)
        return [p for p in P if not (S <= p < E)]
    if v.type == 'Insertion':
        if s not in P: return ('intronic-anchor', s)
        i = P.index(s)
        return P[:i+1] + list(range(int(v.attrs['DONOR_START']), int(v.attrs['DONOR_END']))) + P[i+1:]
    if v.type == 'Substitution':
        S, E = int(v.attrs['START']), int(v.attrs['END'])
        if S not in P or (E-1) not in P: return ('intronic-endpoint', S, E)
        i = P.index(S); j = P.index(E-1)
        return P[:i] + list(range(int(v.attrs['DONOR_START']), int(v.attrs['DONOR_END']))) + P[j+1:]
    return ('unknown', v.type)
stats = {'records':0, 'ok':0, 'bad':0, 'none_emitted_expected':0, 'missing':0, 'exc':0}
shown = 0
for trial in range(1500):
    strand = random.choice([1,-1])
    k = random.randint(3,5)
    while True:
        pts = sorted(random.sample(range(12, 88), 2*k)); ex = [(pts[2*i], pts[2*i+1]) for i in range(k)]
        if all(ex[i][1] + 1 < ex[i+1][0] for i in range(k-1)): break
    mid = random.randint(1, k-2)               # the skipped exon, needs both neighbours
    inc = ex; skp = ex[:mid] + ex[mid+1:]
    which = random.choice(['inc', 'skp', 'both'])
    txs = {'inc': [('Tinc', inc)], 'skp': [('Tskp', skp)], 'both': [('Tinc', inc), ('Tskp', skp)]}[which]
    ag = {'gene_id':'G','gene_name':'S'}
    def at(t): return {'transcript_id':t,'gene_id':'G','protein_id':'P'+t,'gene_name':'S'}
    data = {'genes':[{'gene_id':'G','chrom':'chr1','strand':strand,'gene':(10,90,ag),'transcripts':[t for t,_ in txs]}],
            'transcripts':[{'transcript_id':t,'chrom':'chr1','strand':strand,'transcript':(e[0][0],e[-1][1],at(t)),'exon':[(a,b,at(t)) for a,b in e]} for t,e in txs]}
    anno = create_genomic_annotation(data)
    chrom = ''.join(random.choice('ACGT') for _ in range(100)); genome = create_dna_record_dict({'chr1':chrom})
    U, E, D = ex[mid-1], ex[mid], ex[mid+1]
    rec = SERecord('G','S','chr1', E[0], E[1], U[0], U[1], D[0], D[1], 10, 10, None, None, 1, 1, None, None)
    try:
        vs = rec.convert_to_variant_records(anno, genome, 1, 1)
    except Exception as exn:
        stats['exc'] += 1
        if shown < 5: shown += 1; print('EXC', type(exn).__name__, exn, strand, which, ex, mid)
        continue
    def gpos(exons):
        g = [p for a,b in exons for p in range(a,b)]
        return [anno.coordinate_genomic_to_gene(p,'G') for p in (g if strand==1 else g[::-1])]
    forms = {'Tinc': (gpos(inc), gpos(skp)), 'Tskp': (gpos(skp), gpos(inc))}
    if which == 'both':
        if vs: stats['bad'] += 1; print('emitted although all junctions annotated', vs)
        else: stats['none_emitted_expected'] += 1
        continue
    t = txs[0][0]; cur, alt = forms[t]
    mine = [v for v in vs if v.attrs['TRANSCRIPT_ID'] == t]
    if not mine: stats['missing'] += 1
    for v in mine:
        stats['records'] += 1
        got = apply(cur, v)
        if got == alt: stats['ok'] += 1
        else:
            stats['bad'] += 1
            if shown < 8:
                shown += 1
                print('BAD', strand, which, 'exons', ex, 'mid', mid, v.type, int(v.location.start), int(v.location.end), {k_:v.attrs[k_] for k_ in v.attrs if k_ in ('START','END','DONOR_START','DONOR_END')}, '->', got if isinstance(got, tuple) else 'wrong isoform')
print(stats)
