import z3, time
I=z3.IntSort(); B=z3.BoolSort()
fixed=z3.Function('fixed',I,B); nf=z3.Function('nf',I,I)
seq=z3.Array('seq',I,I); NF=z3.Array('NF',I,I); out=z3.Array('out',I,I)
L,m,i,off,q,t,a,b=z3.Ints('L m i off q t a b')
ax=[nf(0)==0,
    z3.ForAll([q], z3.Implies(q>=0, nf(q+1)==nf(q)+z3.If(fixed(q),0,1)), patterns=[nf(q+1)]),
    z3.ForAll([q], z3.Implies(q>=0, nf(q+1)==nf(q)+z3.If(fixed(q),0,1)), patterns=[z3.MultiPattern(nf(q),fixed(q))]),
    m==nf(L), L>=0,
    z3.ForAll([q], z3.Implies(z3.And(0<=q,q<L,z3.Not(fixed(q))), NF[nf(q)]==q), patterns=[nf(q)]),
    z3.ForAll([t], z3.Implies(z3.And(0<=t,t<m), z3.And(0<=NF[t],NF[t]<L,z3.Not(fixed(NF[t])),nf(NF[t])==t)), patterns=[NF[t]]),
    # monotone lemma (proved separately by induction)
    z3.ForAll([a,b], z3.Implies(z3.And(0<=a,a<=b), z3.And(nf(a)<=nf(b), nf(b)-nf(a)<=b-a)), patterns=[z3.MultiPattern(nf(a),nf(b))]),
]
def spec(o,p): return z3.ForAll([q], z3.Implies(z3.And(0<=q,q<p), o[q]==z3.If(fixed(q),seq[q],seq[NF[m-1-nf(q)]])), patterns=[o[q]])
def inv(o,i,off): p=i+off; return z3.And(0<=i,i<=m,off>=0,p<=L,nf(p)==i,spec(o,p))
def prove(name,hyps,goal):
    s=z3.Solver(); s.set('timeout',20000); s.add(*ax,*hyps,z3.Not(goal))
    t0=time.time(); r=s.check(); print(name,'proved' if r==z3.unsat else r, round(time.time()-t0,3))
p=i+off
prove('init',[],inv(out,z3.IntVal(0),z3.IntVal(0)))
prove('p<L in loop',[inv(out,i,off),i<m],p<L)
prove('pres_fixed',[inv(out,i,off),i<m,fixed(p)],inv(z3.Store(out,p,seq[p]),i,off+1))
prove('pres_nonfixed',[inv(out,i,off),i<m,z3.Not(fixed(p))],inv(z3.Store(out,p,seq[NF[m-1-i]]),i+1,off))
prove('exit_tail_all_fixed',[inv(out,i,off),z3.Not(i<m),p<=q,q<L],fixed(q))
# involution
pi=lambda x: z3.If(fixed(x),x,NF[m-1-nf(x)])
prove('involution',[0<=q,q<L],z3.And(0<=pi(q),pi(q)<L,pi(pi(q))==q))
# monotone lemma induction step
s2=z3.Solver(); s2.add(ax[0],ax[1],ax[2]); 
