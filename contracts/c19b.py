"""C19 — what filterFasta asks of a header entry: its transcripts and its kind (VariantPeptideInfo helper methods).

Each helper re-parses the entry's own label and looks at the first identifier; the parser is under contract in contracts/c18.py
(ParseHeader), here its result is one identifier of one of the four classes."""
from __future__ import annotations
import types
import z3
from pyvc.contract import Contract, register
from pyvc.core import Unsupported, as_bool
from pyvc.values import *

VPL = 'moPepGen/aa/VariantPeptideLabel.py'
KINDS = ('BaseVariantPeptideIdentifier', 'CircRNAVariantPeptideIdentifier', 'FusionVariantPeptideIdentifier', 'NovelORFPeptideIdentifier')


class _CircId:
    """CIRC-<transcript>-<rest> / CI-<transcript>-<rest>"""
    def __init__(self, tx):
        self.tx = tx

    def sym_method(self, I, name, a, k):
        if name == 'split' and list(a) == ['-', 2]:
            return [OpaqueStr(['CIRC']), self.tx, OpaqueStr(['rest'])]
        raise Unsupported(f'circ id .{name}{tuple(a)!r}')


class _InfoHelper(Contract):
    props = ('C19',)
    method = 'get_transcript_ids'
    path = VPL
    assumptions = ('summary: parse_variant_peptide_id returns one identifier per entry (ParseHeader); the first / second transcript of a fusion id '
                   'are its two transcript fields (real properties executed on a FUSION-<tx1>:<pos>-<tx2>:<pos> structure)',)

    @property
    def qualname(self):
        return f'VariantPeptideInfo.{self.method}'

    def setup(self, I):
        e = I.e
        st = types.SimpleNamespace()
        st.kind = KINDS[e.choose(4, 'entry kind')]
        st.tx, st.tx2 = SymObj('TxName', n=1), SymObj('TxName', n=2)
        st.alt_splice = e.bool('some_variant_id_names_an_alternative_splicing_event')
        if st.kind == 'BaseVariantPeptideIdentifier':
            st.ident = SymObj(st.kind, transcript_id=st.tx, variant_ids=SymObj('VarIds19'), orf_id=None, index=1, gene_id=None)
        elif st.kind == 'CircRNAVariantPeptideIdentifier':
            st.ident = SymObj(st.kind, circ_rna_id=_CircId(st.tx), variant_ids=SymObj('VarIds19'), orf_id=None, index=1)
        elif st.kind == 'FusionVariantPeptideIdentifier':
            st.ident = SymObj(st.kind, fusion_id=SymObj('FusionId19'), first_variants=[], second_variants=[], peptide_variants=[], orf_id=None, index=1)
        else:
            st.ident = SymObj(st.kind, transcript_id=st.tx, gene_id=SymObj('GeneName'), codon_reassigns=[], orf_id=SymObj('Orf'), index=1, is_protein_coding=False)
        # the label text itself: it starts with FUSION- for a fusion entry, with CIRC- or CI- for a circRNA entry, with none of them otherwise
        st.is_ci = e.bool('circ_backbone_is_a_circular_intron')
        c = self

        class LabelText:
            def sym_method(s_, I2, name, a, k):
                if name == 'startswith' and len(a) == 1 and isinstance(a[0], (str, tuple)):
                    def one(p):
                        if p == 'FUSION-':
                            return z3.BoolVal(st.kind.startswith('Fusion'))
                        if p == 'CIRC-':
                            return z3.And(z3.BoolVal(st.kind.startswith('Circ')), z3.Not(st.is_ci))
                        if p == 'CI-':
                            return z3.And(z3.BoolVal(st.kind.startswith('Circ')), st.is_ci)
                        if p in ('FUSION', 'CIRC', 'CI'):
                            return one(p + '-') if p != 'CI' else z3.BoolVal(st.kind.startswith('Circ'))
                        raise Unsupported(f'label.startswith({p!r})')
                    ps = a[0] if isinstance(a[0], tuple) else (a[0],)
                    return z3.Or(*[one(p) for p in ps])
                raise Unsupported(f'label.{name}')
        st.label = LabelText()
        st.args = [SymObj('VariantPeptideInfo', original_label=st.label)]
        self._cur = st
        return st

    @property
    def models(self):
        c = self

        def inst(reg):
            def parse(I, a, k):
                st = c._cur
                I.e.prove('C19/info/own-label-parsed', a[0] is st.label)
                return [st.ident]
            reg.func_('moPepGen/aa/VariantPeptideIdentifier.py', 'parse_variant_peptide_id', parse)
            # fusion id FUSION-<tx1>:<p1>-<tx2>:<p2>: the real first_tx_id / second_tx_id properties run on this structure
            reg.method_('FusionId19', 'split', lambda I, o, a, k: (OpaqueStr(['FUSION']), SymObj('FusionPart19', tx=c._cur.tx), SymObj('FusionPart19', tx=c._cur.tx2))
                        if list(a) == ['-'] else (_ for _ in ()).throw(Unsupported('split')))
            reg.method_('FusionPart19', 'split', lambda I, o, a, k: [o.fields['tx'], OpaqueStr(['pos'])] if list(a) == [':'] else (_ for _ in ()).throw(Unsupported('split')))
            reg.method_('BaseVariantPeptideIdentifier', 'is_alternative_splicing', lambda I, o, a, k: c._cur.alt_splice)
        return (inst,)

    def post_return(self, I, st, ret):
        e, k = I.e, st.kind
        if self.method == 'get_transcript_ids':
            want = [st.tx, st.tx2] if k.startswith('Fusion') else [st.tx]
            e.prove(f'C19/info/transcripts-of-a-{k}', isinstance(ret, list) and len(ret) == len(want) and all(a is b for a, b in zip(ret, want)))
        elif self.method == 'is_fusion':
            e.prove('C19/info/is_fusion-iff-fusion-entry', as_bool(I.truth(ret)) == z3.BoolVal(k.startswith('Fusion')))
        elif self.method == 'is_circ_rna':
            e.prove('C19/info/is_circ_rna-iff-circRNA-entry', as_bool(I.truth(ret)) == z3.BoolVal(k.startswith('Circ')))
        else:
            e.prove('C19/info/is_splice_altering-iff-plain-variant-entry-naming-a-splicing-event',
                    as_bool(I.truth(ret)) == (st.alt_splice if k.startswith('Base') else z3.BoolVal(False)))


for _m in ('get_transcript_ids', 'is_fusion', 'is_circ_rna', 'is_splice_altering'):
    register(type(f'InfoHelper_{_m}', (_InfoHelper,), dict(method=_m)))

NATIVE = []


# ----------------------------------------------------------------------------
# which entries count as splice altering
# ----------------------------------------------------------------------------
VPI = 'moPepGen/aa/VariantPeptideIdentifier.py'
AS_TYPES = ['SE', 'A5SS', 'A3SS', 'RI', 'MXE']
I_, B_ = z3.IntSort(), z3.BoolSort()


class _IdTokens:
    """re.split('[-_]', id): the tokens of a variant id"""
    def __init__(self, owner, i):
        self.owner, self.i = owner, i

    def sym_contains(self, I, item):
        if item not in AS_TYPES:
            raise Unsupported(f'token test for {item!r}')
        return self.owner._cur.TOK(self.i, AS_TYPES.index(item))


class _VarId:
    def __init__(self, owner, i):
        self.owner, self.i = owner, i

    def sym_contains(self, I, item):
        # a substring test on the id: a different (weaker) relation than "is a token of the id"
        if item not in AS_TYPES:
            raise Unsupported(f'substring test for {item!r}')
        return self.owner._cur.SUB(self.i, AS_TYPES.index(item))

    def sym_method(self, I, name, a, k):
        if name in ('startswith', 'endswith'):
            # the id begins / ends with these letters: again weaker than "is a token of the id" (SECT-21 starts with SE)
            items = a[0] if isinstance(a[0], (tuple, list)) else (a[0],)
            if not all(x in AS_TYPES for x in items):
                raise Unsupported(f'{name} test for {a[0]!r}')
            rel = z3.Function(f'id_{name}', I_, I_, B_)
            return z3.Or(*[rel(self.i, AS_TYPES.index(x)) for x in items])
        raise Unsupported(f'variant id .{name}')


@register
class IsAlternativeSplicing(Contract):
    """an entry is splice altering iff one of its variant ids names an alternative splicing event, i.e. has SE, A5SS, A3SS, RI or MXE as
    one of its '-' / '_' separated tokens (the ids rMATS records get are <type>_<coordinates>); an id that merely contains these
    letters, such as SECT-<position>, does not count"""
    path, qualname, props = VPI, 'BaseVariantPeptideIdentifier.is_alternative_splicing', ('C19',)
    assumptions = ("assumed: re.split('[-_]', s) returns the maximal pieces of s between '-' and '_'",)

    def setup(self, I):
        e = I.e
        st = types.SimpleNamespace()
        st.n = e.int('n_variant_ids')
        e.assume(st.n >= 0)
        st.TOK, st.SUB = z3.Function('id_has_token', I_, I_, B_), z3.Function('id_has_substring', I_, I_, B_)
        i, y = z3.Ints('i_ax y_ax')
        e.assume(z3.ForAll([i, y], z3.Implies(st.TOK(i, y), st.SUB(i, y))))      # a token is a substring, not conversely
        zz = lambda j: j if is_z3(j) else z3.IntVal(j)
        ids = FnView(st.n, lambda j: _VarId(self, zz(j)), tag='variant_ids')
        st.args = [SymObj('BaseVariantPeptideIdentifier', transcript_id='T', variant_ids=ids, orf_id=None, index=1, gene_id=None)]
        self._cur = st
        return st

    @property
    def models(self):
        c = self

        def inst(reg):
            def re_split(I, a, k):
                if a[0] == '[-_]' and isinstance(a[1], _VarId):
                    return _IdTokens(c, a[1].i)
                raise Unsupported(f're.split{tuple(a)!r}')
            reg.ext_('re.split', re_split)
        return (inst,)

    def post_return(self, I, st, ret):
        i = z3.Int('i_post')
        want = z3.Exists([i], z3.And(0 <= i, i < st.n, z3.Or(*[st.TOK(i, y) for y in range(len(AS_TYPES))])))
        I.e.prove('C19/splice-altering-iff-some-variant-id-has-an-alternative-splicing-type-as-a-token', as_bool(I.truth(ret)) == want)


# ----------------------------------------------------------------------------
# the expression table
# ----------------------------------------------------------------------------
FFC = 'moPepGen/cli/filter_fasta.py'
from pyvc.interp import LoopSpec


class _Cell:
    def __init__(self, line, col):
        self.line, self.col = line, col

    def sym_float(self, I):
        return SymObj('FloatOfCell', line=self.line, col=self.col)


@register
class LoadExpressionTable(Contract):
    """every line of the table gives one entry: the transcript in column tx_col gets the value in column quant_col of the same line, split by
    the given delimiter (a transcript listed twice keeps the value of its last line); nothing else is stored"""
    path, qualname, props = FFC, 'load_expression_table', ('C19',)
    assumptions = ('assumed: iterating the handle yields the remaining lines; str.rstrip / split / float as in CPython',)

    def setup(self, I):
        e = I.e
        st = types.SimpleNamespace(sets=[])
        st.n = e.int('n_lines')
        e.assume(st.n >= 0)
        st.tx_col, st.q_col = e.int('tx_col'), e.int('quant_col')
        st.delim = SymObj('Delimiter')
        c = self
        zz = lambda i: i if is_z3(i) else z3.IntVal(i)

        class Fields:
            def __init__(s_, k):
                s_.k = k

            def sym_getitem(s_, I2, idx):
                return _Cell(s_.k, idx)

        class Line:
            def __init__(s_, k):
                s_.k = k

            def sym_method(s_, I2, name, a, kw):
                if name == 'rstrip' and not a:
                    return s_
                if name == 'split' and len(a) == 1:
                    I2.e.prove('C19/exprs/line-split-by-the-given-delimiter', a[0] is st.delim)
                    return Fields(s_.k)
                raise Unsupported(f'line.{name}')
        st.handle = FnView(st.n, lambda k: Line(zz(k)), tag='lines')
        st.args = [st.handle, st.tx_col, st.q_col, st.delim]
        self._cur = st
        return st

    @property
    def models(self):
        def inst(reg):
            reg.int_hooks.append(lambda v: (lambda I, v: SymObj('TruncatedFloat', of=v)) if isinstance(v, SymObj) and v.cls == 'FloatOfCell' else None)
        return (inst,)

    def havoc(self, I, env, k):
        c = self

        class Data:
            def sym_setitem(s_, I2, key, val):
                c._cur.sets.append((key, val))
        env['data'] = Data()
        self._cur.data = env['data']

    def head(self, I, env, k):
        self._cur.mark = len(self._cur.sets)

    def step(self, I, env, k):
        st = self._cur
        new = st.sets[st.mark:]
        ok = len(new) == 1 and isinstance(new[0][0], _Cell) and isinstance(new[0][1], SymObj) and new[0][1].cls == 'FloatOfCell'
        items = [('one-entry-per-line', ok)]
        if ok:
            key, val = new[0]
            items.append(('transcript-column-and-quantity-column-of-this-line',
                          z3.And(key.line == k, key.col == st.tx_col, val.fields['line'] == k, val.fields['col'] == st.q_col)))
        return items

    @property
    def loops(self):
        return {0: LoopSpec(inv=lambda I, env, k: [], havoc=self.havoc, on_head=self.head, step=self.step,
                            on_break=lambda I, env, k: [('every-line-of-the-table-is-read', False)])}

    def post_return(self, I, st, ret):
        I.e.prove('C19/exprs/returns-the-table-it-filled', ret is getattr(st, 'data', ret) or (isinstance(ret, dict) and not ret))
