"""C18 — where a variant's source comes from: LabelSourceMapping (gene -> variant id -> source) and PeptidePoolSplitter.load_gvf.

The map is modelled functionally: PG(g) "gene has an inner table", PI(g, i) "id i recorded for gene g", V(g, i) its source.
Representation invariant used as precondition and re-established by every operation: PI(g, i) implies PG(g)."""
from __future__ import annotations
import types
import z3
from pyvc.contract import Contract, register
from pyvc.core import Unsupported, as_bool
from pyvc.interp import LoopSpec, PyRaise
from pyvc.values import *

VPL = 'moPepGen/aa/VariantPeptideLabel.py'
SPL = 'moPepGen/aa/PeptidePoolSplitter.py'
I_, B_ = z3.IntSort(), z3.BoolSort()
GeneS, IdS, SrcS = z3.DeclareSort('Gene18c'), z3.DeclareSort('VarId18c'), z3.DeclareSort('Src18c')


class _Map:
    """state of LabelSourceMapping.data as three arrays"""
    def __init__(self, e, tag):
        self.PG = z3.Array(e.fresh_name(f'PG_{tag}'), GeneS, B_)
        self.PI = z3.Array(e.fresh_name(f'PI_{tag}'), GeneS, z3.ArraySort(IdS, B_))
        self.V = z3.Array(e.fresh_name(f'V_{tag}'), GeneS, z3.ArraySort(IdS, SrcS))

    def copy(self):
        m = object.__new__(_Map)
        m.PG, m.PI, m.V = self.PG, self.PI, self.V
        return m


class _Outer:
    def __init__(self, m):
        self.m = m

    def sym_contains(self, I, key):
        return self.m.PG[key.term]

    def sym_getitem(self, I, key):
        if not I.e.branch(self.m.PG[key.term], 'gene has a table'):
            I.raise_('KeyError', 'gene')
        return _Inner(self.m, key.term)

    def sym_setitem(self, I, key, val):
        if val != {}:
            raise Unsupported('data[gene] = something else than {}')
        g = key.term
        self.m.PG = z3.Store(self.m.PG, g, True)
        self.m.PI = z3.Store(self.m.PI, g, z3.K(IdS, False))


class _Inner:
    def __init__(self, m, g):
        self.m, self.g = m, g

    def sym_contains(self, I, key):
        return self.m.PI[self.g][key.term]

    def sym_getitem(self, I, key):
        if not I.e.branch(self.m.PI[self.g][key.term], 'id recorded'):
            I.raise_('KeyError', 'id')
        return _Val(self.m.V[self.g][key.term])

    def sym_setitem(self, I, key, val):
        i = key.term
        self.m.PI = z3.Store(self.m.PI, self.g, z3.Store(self.m.PI[self.g], i, True))
        self.m.V = z3.Store(self.m.V, self.g, z3.Store(self.m.V[self.g], i, val.term))


class _Val:
    """a gene id / variant id / source name (a non-empty string seen only through its identity)"""
    def __init__(self, term):
        self.term = term

    def sym_truth(self, I):
        return True

    def sym_str(self, I):
        return self


class _LabelMapOp(Contract):
    """first source wins: recording (gene, id, source) leaves an existing entry as it is and adds the entry otherwise; every other entry of
    the map is unchanged; get_source returns the recorded source and raises VariantSourceNotFoundError exactly when there is none"""
    props = ('C18',)
    op = 'add_variant'
    path = VPL

    @property
    def qualname(self):
        return f'LabelSourceMapping.{self.op}'

    @property
    def declared_raises(self):
        return ['VariantSourceNotFoundError'] if self.op == 'get_source' else []

    def setup(self, I):
        e = I.e
        st = types.SimpleNamespace()
        st.m = _Map(e, 'pre')
        st.pre = st.m.copy()
        st.g, st.i, st.src = e.const('gene', GeneS), e.const('variant_id', IdS), e.const('source', SrcS)
        g2, i2 = z3.Const('g_inv', GeneS), z3.Const('i_inv', IdS)
        e.assume(z3.ForAll([g2, i2], z3.Implies(st.pre.PI[g2][i2], st.pre.PG[g2])))
        obj = SymObj('LabelSourceMapping', data=_Outer(st.m))
        if self.op == 'add_variant':
            rec = SymObj('VariantRecord', location=SymObj('FeatureLocation', seqname=_Val(st.g)), id=_Val(st.i))
            st.args = [obj, rec, _Val(st.src)]
        elif self.op == 'add_circ_rna':
            rec = SymObj('CircRNAModel', gene_id=_Val(st.g), id=_Val(st.i))
            st.args = [obj, rec, _Val(st.src)]
        else:
            st.args = [obj, _Val(st.g), _Val(st.i)]
        self._cur = st
        return st

    def post_return(self, I, st, ret):
        e, m, p = I.e, st.m, st.pre
        g2, i2 = z3.Const('g_post', GeneS), z3.Const('i_post', IdS)
        had = p.PI[st.g][st.i]
        if self.op == 'get_source':
            e.prove('C18/label-map/get_source/returns-the-recorded-source', z3.And(had, ret.term == p.V[st.g][st.i]) if isinstance(ret, _Val) else False)
            return
        e.prove(f'C18/label-map/{self.op}/entry-present-afterwards-first-source-wins',
                z3.And(m.PI[st.g][st.i], m.PG[st.g], m.V[st.g][st.i] == z3.If(had, p.V[st.g][st.i], st.src)))
        other = z3.Or(g2 != st.g, i2 != st.i)
        e.prove(f'C18/label-map/{self.op}/every-other-entry-unchanged',
                z3.ForAll([g2, i2], z3.Implies(other, z3.And(m.PI[g2][i2] == p.PI[g2][i2], z3.Implies(p.PI[g2][i2], m.V[g2][i2] == p.V[g2][i2])))))
        e.prove(f'C18/label-map/{self.op}/representation-invariant-kept', z3.ForAll([g2, i2], z3.Implies(m.PI[g2][i2], m.PG[g2])))

    def post_raise(self, I, st, exc):
        p = st.pre
        I.e.prove('C18/label-map/get_source/raises-only-without-an-entry', z3.And(exc.cls == 'VariantSourceNotFoundError', z3.Not(p.PI[st.g][st.i])))


# the protocol the interpreter needs to treat the wrapped terms as keys
_Val.sym_eq = lambda self, I, other: self.term == other.term if isinstance(other, _Val) else False

for _op in ('add_variant', 'add_circ_rna', 'get_source'):
    register(type(f'LabelMap_{_op}', (_LabelMapOp,), dict(op=_op)))


@register
class LoadGvf(Contract):
    """load_gvf records every record of the GVF under the source named in the file's own metadata (circRNA records through add_circ_rna, all
    others through add_variant), after making sure that source has a place in the order"""
    path, qualname, props = SPL, 'PeptidePoolSplitter.load_gvf', ('C18',)
    assumptions = ('external: GVFMetadata.parse, seqvar.io.parse, circ.io.parse (the records of the file); append_order is inlined',)

    def setup(self, I):
        e = I.e
        st = types.SimpleNamespace(adds=[], appended=[])
        st.source = SymObj('SourceName')
        st.is_circ = e.branch(e.bool('parser_is_parseCIRCexplorer'), 'circ')
        st.meta = SymObj('GVFMetadata', source=st.source, parser='parseCIRCexplorer' if st.is_circ else 'parseVEP')
        st.handle = SymObj('Handle')
        st.known = e.bool('source_already_in_the_order')
        order = types.SimpleNamespace(sym_contains=lambda I2, item: st.known if item is st.source else (_ for _ in ()).throw(Unsupported('other key')))
        c = self

        class LM:
            def sym_method(s_, I2, name, a, k):
                st.adds.append((name, a))
                return None
        st.self = SymObj('PeptidePoolSplitter', order=order, label_map=LM())
        st.args = [st.self, st.handle]
        self._cur = st
        return st

    @property
    def models(self):
        c = self

        def inst(reg):
            def parse_meta(I, a, k):
                I.e.prove('C18/load_gvf/metadata-read-from-this-file', a[-1] is c._cur.handle)
                return c._cur.meta
            reg.method_('GVFMetadata', 'parse', lambda I, o, a, k: parse_meta(I, a, k))
            reg.func_('moPepGen/seqvar/GVFMetadata.py', 'GVFMetadata.parse', parse_meta)
            reg.method_('PeptidePoolSplitter', 'append_order', lambda I, o, a, k: c._cur.appended.append(a[0]))

            def records(kind):
                def h(I, a, k):
                    I.e.prove('C18/load_gvf/records-read-from-this-file', a[0] is c._cur.handle)
                    n = I.e.int('n_records')
                    I.e.assume(n >= 0)
                    return FnView(n, lambda i: SymObj('Rec18c', kind=kind, i=i if is_z3(i) else z3.IntVal(i)), tag='records')
                return h
            reg.func_('moPepGen/seqvar/io.py', 'parse', records('variant'))
            reg.func_('moPepGen/circ/io.py', 'parse', records('circ'))
            reg.ext_('seqvar.io.parse', records('variant'))
            reg.ext_('circ.io.parse', records('circ'))
        return (inst,)

    def head(self, I, env, k):
        self._cur.mark = len(self._cur.adds)

    def step(self, I, env, k):
        st = self._cur
        new = st.adds[st.mark:]
        want = 'add_circ_rna' if st.is_circ else 'add_variant'
        ok = len(new) == 1 and new[0][0] == want and len(new[0][1]) == 2 and isinstance(new[0][1][0], SymObj) and new[0][1][1] is st.source \
            and z3.is_true(z3.simplify(new[0][1][0].fields['i'] == k)) and new[0][1][0].fields['kind'] == ('circ' if st.is_circ else 'variant')
        return [('k-th-record-recorded-once-under-the-source-of-the-file', ok)]

    @property
    def loops(self):
        T = lambda I, env, k: []
        brk = lambda I, env, k: [('every-record-of-the-file-is-recorded', False)]
        return {0: LoopSpec(inv=T, on_head=self.head, step=self.step, on_break=brk), 1: LoopSpec(inv=T, on_head=self.head, step=self.step, on_break=brk)}

    def post_return(self, I, st, ret):
        I.e.prove('C18/load_gvf/source-gets-a-place-in-the-order-iff-it-had-none',
                  z3.BoolVal(len(st.appended) == 1 and st.appended[0] is st.source) == z3.Not(st.known) if len(st.appended) <= 1 else False)




# ----------------------------------------------------------------------------
# the priority order grows at the end only (append_order of the splitter and of the summarizer)
# ----------------------------------------------------------------------------
SUM = 'moPepGen/aa/PeptidePoolSummarizer.py'
RankS = z3.IntSort()


class _AppendOrder(Contract):
    """append_order(source): a source (or the group it belongs to) that already has a rank keeps it and nothing changes; otherwise exactly one
    entry is added - the group of the source if it is grouped, else the source itself - with a rank above every existing one; existing
    ranks are never touched (the rank a GVF source gets must not depend on how often or in which order its files are read)"""
    props = ('C18',)
    cls_name = 'PeptidePoolSplitter'

    @property
    def path(self):
        return SPL if self.cls_name == 'PeptidePoolSplitter' else SUM

    @property
    def qualname(self):
        return f'{self.cls_name}.append_order'

    def setup(self, I):
        e = I.e
        st = types.SimpleNamespace(writes=[], added=[])
        st.src = _Val(e.const('source', SrcS))
        st.has_rank = z3.Function('has_a_rank', SrcS, B_)
        st.rank = z3.Function('rank_of', SrcS, RankS)
        st.grouped = z3.Function('is_grouped', SrcS, B_)
        st.group = z3.Function('group_of', SrcS, SrcS)
        st.n = e.int('n_entries')
        e.assume(st.n >= 0)
        st.nonempty = st.n > 0
        st.R = e.array('existing_ranks')
        x = z3.Const('x_rank', SrcS)
        e.assume(z3.ForAll([x], z3.Implies(st.has_rank(x), st.nonempty)))
        c = self

        class Order:
            def sym_contains(s_, I2, key):
                return st.has_rank(key.term)

            def sym_setitem(s_, I2, key, val):
                st.writes.append((key, val))

            def sym_truth(s_, I2):
                return st.nonempty

            def sym_method(s_, I2, name, a, k):
                if name == 'values':
                    return FnView(st.n, lambda j: st.R[j if is_z3(j) else z3.IntVal(j)], tag='ranks')
                raise Unsupported(f'order.{name}')

        class Groups:
            def sym_contains(s_, I2, key):
                return st.grouped(key.term)

            def sym_getitem(s_, I2, key):
                return _Val(st.group(key.term))

            def sym_method(s_, I2, name, a, k):
                if name == 'get' and len(a) == 2:
                    return _Val(z3.If(st.grouped(a[0].term), st.group(a[0].term), a[1].term))
                raise Unsupported(f'group_map.{name}')

        class Sources:
            def sym_method(s_, I2, name, a, k):
                if name == 'add':
                    st.added.append(a[0])
                    return None
                raise Unsupported(name)
        st.args = [SymObj(self.cls_name, order=Order(), group_map=Groups(), sources=Sources()), st.src]
        self._cur = st
        return st

    def post_return(self, I, st, ret):
        e = I.e
        s = st.src.term
        eff = z3.If(st.grouped(s), st.group(s), s)
        known = z3.Or(st.has_rank(s), st.has_rank(eff))
        if not st.writes:
            e.prove('C18/append_order/unchanged-only-if-the-source-or-its-group-already-has-a-rank', known)
            return
        key, val = st.writes[0]
        e.prove('C18/append_order/exactly-one-entry-added-only-for-a-source-without-a-rank', z3.And(len(st.writes) == 1, z3.Not(known)))
        e.prove('C18/append_order/added-entry-is-the-group-of-a-grouped-source-else-the-source', key.term == eff)
        j = z3.Int('j_rank')
        e.prove('C18/append_order/new-rank-above-every-existing-rank',
                z3.ForAll([j], z3.Implies(z3.And(0 <= j, j < st.n), (val if is_z3(val) else z3.IntVal(val)) > st.R[j])) if is_z3(val) or isinstance(val, int) else False)


for _cn in ('PeptidePoolSplitter', 'PeptidePoolSummarizer'):
    register(type(f'AppendOrder_{_cn}', (_AppendOrder,), dict(cls_name=_cn)))

NATIVE = []
