"""C18 — where a variant's source comes from: LabelSourceMapping (gene -> variant id -> source) and PeptidePoolSplitter.load_gvf.

The map is modelled functionally: PG(g) "gene has an inner table", PI(g, i) "id i recorded for gene g", V(g, i) its source.
Representation invariant used as precondition and re-established by every operation: PI(g, i) implies PG(g)."""
from __future__ import annotations
import types
import z3
from pyvc.contract import Contract, register
from pyvc.core import Unsupported, as_bool
from pyvc.interp import LoopSpec, PyRaise
from pyvc.values import *

VPL = 'moPepGen/aa/VariantPeptideLabel.py'
SPL = 'moPepGen/aa/PeptidePoolSplitter.py'
I_, B_ = z3.IntSort(), z3.BoolSort()
GeneS, IdS, SrcS = z3.DeclareSort('Gene18c'), z3.DeclareSort('VarId18c'), z3.DeclareSort('Src18c')


class _Map:
    """state of LabelSourceMapping.data as three arrays"""
    def __init__(self, e, tag):
        self.PG = z3.Array(e.fresh_name(f'PG_{tag}'), GeneS, B_)
        self.PI = z3.Array(e.fresh_name(f'PI_{tag}'), GeneS, z3.ArraySort(IdS, B_))
        self.V = z3.Array(e.fresh_name(f'V_{tag}'), GeneS, z3.ArraySort(IdS, SrcS))

    def copy(self):
        m = object.__new__(_Map)
        m.PG, m.PI, m.V = self.PG, self.PI, self.V
        return m


class _Outer:
    def __init__(self, m):
        self.m = m

    def sym_contains(self, I, key):
        return self.m.PG[key.term]

    def sym_getitem(self, I, key):
        if not I.e.branch(self.m.PG[key.term], 'gene has a table'):
            I.raise_('KeyError', 'gene')
        return _Inner(self.m, key.term)

    def sym_setitem(self, I, key, val):
        if val != {}:
            raise Unsupported('data[gene] = something else than {}')
        g = key.term
        self.m.PG = z3.Store(self.m.PG, g, True)
        self.m.PI = z3.Store(self.m.PI, g, z3.K(IdS, False))


class _Inner:
    def __init__(self, m, g):
        self.m, self.g = m, g

    def sym_contains(self, I, key):
        return self.m.PI[self.g][key.term]

    def sym_getitem(self, I, key):
        if not I.e.branch(self.m.PI[self.g][key.term], 'id recorded'):
            I.raise_('KeyError', 'id')
        return _Val(self.m.V[self.g][key.term])

    def sym_setitem(self, I, key, val):
        i = key.term
        self.m.PI = z3.Store(self.m.PI, self.g, z3.Store(self.m.PI[self.g], i, True))
        self.m.V = z3.Store(self.m.V, self.g, z3.Store(self.m.V[self.g], i, val.term))


class _Val:
    """a gene id / variant id / source name (a non-empty string seen only through its identity)"""
    def __init__(self, term):
        self.term = term

    def sym_truth(self, I):
        return True

    def sym_str(self, I):
        return self


class _LabelMapOp(Contract):
    """first source wins: recording (gene, id, source) leaves an existing entry as it is and adds the entry otherwise; every other entry of
    the map is unchanged; get_source returns the recorded source and raises VariantSourceNotFoundError exactly when there is none"""
    props = ('C18',)
    op = 'add_variant'
    path = VPL

    @property
    def qualname(self):
        return f'LabelSourceMapping.{self.op}'

    @property
    def declared_raises(self):
        return ['VariantSourceNotFoundError'] if self.op == 'get_source' else []

    def setup(self, I):
        e = I.e
        st = types.SimpleNamespace()
        st.m = _Map(e, 'pre')
        st.pre = st.m.copy()
        st.g, st.i, st.src = e.const('gene', GeneS), e.const('variant_id', IdS), e.const('source', SrcS)
        g2, i2 = z3.Const('g_inv', GeneS), z3.Const('i_inv', IdS)
        e.assume(z3.ForAll([g2, i2], z3.Implies(st.pre.PI[g2][i2], st.pre.PG[g2])))
        obj = SymObj('LabelSourceMapping', data=_Outer(st.m))
        if self.op == 'add_variant':
            rec = SymObj('VariantRecord', location=SymObj('FeatureLocation', seqname=_Val(st.g)), id=_Val(st.i))
            st.args = [obj, rec, _Val(st.src)]
        elif self.op == 'add_circ_rna':
            rec = SymObj('CircRNAModel', gene_id=_Val(st.g), id=_Val(st.i))
            st.args = [obj, rec, _Val(st.src)]
        else:
            st.args = [obj, _Val(st.g), _Val(st.i)]
        self._cur = st
        return st

    def post_return(self, I, st, ret):
        e, m, p = I.e, st.m, st.pre
        g2, i2 = z3.Const('g_post', GeneS), z3.Const('i_post', IdS)
        had = p.PI[st.g][st.i]
        if self.op == 'get_source':
            e.prove('C18/label-map/get_source/returns-the-recorded-source', z3.And(had, ret.term == p.V[st.g][st.i]) if isinstance(ret, _Val) else False)
            return
        e.prove(f'C18/label-map/{self.op}/entry-present-afterwards-first-source-wins',
                z3.And(m.PI[st.g][st.i], m.PG[st.g], m.V[st.g][st.i] == z3.If(had, p.V[st.g][st.i], st.src)))
        other = z3.Or(g2 != st.g, i2 != st.i)
        e.prove(f'C18/label-map/{self.op}/every-other-entry-unchanged',
                z3.ForAll([g2, i2], z3.Implies(other, z3.And(m.PI[g2][i2] == p.PI[g2][i2], z3.Implies(p.PI[g2][i2], m.V[g2][i2] == p.V[g2][i2])))))
        e.prove(f'C18/label-map/{self.op}/representation-invariant-kept', z3.ForAll([g2, i2], z3.Implies(m.PI[g2][i2], m.PG[g2])))

    def post_raise(self, I, st, exc):
        p = st.pre
        I.e.prove('C18/label-map/get_source/raises-only-without-an-entry', z3.And(exc.cls == 'VariantSourceNotFoundError', z3.Not(p.PI[st.g][st.i])))


# the protocol the interpreter needs to treat the wrapped terms as keys
_Val.sym_eq = lambda self, I, other: self.term == other.term if isinstance(other, _Val) else False

for _op in ('add_variant', 'add_circ_rna', 'get_source'):
    register(type(f'LabelMap_{_op}', (_LabelMapOp,), dict(op=_op)))


@register
class LoadGvf(Contract):
    """load_gvf records every record of the GVF under the source named in the file's own metadata (circRNA records through add_circ_rna, all
    others through add_variant), after making sure that source has a place in the order"""
    path, qualname, props = SPL, 'PeptidePoolSplitter.load_gvf', ('C18',)
    assumptions = ('external: GVFMetadata.parse, seqvar.io.parse, circ.io.parse (the records of the file); append_order is inlined',)

    def setup(self, I):
        e = I.e
        st = types.SimpleNamespace(adds=[], appended=[])
        st.source = SymObj('SourceName')
        st.is_circ = e.branch(e.bool('parser_is_parseCIRCexplorer'), 'circ')
        st.meta = SymObj('GVFMetadata', source=st.source, parser='parseCIRCexplorer' if st.is_circ else 'parseVEP')
        st.handle = SymObj('Handle')
        st.known = e.bool('source_already_in_the_order')
        order = types.SimpleNamespace(sym_contains=lambda I2, item: st.known if item is st.source else (_ for _ in ()).throw(Unsupported('other key')))
        c = self

        class LM:
            def sym_method(s_, I2, name, a, k):
                st.adds.append((name, a))
                return None
        st.self = SymObj('PeptidePoolSplitter', order=order, label_map=LM())
        st.args = [st.self, st.handle]
        self._cur = st
        return st

    @property
    def models(self):
        c = self

        def inst(reg):
            def parse_meta(I, a, k):
                I.e.prove('C18/load_gvf/metadata-read-from-this-file', a[-1] is c._cur.handle)
                return c._cur.meta
            reg.method_('GVFMetadata', 'parse', lambda I, o, a, k: parse_meta(I, a, k))
            reg.func_('moPepGen/seqvar/GVFMetadata.py', 'GVFMetadata.parse', parse_meta)
            reg.method_('PeptidePoolSplitter', 'append_order', lambda I, o, a, k: c._cur.appended.append(a[0]))

            def records(kind):
                def h(I, a, k):
                    I.e.prove('C18/load_gvf/records-read-from-this-file', a[0] is c._cur.handle)
                    n = I.e.int('n_records')
                    I.e.assume(n >= 0)
                    return FnView(n, lambda i: SymObj('Rec18c', kind=kind, i=i if is_z3(i) else z3.IntVal(i)), tag='records')
                return h
            reg.func_('moPepGen/seqvar/io.py', 'parse', records('variant'))
            reg.func_('moPepGen/circ/io.py', 'parse', records('circ'))
            reg.ext_('seqvar.io.parse', records('variant'))
            reg.ext_('circ.io.parse', records('circ'))
        return (inst,)

    def head(self, I, env, k):
        self._cur.mark = len(self._cur.adds)

    def step(self, I, env, k):
        st = self._cur
        new = st.adds[st.mark:]
        want = 'add_circ_rna' if st.is_circ else 'add_variant'
        ok = len(new) == 1 and new[0][0] == want and len(new[0][1]) == 2 and isinstance(new[0][1][0], SymObj) and new[0][1][1] is st.source \
            and z3.is_true(z3.simplify(new[0][1][0].fields['i'] == k)) and new[0][1][0].fields['kind'] == ('circ' if st.is_circ else 'variant')
        return [('k-th-record-recorded-once-under-the-source-of-the-file', ok)]

    @property
    def loops(self):
        T = lambda I, env, k: []
        brk = lambda I, env, k: [('every-record-of-the-file-is-recorded', False)]
        return {0: LoopSpec(inv=T, on_head=self.head, step=self.step, on_break=brk), 1: LoopSpec(inv=T, on_head=self.head, step=self.step, on_break=brk)}

    def post_return(self, I, st, ret):
        I.e.prove('C18/load_gvf/source-gets-a-place-in-the-order-iff-it-had-none',
                  z3.BoolVal(len(st.appended) == 1 and st.appended[0] is st.source) == z3.Not(st.known) if len(st.appended) <= 1 else False)




# ----------------------------------------------------------------------------
# the priority order grows at the end only (append_order of the splitter and of the summarizer)
# ----------------------------------------------------------------------------
SUM = 'moPepGen/aa/PeptidePoolSummarizer.py'
RankS = z3.IntSort()


class _AppendOrder(Contract):
    """append_order(source): a source (or the group it belongs to) that already has a rank keeps it and nothing changes; otherwise exactly one
    entry is added - the group of the source if it is grouped, else the source itself - with a rank above every existing one; existing
    ranks are never touched (the rank a GVF source gets must not depend on how often or in which order its files are read)"""
    props = ('C18',)
    cls_name = 'PeptidePoolSplitter'

    @property
    def path(self):
        return SPL if self.cls_name == 'PeptidePoolSplitter' else SUM

    @property
    def qualname(self):
        return f'{self.cls_name}.append_order'

    def setup(self, I):
        e = I.e
        st = types.SimpleNamespace(writes=[], added=[])
        st.src = _Val(e.const('source', SrcS))
        st.has_rank = z3.Function('has_a_rank', SrcS, B_)
        st.rank = z3.Function('rank_of', SrcS, RankS)
        st.grouped = z3.Function('is_grouped', SrcS, B_)
        st.group = z3.Function('group_of', SrcS, SrcS)
        st.n = e.int('n_entries')
        e.assume(st.n >= 0)
        st.nonempty = st.n > 0
        st.R = e.array('existing_ranks')
        x = z3.Const('x_rank', SrcS)
        e.assume(z3.ForAll([x], z3.Implies(st.has_rank(x), st.nonempty)))
        c = self

        class Order:
            def sym_contains(s_, I2, key):
                return st.has_rank(key.term)

            def sym_setitem(s_, I2, key, val):
                st.writes.append((key, val))

            def sym_truth(s_, I2):
                return st.nonempty

            def sym_method(s_, I2, name, a, k):
                if name == 'values':
                    return FnView(st.n, lambda j: st.R[j if is_z3(j) else z3.IntVal(j)], tag='ranks')
                raise Unsupported(f'order.{name}')

        class Groups:
            def sym_contains(s_, I2, key):
                return st.grouped(key.term)

            def sym_getitem(s_, I2, key):
                return _Val(st.group(key.term))

            def sym_method(s_, I2, name, a, k):
                if name == 'get' and len(a) == 2:
                    return _Val(z3.If(st.grouped(a[0].term), st.group(a[0].term), a[1].term))
                raise Unsupported(f'group_map.{name}')

        class Sources:
            def sym_method(s_, I2, name, a, k):
                if name == 'add':
                    st.added.append(a[0])
                    return None
                raise Unsupported(name)
        st.args = [SymObj(self.cls_name, order=Order(), group_map=Groups(), sources=Sources()), st.src]
        self._cur = st
        return st

    def post_return(self, I, st, ret):
        e = I.e
        s = st.src.term
        eff = z3.If(st.grouped(s), st.group(s), s)
        known = z3.Or(st.has_rank(s), st.has_rank(eff))
        if not st.writes:
            e.prove('C18/append_order/unchanged-only-if-the-source-or-its-group-already-has-a-rank', known)
            return
        key, val = st.writes[0]
        e.prove('C18/append_order/exactly-one-entry-added-only-for-a-source-without-a-rank', z3.And(len(st.writes) == 1, z3.Not(known)))
        e.prove('C18/append_order/added-entry-is-the-group-of-a-grouped-source-else-the-source', key.term == eff)
        j = z3.Int('j_rank')
        e.prove('C18/append_order/new-rank-above-every-existing-rank',
                z3.ForAll([j], z3.Implies(z3.And(0 <= j, j < st.n), (val if is_z3(val) else z3.IntVal(val)) > st.R[j])) if is_z3(val) or isinstance(val, int) else False)


for _cn in ('PeptidePoolSplitter', 'PeptidePoolSummarizer'):
    register(type(f'AppendOrder_{_cn}', (_AppendOrder,), dict(cls_name=_cn)))

# ----------------------------------------------------------------------------
# the level numbers of a source set (what VariantSourceSet.__gt__ compares)
# ----------------------------------------------------------------------------
class _Levels18:
    """list(source_int): only sorted afterwards"""
    def __init__(self, src):
        self.src, self.sorted = src, False

    def sym_method(self, I, name, a, k):
        if name == 'sort':
            self.sorted = not (a or k)
            return None
        raise Unsupported(f'levels.{name}')


@register
class ToInt(Contract):
    """to_int() (default sort=True) returns, sorted ascending, the level number of the set as a whole when the order names it as one entry
    (a group / combination), otherwise the level numbers of all its members - the assumption the contract of __gt__ rests on"""
    path, qualname, props = 'moPepGen/aa/VariantPeptideLabel.py', 'VariantSourceSet.to_int', ('C18',)
    assumptions = ('assumed: distinct members have distinct level numbers (the set comprehension is read as a list); list.sort() sorts integers ascending; '
                   'every member of the set is a source the order knows (a member without a level raises KeyError: not modelled)',)

    def setup(self, I):
        e = I.e
        st = types.SimpleNamespace(made=[])
        st.n = e.int('n_members')
        e.assume(st.n >= 0)
        st.Lv = z3.Function('level_of_member', z3.IntSort(), z3.IntSort())
        st.whole = e.int('level_of_the_whole_set')
        st.has_whole = e.bool('order_names_the_whole_set')
        zz = lambda i: i if is_z3(i) else z3.IntVal(i)
        c = self

        class Map:
            def sym_getitem(s_, I2, key):
                if key is st.key_whole:
                    if I2.e.branch(st.has_whole, 'whole set has a level'):
                        return st.whole
                    I2.raise_('KeyError', 'frozenset')
                if isinstance(key, SymObj) and key.cls == 'Src18':
                    return st.Lv(key.fields['i'])
                raise Unsupported(f'levels_map[{key!r}]')

        st.members = FnView(st.n, lambda i: SymObj('Src18', i=zz(i)), tag='members of the source set')
        st.key_whole = SymObj('WholeSet18')
        st.self = SymObj('VariantSourceSet', levels_map=Map(), levels=[])
        st.args = [st.self]
        st.kwargs = dict(sort=True) if e.branch(e.bool('sort_given'), 'sort=True given') else {}
        self._cur = st
        return st

    @property
    def models(self):
        c = self

        def inst(reg):
            reg.set_hooks.append(lambda v: (lambda I, v: c._cur.key_whole) if v is c._cur.self or v is c._cur.members else None)
            reg.protocol_('VariantSourceSet', '__iter__', lambda I, o: c._cur.members)

            def list_hook(I, a, k):
                l = _Levels18(a[0])
                c._cur.made.append(l)
                return l
            reg.list_hook = list_hook
        return (inst,)

    def post_return(self, I, st, ret):
        e = I.e
        ok = isinstance(ret, _Levels18)
        e.prove('C18/to_int/a-list-sorted-after-it-was-made', ok and ret.sorted)
        if not ok:
            return
        src = ret.src
        if isinstance(src, (set, frozenset, list)):
            items = list(src)
            e.prove('C18/to_int/the-level-of-the-whole-set-alone-when-the-order-names-it', z3.And(st.has_whole, items[0] == st.whole) if len(items) == 1 else False)
        else:
            k = z3.Int('k_member')
            good = isinstance(src, View)
            e.prove('C18/to_int/otherwise-the-levels-of-all-members',
                    z3.And(z3.Not(st.has_whole), src.length() == st.n, z3.ForAll([k], z3.Implies(z3.And(0 <= k, k < st.n), src.get(k) == st.Lv(k)))) if good else False)


# ----------------------------------------------------------------------------
# mergeFasta --dedup-header
# ----------------------------------------------------------------------------
VPP18 = 'moPepGen/aa/VariantPeptidePool.py'


class _Entry18:
    def __init__(self, owner, i):
        self.owner, self.i = owner, i

    def sym_method(self, I, name, a, k):
        if name == 'rsplit' and list(a) == ['|', 1]:
            # [everything before the last '|', the index behind it]
            return [SymObj('UKey18', code=self.owner._cur.KEY(self.i)), SymObj('Idx18', of=self.i)]
        raise Unsupported(f'entry.{name}{tuple(a)}')


class _Kept18:
    """entries = {}: unversioned key -> the first entry with that key (the keys seen before entry k are a spec function of k)"""
    def __init__(self, owner):
        self.owner = owner

    def sym_contains(self, I, key):
        st = self.owner._cur
        if not (isinstance(key, SymObj) and key.cls == 'UKey18'):
            # looked up under something else than the text before the index: a key under which nothing was stored by a correct run
            I.e.prove('C18/dedup/entries-are-looked-up-under-their-text-before-the-index', False)
            return I.e.bool('found_under_another_key')
        return st.SEEN(st.k, key.fields['code'])

    def sym_setitem(self, I, key, v):
        self.owner._cur.log.append(('store', key, v))

    def sym_method(self, I, name, a, k):
        if name == 'values':
            return SymObj('KeptValues18')
        raise Unsupported(f'entries.{name}')


@register
class RemoveRedundantHeaders(Contract):
    """--dedup-header: of the header entries of a peptide exactly those are kept that are the first with their text before the last '|'
    (the entry without its index), in their order; the new header joins them with the delimiter the old one was split on and becomes
    description, id and name; no entry is dropped unless an earlier entry of the same peptide says the same"""
    path, qualname, props = VPP18, 'VariantPeptidePool.remove_redundant_headers', ('C18',)
    assumptions = ("assumed: str.split / str.join with the pool's delimiter are inverse on header entries; entry.rsplit('|', 1) separates the index",
                   'the dictionary of kept entries is read as the spec predicate SEEN(k, x): some entry before entry k was stored under the text x')

    def setup(self, I):
        e = I.e
        st = types.SimpleNamespace(log=[], k=z3.IntVal(0))
        st.np, st.n = e.int('n_peptides'), e.int('n_entries')
        e.assume(z3.And(st.np >= 0, st.n >= 1))
        st.KEY = z3.Function('unversioned_text_of_entry', z3.IntSort(), z3.IntSort())
        st.SEEN = z3.Function('text_seen_before_entry', z3.IntSort(), z3.IntSort(), z3.BoolSort())
        # SEEN(k, x) stands for "some entry before entry k has the text x"; its defining equations are not needed for the per-entry
        # obligations, so it stays uninterpreted and a wrong body is refuted with a model
        zz = lambda i: i if is_z3(i) else z3.IntVal(i)
        st.entries = FnView(st.n, lambda i: _Entry18(self, zz(i)), tag='header entries')
        st.delim = SymObj('Delim18')
        c = self

        class Desc:
            def sym_method(s_, I2, name, a, k):
                if name == 'split' and a and a[0] is st.delim:
                    return st.entries
                raise Unsupported(f'description.{name}')
        st.peptide = SymObj('Peptide18', description=Desc(), id=None, name=None)
        st.pool = SymObj('VariantPeptidePool', peptides=FnView(st.np, lambda i: st.peptide, tag='peptides'), peptide_delimeter=st.delim)
        st.args = [st.pool]
        self._cur = st
        return st

    @property
    def models(self):
        c = self

        def inst(reg):
            reg.method_('Delim18', 'join', lambda I, o, a, k: SymObj('Header18', of=a[0]))
            for nm in ('description', 'id', 'name'):
                reg._setattr[('Peptide18', nm)] = (lambda nm: lambda I, o, v: c._cur.log.append(('set', nm, v)))(nm)
        return (inst,)

    # loop 0: peptides; loop 1: entries of one peptide
    def havoc0(self, I, env, k):
        pass

    def head0(self, I, env, k):
        self._cur.mark0 = len(self._cur.log)

    def step0(self, I, env, k):
        st = self._cur
        sets = [x for x in st.log[st.mark0:] if x[0] == 'set']
        ok = sorted(x[1] for x in sets) == ['description', 'id', 'name'] and all(isinstance(x[2], SymObj) and x[2].cls == 'Header18' and isinstance(x[2].fields['of'], SymObj)
                                                                                  and x[2].fields['of'].cls == 'KeptValues18' for x in sets)
        return [('description-id-and-name-become-the-kept-entries-joined-with-the-delimiter', ok)]

    def havoc1(self, I, env, k):
        env['entries'] = _Kept18(self)
        self._cur.k = k

    def head1(self, I, env, k):
        self._cur.mark1 = len(self._cur.log)
        self._cur.k = k

    def step1(self, I, env, k):
        st = self._cur
        stores = [x for x in st.log[st.mark1:] if x[0] == 'store']
        first = z3.Not(st.SEEN(k, st.KEY(k)))
        if not stores:
            return [('an-entry-is-dropped-only-if-an-earlier-one-has-the-same-text-before-the-index', z3.Not(first))]
        ok = len(stores) == 1 and isinstance(stores[0][2], _Entry18) and isinstance(stores[0][1], SymObj) and stores[0][1].cls == 'UKey18'
        return [('the-first-entry-with-a-text-is-kept-under-that-text', z3.And(first, stores[0][2].i == k, stores[0][1].fields['code'] == st.KEY(k)) if ok else False)]

    @property
    def loops(self):
        U = dict(target_after='unknown')
        return {0: LoopSpec(inv=lambda I, env, k: [], havoc=self.havoc0, on_head=self.head0, step=self.step0,
                            on_break=lambda I, env, k: [('every-peptide-is-visited', False)], on_exit=lambda I, env, n: [('all-peptides-were-visited', n == self._cur.np)], **U),
                1: LoopSpec(inv=lambda I, env, k: [], havoc=self.havoc1, on_head=self.head1, step=self.step1,
                            on_break=lambda I, env, k: [('every-entry-is-visited', False)], on_exit=lambda I, env, n: [('all-entries-were-visited', n == self._cur.n)], **U)}


# ----------------------------------------------------------------------------
# the sources a splitter knows (what wildcard entries of --order-source expand over)
# ----------------------------------------------------------------------------
SPL18 = 'moPepGen/aa/PeptidePoolSplitter.py'


class _OrderEnt18:
    """one key of the order: a plain source name (a str) or a combination (a frozenset of names, possibly with a wildcard character)"""
    def __init__(self, owner, i):
        self.owner, self.i = owner, i

    def sym_isinstance(self, I, name):
        if name == 'str':
            return self.owner._cur.plain(self.i)
        if name == 'frozenset':
            return z3.Not(self.owner._cur.plain(self.i))
        return False

    def sym_view(self, I):
        # iterating a combination gives its parts; iterating a plain name gives its characters
        st = self.owner._cur
        zz = lambda j: j if is_z3(j) else z3.IntVal(j)
        return FnView(I.e.int('n_elements'), lambda j: SymObj('ElemOf18', ent=self.i, j=zz(j)), tag='elements of an order entry')


@register
class SplitterSources(Contract):
    """PeptidePoolSplitter(order=...) without an explicit source set: the sources are exactly those the order names - a plain entry counts as
    that source itself, a combination contributes each of its parts that is not a wildcard character. (Wildcard entries expand over this
    set, so a source missing from it is invisible to every X-* / X-+ entry.)"""
    path, qualname, props = SPL18, 'PeptidePoolSplitter.__init__', ('C18',)

    def setup(self, I):
        e = I.e
        st = types.SimpleNamespace(log=[])
        st.n = e.int('n_order_entries')
        e.assume(st.n >= 0)
        st.plain = z3.Function('entry_is_a_plain_source_name', z3.IntSort(), z3.BoolSort())
        zz = lambda i: i if is_z3(i) else z3.IntVal(i)
        c = self

        class Order:
            def sym_view(s_, I2):
                return FnView(st.n, lambda i: _OrderEnt18(c, zz(i)), tag='keys of the order')

            def sym_truth(s_, I2):
                return st.n > 0
        st.order = Order()
        st.args = [SymObj('PeptidePoolSplitter')]
        st.kwargs = dict(order=st.order)
        self._cur = st
        return st

    @property
    def models(self):
        c = self

        def inst(reg):
            class Sources:
                def sym_method(s_, I, name, a, k):
                    if name in ('add', 'update'):
                        c._cur.log.append((name, a[0]))
                        return None
                    raise Unsupported(f'sources.{name}')
            reg.empty_set_hook = lambda I: Sources()
            reg.ctor_('LabelSourceMapping', lambda I, a, k: SymObj('LabelSourceMapping'))

            def comp(I, node, env, view, kind):
                from pyvc.interp import Env
                from pyvc.core import as_bool
                g = node.generators[0]
                if kind == 'list' and isinstance(view, FnView) and view.tag == 'elements of an order entry':
                    j = z3.Int('j_elem')
                    el = view.get(j)
                    sub = Env({}, env)
                    I.assign(g.target, el, sub)
                    keep = I.eval(node.elt, sub)
                    conds = [I.eval(x, sub) for x in g.ifs]
                    ok = keep is el and len(conds) == 1
                    return SymObj('ElementsKept18', ent=el.fields['ent'], wildcards_dropped=ok and conds[0] is not None, cond=conds[0] if conds else None)
                return None
            reg.comprehension_hooks.append(comp)
            # `s not in ['+', '*']` on an element of an entry
            reg.protocol_('ElemOf18', '__eq__', lambda I, a, b: z3.Function('element_is_character', z3.IntSort(), z3.IntSort(), z3.IntSort(), z3.BoolSort())(a.fields['ent'], a.fields['j'], ord(b)) if isinstance(b, str) and len(b) == 1 else False)
        return (inst,)

    def head(self, I, env, k):
        self._cur.mark = len(self._cur.log)

    def step(self, I, env, k):
        st = self._cur
        new = st.log[st.mark:]
        if len(new) != 1:
            return [('every-order-entry-contributes-once', False)]
        what, v = new[0]
        if what == 'add':
            return [('a-plain-entry-is-a-source-itself', z3.And(st.plain(k), v.i == k) if isinstance(v, _OrderEnt18) else False)]
        good = isinstance(v, SymObj) and v.cls == 'ElementsKept18' and v.fields['wildcards_dropped']
        return [('the-parts-of-a-combination-are-sources-its-wildcard-characters-are-not-and-a-plain-name-is-never-taken-apart', z3.And(z3.Not(st.plain(k)), v.fields['ent'] == k) if good else False)]

    @property
    def loops(self):
        return {0: LoopSpec(inv=lambda I, env, k: [], havoc=lambda I, env, k: None, on_head=self.head, step=self.step, target_after='unknown',
                            on_break=lambda I, env, k: [('every-order-entry-is-visited', False)],
                            on_exit=lambda I, env, n: [('all-order-entries-were-visited', n == self._cur.n)])}


NATIVE = []


# ----------------------------------------------------------------------------
# the databases reach the disk: one file per database, named after its own key; loading several input FASTAs
# ----------------------------------------------------------------------------
class _DbKey18:
    """the key of database i (opaque text)"""
    def __init__(self, i):
        self.i = i

    def sym_str(self, I):
        return self


class _PrefixName18:
    def sym_str(self, I):
        return self


class _DbItems18:
    """databases.items(): pairs (key k, database k) for k < n; keys are distinct (dict)"""
    def __init__(self, st):
        self.st = st

    def sym_method(self, I, name, a, k):
        if name == 'items' and not a:
            zz = lambda i: i if is_z3(i) else z3.IntVal(i)
            return FnView(self.st.n, lambda i: (_DbKey18(zz(i)), SymObj('Database18', i=zz(i))), tag='databases')
        raise Unsupported(f'databases.{name}')


class _Dir18:
    def __init__(self, st):
        self.st = st

    def sym_method(self, I, name, a, k):
        if name == 'mkdir':
            self.st.log.append(('mkdir', None, dict(k)))
            return None
        raise Unsupported(f'output_dir.{name}')

    def sym_binop(self, I, op, other, swapped=False):
        if op == '/' and not swapped:
            return SymObj('OutPath18', name=other)
        raise Unsupported('path arithmetic')


@register
class SplitterWrite(Contract):
    """PeptidePoolSplitter.write(output_prefix): the directory of the prefix is made if missing (an existing one is fine); every database is written exactly
    once, to <directory>/<name of the prefix>_<its own key>.fasta - a file name that contains the key of that database and of no other - and nothing else is
    written"""
    path, qualname, props = SPL18, 'PeptidePoolSplitter.write', ('C18',)
    assumptions = ('assumed: pathlib.Path(prefix).parent / .name split the prefix into directory and file-name part; an f-string containing the key is injective in the key',)

    def setup(self, I):
        st = types.SimpleNamespace(log=[])
        st.n = I.e.int('n_databases')
        I.e.assume(st.n >= 0)
        st.prefix_name = _PrefixName18()
        st.splitter = SymObj('PeptidePoolSplitter', databases=_DbItems18(st), peptides=None, order={}, label_map=None, group_map={}, sources=set())
        st.args = [st.splitter, OpaqueStr(['out/prefix'])]
        self._cur = st
        return st

    @property
    def models(self):
        c = self

        def inst(reg):
            reg.ctor_('Path', lambda I, a, k: SymObj('PathOf18', parent=_Dir18(c._cur), name=c._cur.prefix_name))
            reg.ext_('pathlib.Path', lambda I, a, k: SymObj('PathOf18', parent=_Dir18(c._cur), name=c._cur.prefix_name))
            reg.method_('Database18', 'write', lambda I, o, a, k: c._cur.log.append(('write', o, a[0] if a else None)))
        return (inst,)

    def head(self, I, env, k):
        self._cur.mark = len(self._cur.log)

    def step(self, I, env, k):
        st = self._cur
        new = st.log[st.mark:]
        ok = len(new) == 1 and new[0][0] == 'write' and isinstance(new[0][2], SymObj) and new[0][2].cls == 'OutPath18'
        if not ok:
            return [('database-k-written-once', False)]
        _, db, path = new[0]
        nm = path.fields['name']
        parts = list(nm.parts) if isinstance(nm, OpaqueStr) else []
        keys = [p for p in parts if isinstance(p, _DbKey18)]
        texts = ''.join(p for p in parts if isinstance(p, str))
        return [('database-k-is-the-one-written', db.fields['i'] == k),
                ('its-file-name-contains-its-own-key-and-no-other-and-ends-with-.fasta', z3.And(keys[0].i == k, z3.BoolVal(len(keys) == 1 and texts.endswith('.fasta'))) if keys else z3.BoolVal(False))]

    @property
    def loops(self):
        return {0: LoopSpec(inv=lambda I, env, k: [], on_head=self.head, step=self.step, target_after='unknown',
                            on_break=lambda I, env, k: [('every-database-is-visited', False)],
                            on_exit=lambda I, env, n: [('all-databases-were-written', n == self._cur.n)])}

    def post_return(self, I, st, ret):
        mk = [x for x in st.log if x[0] == 'mkdir']
        I.e.prove('C18/write/the-directory-is-made-once-and-an-existing-one-is-accepted', z3.BoolVal(len(mk) == 1 and mk[0][2].get('exist_ok') is True and st.log and st.log[0][0] == 'mkdir'))


class _LoadDatabase(Contract):
    """PeptidePoolSplitter.load_database(handle): the first FASTA loaded becomes the pool as it is; of every further FASTA each peptide is added to the
    pool exactly once, in file order, without any size / canonical filtering (skip_checking) - so the pool is the union of the input files, equal sequences
    merged by add_peptide (under its own contract)"""
    path, qualname, props = SPL18, 'PeptidePoolSplitter.load_database', ('C18',)
    first = True

    def name(self):
        return f'{self.path}:{self.qualname}[{"first file" if self.first else "a further file"}]'

    def setup(self, I):
        st = types.SimpleNamespace(log=[])
        st.n = I.e.int('n_peptides_in_the_file')
        I.e.assume(st.n >= 0)
        zz = lambda i: i if is_z3(i) else z3.IntVal(i)
        st.loaded = SymObj('LoadedPool18', peptides=FnView(st.n, lambda i: SymObj('Pep18', i=zz(i)), tag='peptides of the file'))
        st.old = None if self.first else SymObj('OldPool18')
        st.handle = SymObj('Handle18')
        st.splitter = SymObj('PeptidePoolSplitter', databases={}, peptides=st.old, order={}, label_map=None, group_map={}, sources=set())
        st.args = [st.splitter, st.handle]
        self._cur = st
        return st

    @property
    def models(self):
        c = self

        def inst(reg):
            def load(I, a, k):
                c._cur.log.append(('load', a[-1] if a else None, None))
                return c._cur.loaded
            reg.method_('VariantPeptidePool', 'load', lambda I, o, a, k: load(I, a, k))
            reg.func_(VPP18, 'VariantPeptidePool.load', load)
            reg.method_('OldPool18', 'add_peptide', lambda I, o, a, k: c._cur.log.append(('add', list(a), dict(k))))
            reg.protocol_('OldPool18', '__bool__', lambda I, o: True)
            reg.protocol_('OldPool18', '__len__', lambda I, o: I.e.int('old_pool_size'))
        return (inst,)

    def head(self, I, env, k):
        self._cur.mark = len(self._cur.log)

    def step(self, I, env, k):
        st = self._cur
        new = st.log[st.mark:]
        ok = len(new) == 1 and new[0][0] == 'add' and new[0][1] and isinstance(new[0][1][0], SymObj) and new[0][1][0].cls == 'Pep18'
        if not ok:
            return [('peptide-k-added-once', False)]
        a, kw = new[0][1], new[0][2]
        skip = kw.get('skip_checking', a[2] if len(a) > 2 else False)
        return [('peptide-k-added-once', a[0].fields['i'] == k), ('added-without-filtering', z3.BoolVal(skip is True))]

    @property
    def loops(self):
        return {0: LoopSpec(inv=lambda I, env, k: [], on_head=self.head, step=self.step, target_after='unknown',
                            on_break=lambda I, env, k: [('every-peptide-is-visited', False)],
                            on_exit=lambda I, env, n: [('all-peptides-of-the-file-were-added', n == self._cur.n)])}

    def post_return(self, I, st, ret):
        loads = [x for x in st.log if x[0] == 'load']
        I.e.prove('C18/load_database/the-given-handle-is-loaded-once', z3.BoolVal(len(loads) == 1 and loads[0][1] is st.handle))
        now = st.splitter.fields['peptides']
        if self.first:
            I.e.prove('C18/load_database/the-first-file-becomes-the-pool', z3.BoolVal(now is st.loaded and not [x for x in st.log if x[0] == 'add']))
        else:
            I.e.prove('C18/load_database/the-pool-of-the-earlier-files-is-kept', z3.BoolVal(now is st.old))


register(type('LoadDatabaseFirst', (_LoadDatabase,), dict(first=True, __doc__=_LoadDatabase.__doc__)))
register(type('LoadDatabaseFurther', (_LoadDatabase,), dict(first=False, __doc__=_LoadDatabase.__doc__)))


# ----------------------------------------------------------------------------
# a peptide pool to and from a FASTA file (every FASTA tool reads and writes through these two)
# ----------------------------------------------------------------------------
@register
class PoolWrite(Contract):
    """VariantPeptidePool.write(path): the file at the given path is opened for writing; every peptide of the pool is handed to the FASTA writer exactly
    once, and the title the writer prints for a record is its description (the full header with every entry)"""
    path, qualname, props = VPP18, 'VariantPeptidePool.write', ('C18', 'C19', 'C04')
    assumptions = ('assumed: Bio.SeqIO.FastaIO.FastaWriter.write_record prints one record as >title and the sequence; iterating the peptide set visits every peptide once',)

    def setup(self, I):
        st = types.SimpleNamespace(log=[])
        st.n = I.e.int('n_peptides')
        I.e.assume(st.n >= 0)
        zz = lambda i: i if is_z3(i) else z3.IntVal(i)
        st.pool = SymObj('VariantPeptidePool', peptides=FnView(st.n, lambda i: SymObj('Pep18w', i=zz(i), description=SymObj('Header18w', i=zz(i)), id=SymObj('FirstWord18w', i=zz(i)), name=SymObj('FirstWord18w', i=zz(i))), tag='peptides of the pool'))
        st.target = SymObj('OutPath18w')
        st.args = [st.pool, st.target]
        self._cur = st
        return st

    @property
    def models(self):
        c = self

        def inst(reg):
            def open_(I, a, k):
                c._cur.log.append(('open', a[0], a[1] if len(a) > 1 else k.get('mode', 'r')))
                return SymObj('File18w')
            reg.ext_('open', open_)
            reg.method_('File18w', '__enter__', lambda I, o, a, k: o)
            reg.method_('File18w', '__exit__', lambda I, o, a, k: None)

            def writer(I, a, k):
                c._cur.log.append(('writer', a[0] if a else k.get('handle'), k.get('record2title')))
                return SymObj('Writer18w')
            for nm in ('Bio.SeqIO.FastaIO.FastaWriter', 'FastaIO.FastaWriter', 'Bio.SeqIO.FastaWriter'):
                reg.ext_(nm, writer)
            reg.ctor_('FastaWriter', writer)
            reg.method_('Writer18w', 'write_record', lambda I, o, a, k: c._cur.log.append(('record', a[0], None)))
        return (inst,)

    def head(self, I, env, k):
        self._cur.mark = len(self._cur.log)

    def step(self, I, env, k):
        st = self._cur
        new = st.log[st.mark:]
        ok = len(new) == 1 and new[0][0] == 'record' and isinstance(new[0][1], SymObj) and new[0][1].cls == 'Pep18w'
        return [('peptide-k-handed-to-the-writer-once', new[0][1].fields['i'] == k if ok else False)]

    @property
    def loops(self):
        return {0: LoopSpec(inv=lambda I, env, k: [], on_head=self.head, step=self.step, target_after='unknown',
                            on_break=lambda I, env, k: [('every-peptide-is-visited', False)],
                            on_exit=lambda I, env, n: [('all-peptides-were-written', n == self._cur.n)])}

    def post_return(self, I, st, ret):
        e = I.e
        opens = [x for x in st.log if x[0] == 'open']
        ws = [x for x in st.log if x[0] == 'writer']
        e.prove('C18/pool-write/the-given-path-is-opened-once-for-writing', z3.BoolVal(len(opens) == 1 and opens[0][1] is st.target and opens[0][2] in ('w', 'wt')))
        ok = len(ws) == 1 and isinstance(ws[0][1], SymObj) and ws[0][1].cls == 'File18w' and ws[0][2] is not None
        title = None
        if ok:
            probe = SymObj('Pep18w', i=z3.IntVal(0), description=SymObj('Header18w', i=z3.IntVal(0)), id=SymObj('FirstWord18w', i=z3.IntVal(0)), name=SymObj('FirstWord18w', i=z3.IntVal(0)))
            title = I.call(ws[0][2], [probe], {})
        e.prove('C18/pool-write/one-writer-on-that-file-whose-title-is-the-description-of-the-record',
                z3.BoolVal(bool(ok and isinstance(title, SymObj) and title.cls == 'Header18w')))


class _PepSet18:
    def __init__(self, st):
        self.st = st

    def sym_method(self, I, name, a, k):
        if name == 'add' and len(a) == 1:
            r = a[0]
            self.st.log.append(('add', r, dict(r.fields) if isinstance(r, SymObj) else None))
            return None
        raise Unsupported(f'peptides.{name}')


@register
class PoolLoad(Contract):
    """VariantPeptidePool.load(handle): every record SeqIO.parse reads from the handle (FASTA format) is added to a fresh pool exactly once, as an
    AminoAcidSeqRecord whose id and name are its full description (the header with every entry, not only its first word); the pool is returned"""
    path, qualname, props = VPP18, 'VariantPeptidePool.load', ('C18', 'C19', 'C04')
    assumptions = ('assumed: Bio.SeqIO.parse(handle, fasta) yields one record per FASTA entry with the whole header line as description',)

    def setup(self, I):
        st = types.SimpleNamespace(log=[])
        st.n = I.e.int('n_records')
        I.e.assume(st.n >= 0)
        zz = lambda i: i if is_z3(i) else z3.IntVal(i)
        st.records = FnView(st.n, lambda i: SymObj('SeqRecord18l', i=zz(i), description=SymObj('Header18l', i=zz(i)), id=SymObj('FirstWord18l', i=zz(i)), name=SymObj('FirstWord18l', i=zz(i))), tag='records of the FASTA')
        st.handle = SymObj('Handle18l')
        st.args = [ClassRef('VariantPeptidePool', I.repo.get_class('VariantPeptidePool')), st.handle]
        self._cur = st
        return st

    @property
    def models(self):
        c = self

        def inst(reg):
            def parse(I, a, k):
                c._cur.log.append(('parse', a[0] if a else None, a[1] if len(a) > 1 else k.get('format')))
                return c._cur.records
            reg.ext_('Bio.SeqIO.parse', parse)
            reg.ext_('SeqIO.parse', parse)
            reg.ctor_('VariantPeptidePool', lambda I, a, k: SymObj('VariantPeptidePool', peptides=_PepSet18(c._cur)) if not a and not k else (_ for _ in ()).throw(Unsupported('pool with arguments')))
        return (inst,)

    def head(self, I, env, k):
        self._cur.mark = len(self._cur.log)

    def step(self, I, env, k):
        st = self._cur
        new = st.log[st.mark:]
        ok = len(new) == 1 and new[0][0] == 'add' and isinstance(new[0][1], SymObj) and 'i' in new[0][1].fields
        if not ok:
            return [('record-k-added-once', False)]
        f = new[0][2]
        hdr = lambda v: isinstance(v, SymObj) and v.cls == 'Header18l' and z3.eq(z3.simplify(v.fields['i']), z3.simplify(k if is_z3(k) else z3.IntVal(k)))
        cls = f.get('__class__')
        return [('record-k-added-once', new[0][1].fields['i'] == k),
                ('id-and-name-are-the-whole-header', z3.BoolVal(bool(hdr(f.get('id')) and hdr(f.get('name')) and hdr(f.get('description'))))),
                ('added-as-an-AminoAcidSeqRecord', z3.BoolVal(getattr(cls, 'name', None) == 'AminoAcidSeqRecord'))]

    @property
    def loops(self):
        return {0: LoopSpec(inv=lambda I, env, k: [], on_head=self.head, step=self.step, target_after='unknown',
                            on_break=lambda I, env, k: [('every-record-is-visited', False)],
                            on_exit=lambda I, env, n: [('all-records-were-added', n == self._cur.n)])}

    def post_return(self, I, st, ret):
        ps = [x for x in st.log if x[0] == 'parse']
        I.e.prove('C18/pool-load/the-handle-is-parsed-once-as-FASTA-and-the-filled-pool-returned',
                  z3.BoolVal(len(ps) == 1 and ps[0][1] is st.handle and ps[0][2] == 'fasta' and isinstance(ret, SymObj) and isinstance(ret.fields.get('peptides'), _PepSet18)))


# ----------------------------------------------------------------------------
# the labels summarizeFasta reads from a GVF file
# ----------------------------------------------------------------------------
from . import tables as T18


@register
class ParseLabel(Contract):
    """seqvar.io.parse_label(handle): every line that does not start with '#' yields exactly one triple, in file order: the gene id (column 1), the
    TRANSCRIPT_ID attribute of the attribute column (column 8, read with parse_attrs) and the variant label (column 3) of that very line"""
    path, qualname, props = 'moPepGen/seqvar/io.py', 'parse_label', ('C18',)
    assumptions = ('assumed: every record line of a GVF file has its eight tab-separated columns, none empty (the writer emits them so); parse_attrs is the attribute reader of the C13 round trip',)

    def setup(self, I):
        st = types.SimpleNamespace(yielded=[])
        st.tab = T18.Table(I, 8, 'GVF_file')
        st.args = [st.tab.file]
        if T18.first_loop_kind(I, self.path, self.qualname) != 'for':
            raise Unsupported('the reader is not written as `for line in handle` (this contract follows that form)')
        self._cur = st
        return st

    @property
    def models(self):
        c = self

        def inst(reg):
            class Attrs:
                def __init__(s_, field):
                    s_.field = field

                def sym_getitem(s_, I, key):
                    return ('attribute', key, s_.field)
            reg.func_('moPepGen/seqvar/io.py', 'parse_attrs', lambda I, a, k: Attrs(a[0]))
            reg.on_yield = lambda I, frame, v: c._cur.yielded.append(v)
        return (inst,)

    def head(self, I, env, k):
        self._cur.mark = len(self._cur.yielded)

    def step(self, I, env, k):
        st = self._cur
        new = st.yielded[st.mark:]
        if not new:
            return [('a-line-yields-nothing-only-as-a-comment', st.tab.comment(T18.zz(k)))]
        ok = len(new) == 1 and isinstance(new[0], tuple) and len(new[0]) == 3
        if not ok:
            return [('one-triple-per-record-line', False)]
        g, t, lab = new[0]
        cv = T18.check_value
        okt = isinstance(t, tuple) and len(t) == 3 and t[0] == 'attribute' and t[1] == 'TRANSCRIPT_ID' and cv(t[2], k, 7, 'text')
        return [('a-comment-line-yields-nothing', z3.Not(st.tab.comment(T18.zz(k)))),
                ('gene-id-is-column-1-label-is-column-3-of-this-line', z3.BoolVal(bool(cv(g, k, 0, 'text') and cv(lab, k, 2, 'text')))),
                ('transcript-is-the-TRANSCRIPT_ID-attribute-of-column-8-of-this-line', z3.BoolVal(bool(okt)))]

    @property
    def loops(self):
        return {0: LoopSpec(inv=lambda I, env, k: [], on_head=self.head, step=self.step, target_after='unknown',
                            on_break=lambda I, env, k: [('every-line-is-visited', False)],
                            on_exit=lambda I, env, n: [('all-lines-were-visited', n == self._cur.tab.n)])}
