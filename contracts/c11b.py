"""C11 — the feature lists of a transcript model are sorted when loading is finished (TranscriptAnnotationModel.sort_records).

Every coordinate function of C11 assumes sorted exon / CDS / UTR lists; this is the function that establishes it."""
from __future__ import annotations
import types
import z3
from pyvc.contract import Contract, register
from pyvc.core import Unsupported, as_bool
from pyvc.interp import LoopSpec
from pyvc.values import *

TAM = 'moPepGen/gtf/TranscriptAnnotationModel.py'
LISTS = ('cds', 'exon', 'start_codon', 'stop_codon', 'utr', 'three_utr', 'five_utr', 'selenocysteine')


class _FeatureList:
    """one feature list of the model: what matters is whether it was modified after its last sort()"""
    def __init__(self, owner, name, n):
        self.owner, self.name, self.n = owner, name, n
        self.sorted_now = False

    def sym_method(self, I, name, a, k):
        if name == 'sort':
            self.owner._cur.log.append(('sort', self.name, bool(a or k)))
            self.sorted_now = not (a or k)
            return None
        if name == 'append':
            self.owner._cur.log.append(('append', self.name, a[0]))
            self.sorted_now = False
            return None
        raise Unsupported(f'{self.name}.{name}')

    def sym_truth(self, I):
        return self.n > 0

    def sym_view(self, I):
        nm = self.name
        return FnView(self.n, lambda i: SymObj('Feature11', of=nm, i=i if is_z3(i) else z3.IntVal(i)), tag=nm)

    def sym_getitem(self, I, idx):
        return SymObj('Feature11', of=self.name, i=idx)


@register
class SortRecords(Contract):
    """after sort_records every feature list of the transcript (CDS, exons, start / stop codons, UTRs, 5' and 3' UTRs, selenocysteines)
    has been sorted by its own natural order after its last modification: in particular the 5' / 3' UTR lists that split_utr fills are
    sorted afterwards, whatever the order of the UTR records in the GTF; every UTR record goes to exactly one of the two lists"""
    path, qualname, props = TAM, 'TranscriptAnnotationModel.sort_records', ('C11',)
    declared_raises = ['ValueError']
    assumptions = ('assumed: list.sort() orders GTF features by location (SeqFeature ordering); the comparison of a UTR record with the first / last '
                   'CDS record is an uninterpreted predicate',)

    def setup(self, I):
        e = I.e
        st = types.SimpleNamespace(log=[])
        st.n = {nm: e.int(f'n_{nm}') for nm in LISTS}
        for v in st.n.values():
            e.assume(v >= 0)
        st.lists = {nm: _FeatureList(self, nm, st.n[nm]) for nm in LISTS}
        st.strand = e.int('strand')
        st.before = z3.Function('utr_before_first_cds', z3.IntSort(), z3.BoolSort())
        st.after = z3.Function('utr_after_last_cds', z3.IntSort(), z3.BoolSort())
        st.args = [SymObj('TranscriptAnnotationModel', transcript=SymObj('Tx11', strand=st.strand, transcript_id='ENST_T'), **st.lists)]
        self._cur = st
        return st

    @property
    def models(self):
        c = self

        def inst(reg):
            def lt(I, a, b):
                return c._cur.before(a.fields['i']) if isinstance(b, SymObj) and b.fields.get('of') == 'cds' else (_ for _ in ()).throw(Unsupported('<'))

            def gt(I, a, b):
                return c._cur.after(a.fields['i']) if isinstance(b, SymObj) and b.fields.get('of') == 'cds' else (_ for _ in ()).throw(Unsupported('>'))
            reg.protocol_('Feature11', '__lt__', lt)
            reg.protocol_('Feature11', '__gt__', gt)
            # the loop over the UTR records lives in split_utr, which is executed inline
            reg.loops_(TAM, 'TranscriptAnnotationModel.split_utr', c.utr_loops())
        return (inst,)

    def head(self, I, env, k):
        self._cur.mark = len(self._cur.log)

    def step(self, I, env, k):
        st = self._cur
        new = [x for x in st.log[st.mark:] if x[0] == 'append']
        ok = len(new) == 1 and new[0][1] in ('five_utr', 'three_utr') and isinstance(new[0][2], SymObj) and new[0][2].fields.get('of') == 'utr'
        items = [('every-utr-record-goes-to-exactly-one-of-the-two-lists', ok)]
        if ok:
            five = z3.Or(z3.And(st.strand == 1, st.before(k)), z3.And(st.strand == -1, st.after(k)))
            items.append(('five-prime-iff-upstream-of-the-cds-in-transcript-direction', z3.And(new[0][2].fields['i'] == k, z3.BoolVal(new[0][1] == 'five_utr') == five)))
        return items

    def utr_loops(self):
        return {0: LoopSpec(inv=lambda I, env, k: [], on_head=self.head, step=self.step, target_after='unknown',
                            on_break=lambda I, env, k: [('every-utr-record-is-distributed', False)],
                            on_exit=lambda I, env, n: [('all-utr-records-were-visited', n == self._cur.n['utr'])])}

    def post_return(self, I, st, ret):
        e = I.e
        for nm in LISTS:
            e.prove(f'C11/sort_records/{nm}-sorted-after-its-last-modification', st.lists[nm].sorted_now)
        e.prove('C11/sort_records/cds-sorted-before-the-utr-records-are-compared-with-it',
                [x[:2] for x in st.log].index(('sort', 'cds')) < min([i for i, x in enumerate(st.log) if x[0] == 'append'] + [len(st.log)]))

    def post_raise(self, I, st, exc):
        I.e.prove('C11/sort_records/raise/only-for-utr-records-without-cds', z3.And(exc.cls == 'ValueError', st.n['utr'] > 0, st.n['cds'] == 0))


GAM = 'moPepGen/gtf/GeneAnnotationModel.py'


@register
class GeneSequence(Contract):
    """get_gene_sequence(chrom): the bases of the chromosome from the gene start to the gene end, read in the direction of the gene:
    position i of the result is chrom[start + i] on the + strand and the complement of chrom[end - 1 - i] on the - strand; the length is
    end - start; the one location of the record says [0, length) of this gene. An unstranded gene is refused"""
    path, qualname, props = GAM, 'GeneAnnotationModel.get_gene_sequence', ('C11', 'C14', 'C15', 'C16')      # the REF bases of the parsers are read from this sequence
    declared_raises = ['ValueError']
    assumptions = ('assumed: Bio.Seq slicing / reverse_complement = Python str semantics with a complement involution; gene inside the chromosome; '
                   'the record constructor stores its arguments',)

    @property
    def models(self):
        from .c14 import install_seq_models
        return (install_seq_models,)

    def setup(self, I):
        from pyvc.pstr import PStr
        e = I.e
        st = types.SimpleNamespace()
        st.L = e.int('chrom_len')
        st.a, st.b, st.strand = e.int('gene_start'), e.int('gene_end'), e.int('gene_strand')
        e.assume(z3.And(0 <= st.a, st.a < st.b, st.b <= st.L))
        st.C = PStr.sym(e, 'chrom', st.L)
        loc = SymObj('FeatureLocation', start=st.a, end=st.b, strand=st.strand, seqname='chr1', reading_frame_index=None, start_offset=0, end_offset=0, ref=None, ref_db=None)
        st.gene = SymObj('GeneAnnotationModel', location=loc, chrom='chr1', attributes={'gene_id': 'ENSG_G'}, type='gene', id='ENSG_G', qualifiers={}, source='GENCODE',
                         frame=None, transcripts=[], exons=[], strand=st.strand, gene_id='ENSG_G')
        st.args = [st.gene, SymObj('DNASeqRecord', seq=st.C, id='chr1', name='chr1', description='chr1')]
        self._cur = st
        return st

    def post_return(self, I, st, ret):
        from pyvc.pstr import PStr, cmpl
        e = I.e
        seq = ret.fields['seq']
        ok = isinstance(seq, PStr)
        i = z3.Int('i_g')
        n = st.b - st.a
        e.prove('C11/gene-sequence/length=gene-length', (seq.length() if is_z3(seq.length()) else z3.IntVal(seq.length())) == n if ok else False)
        e.prove('C11/gene-sequence/base-i=chromosome-base-read-in-gene-direction',
                z3.ForAll([i], z3.Implies(z3.And(0 <= i, i < n), seq.get(i) == z3.If(st.strand == 1, st.C.get(st.a + i), cmpl(st.C.get(st.b - 1 - i))))) if ok else False)
        locs = ret.fields['locations']
        good = isinstance(locs, list) and len(locs) == 1
        if good:
            q, r = locs[0].fields['query'], locs[0].fields['ref']
            e.prove('C11/gene-sequence/one-location-0-to-length-on-this-gene',
                    z3.And(q.fields['start'] == 0, q.fields['end'] == n, r.fields['start'] == 0, r.fields['end'] == n) if r.fields['seqname'] == 'ENSG_G' else False)
        else:
            e.prove('C11/gene-sequence/one-location-0-to-length-on-this-gene', False)

    def post_raise(self, I, st, exc):
        I.e.prove('C11/gene-sequence/raise/only-for-an-unstranded-gene', z3.And(exc.cls == 'ValueError', st.strand != 1, st.strand != -1))


NATIVE = []
