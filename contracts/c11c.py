"""C11 — loading one entity of the annotation through its pointer: exactly the bytes of the pointer are read and every line of them is used."""
from __future__ import annotations
import types
import z3
from pyvc.contract import Contract, register
from pyvc.core import Unsupported, as_bool
from pyvc.interp import LoopSpec
from pyvc.values import *

GTP = 'moPepGen/gtf/GTFPointer.py'
I_, B_ = z3.IntSort(), z3.BoolSort()


def zz(i):
    return i if is_z3(i) else z3.IntVal(i)


class _Handle11c:
    """a binary file handle: a cursor; read(n) returns the n bytes at the cursor"""
    def __init__(self, st):
        self.st = st
        self.cur = st.cur0

    def sym_method(self, I, name, a, k):
        if name == 'tell':
            return self.cur
        if name == 'seek':
            whence = a[1] if len(a) > 1 else k.get('whence', 0)
            if whence == 1:
                self.cur = self.cur + a[0]
            elif whence == 0:
                self.cur = a[0]
            else:
                raise Unsupported('seek from the end')
            return self.cur
        if name == 'read' and len(a) == 1:
            self.st.reads.append((self.cur, a[0]))
            blk = _Block11c(self.st, 'bytes')
            self.cur = self.cur + a[0]
            return blk
        raise Unsupported(f'handle.{name}')


class _Block11c:
    """the bytes read: m lines separated by line feeds, the last one followed by a line feed (the index records whole lines)"""
    def __init__(self, st, stage):
        self.st, self.stage = st, stage

    def sym_method(self, I, name, a, k):
        if name == 'decode' and self.stage == 'bytes':
            return _Block11c(self.st, 'text')
        if name in ('rstrip', 'strip') and self.stage == 'text' and not a:
            return _Block11c(self.st, 'stripped')
        if name == 'split' and list(a) == ['\n'] and self.stage == 'stripped':
            return FnView(self.st.m, lambda j: SymObj('GtfLine11c', j=zz(j)), tag='lines of the entity')
        if name == 'split' and list(a) == ['\n'] and self.stage == 'text':
            return FnView(self.st.m + 1, lambda j: SymObj('GtfLine11c', j=zz(j)), tag='lines of the entity and an empty piece')
        raise Unsupported(f'block.{name} at stage {self.stage}')


class _Feature11c:
    """record.type.lower() of line j"""
    def __init__(self, st, j):
        self.st, self.j = st, j

    def sym_method(self, I, name, a, k):
        if name == 'lower' and not a:
            return self
        raise Unsupported(f'feature.{name}')


class _FeatureTypes11c:
    def __init__(self, contract):
        self.contract = contract

    def sym_contains(self, I, v):
        if isinstance(v, _Feature11c):
            return self.contract._cur.known(zz(v.j))
        raise Unsupported('GTF_FEATURE_TYPES membership of another value')


class _Key11c:
    """the key of the pointer (a transcript / gene id)"""
    def sym_eq(self, I, other):
        if other is self:
            return True
        if isinstance(other, _TxId11c):
            return other.sym_eq(I, self)
        raise Unsupported('pointer key compared with another value')

    def sym_str(self, I):
        return self


class _TxId11c:
    def __init__(self, st, j):
        self.st, self.j = st, j

    def sym_eq(self, I, other):
        if other is self.st.key:
            return self.st.mine(self.j)
        raise Unsupported('transcript id compared with another value')


@register
class TranscriptPointerLoad(Contract):
    """TranscriptPointer.load(): exactly the bytes [start, end) of the annotation file are read, wherever the handle stood before; every line of them
    is parsed; a line of a known feature type that names this transcript is added to the model once, under its feature type, with the transcript id
    as its id, in file order; a line of an unknown feature type is passed over; a line naming another transcript is a ValueError; the records are
    sorted after the last one was added and the model is returned"""
    path, qualname, props = GTP, 'TranscriptPointer.load', ('C11',)
    declared_raises = ['ValueError']
    assumptions = ('assumed: the bytes of a pointer are whole lines, the last one ending with a line feed; GtfIO.line_to_seq_feature is the external line parser',)

    def setup(self, I):
        e = I.e
        st = types.SimpleNamespace(reads=[], log=[])
        st.cur0, st.start, st.end, st.m = e.int('handle_position_before'), e.int('pointer_start'), e.int('pointer_end'), e.int('n_lines')
        e.assume(z3.And(st.cur0 >= 0, st.start >= 0, st.end > st.start, st.m >= 1))
        st.known = z3.Function('feature_type_is_known', I_, B_)
        st.mine = z3.Function('line_names_this_transcript', I_, B_)
        st.key = _Key11c()
        st.handle = _Handle11c(st)
        st.ptr = SymObj('TranscriptPointer', handle=st.handle, key=st.key, start=st.start, end=st.end, source='GENCODE', is_protein_coding=None)
        st.args = [st.ptr]
        self._cur = st
        return st

    @property
    def models(self):
        c = self

        def inst(reg):
            def parse_line(I, a, k):
                ln = a[0]
                if not (isinstance(ln, SymObj) and ln.cls == 'GtfLine11c'):
                    raise Unsupported('line_to_seq_feature of something that is not a line of the block')
                j = ln.fields['j']
                return SymObj('GtfRecord11c', j=j, type=_Feature11c(c._cur, j), transcript_id=_TxId11c(c._cur, j), id=None)
            reg.func_('moPepGen/gtf/GtfIO.py', 'line_to_seq_feature', parse_line)
            reg.ext_('moPepGen.gtf.GtfIO.line_to_seq_feature', parse_line)
            reg.global_(GTP, 'GTF_FEATURE_TYPES', _FeatureTypes11c(c))
            reg.ctor_('TranscriptAnnotationModel', lambda I, a, k: SymObj('TxModel11c'))
            reg.method_('TxModel11c', 'add_record', lambda I, o, a, k: c._cur.log.append(('add', a[0], a[1], a[1].fields.get('id') if isinstance(a[1], SymObj) else None)))
            reg.method_('TxModel11c', 'sort_records', lambda I, o, a, k: c._cur.log.append(('sort', None, None, None)))
        return (inst,)

    def head(self, I, env, k):
        self._cur.mark = len(self._cur.log)
        self._cur.k = k

    def step(self, I, env, k):
        st = self._cur
        new = st.log[st.mark:]
        if not new:
            return [('a-line-is-passed-over-only-for-an-unknown-feature-type', z3.Not(st.known(k)))]
        ok = len(new) == 1 and new[0][0] == 'add' and isinstance(new[0][1], _Feature11c) and isinstance(new[0][2], SymObj) and new[0][2].cls == 'GtfRecord11c'
        if not ok:
            return [('one-record-per-line', False)]
        _, feat, rec, rid = new[0]
        return [('line-k-is-added-under-its-own-feature-type-only-if-known-and-naming-this-transcript',
                 z3.And(zz(feat.j) == k, rec.fields['j'] == k, st.known(k), st.mine(k))),
                ('the-record-carries-the-transcript-id-as-its-id', z3.BoolVal(rid is not None and (rid is st.key or isinstance(rid, _TxId11c))))]

    @property
    def loops(self):
        return {0: LoopSpec(inv=lambda I, env, k: [], on_head=self.head, step=self.step, target_after='unknown',
                            on_break=lambda I, env, k: [('every-line-is-visited', False)],
                            on_exit=lambda I, env, n: [('all-lines-of-the-pointer-were-visited', n == self._cur.m)])}

    def reads_ok(self, I, st):
        ok = len(st.reads) == 1
        I.e.prove('C11/tx-load/exactly-the-bytes-of-the-pointer-are-read-once', z3.And(st.reads[0][0] == st.start, st.reads[0][1] == st.end - st.start) if ok else z3.BoolVal(False))

    def post_return(self, I, st, ret):
        self.reads_ok(I, st)
        sorts = [i for i, x in enumerate(st.log) if x[0] == 'sort']
        I.e.prove('C11/tx-load/records-sorted-once-after-the-last-one-was-added-and-the-model-returned',
                  z3.BoolVal(len(sorts) == 1 and sorts[0] == len(st.log) - 1 and isinstance(ret, SymObj) and ret.cls == 'TxModel11c'))

    def post_raise(self, I, st, exc):
        self.reads_ok(I, st)
        k = getattr(st, 'k', None)
        I.e.prove('C11/tx-load/ValueError-only-for-a-known-line-that-names-another-transcript',
                  z3.And(st.known(k), z3.Not(st.mine(k))) if exc.cls == 'ValueError' and k is not None else z3.BoolVal(False))


@register
class GenePointerLoad(Contract):
    """GenePointer.load(): exactly the bytes [start, end) of the annotation file are read, wherever the handle stood before; they must be one line
    (more is a ValueError); the model is the record parsed from that line, turned into a gene model without exons, with the transcripts the pointer lists"""
    path, qualname, props = GTP, 'GenePointer.load', ('C11',)
    declared_raises = ['ValueError']
    assumptions = TranscriptPointerLoad.assumptions

    def setup(self, I):
        e = I.e
        st = types.SimpleNamespace(reads=[], log=[])
        st.cur0, st.start, st.end, st.m = e.int('handle_position_before'), e.int('pointer_start'), e.int('pointer_end'), e.int('n_lines')
        e.assume(z3.And(st.cur0 >= 0, st.start >= 0, st.end > st.start, st.m >= 1))
        st.key = _Key11c()
        st.handle = _Handle11c(st)
        st.txs = ['ENST_A', 'ENST_B']
        st.ptr = SymObj('GenePointer', handle=st.handle, key=st.key, start=st.start, end=st.end, source='GENCODE', transcripts=list(st.txs))
        st.args = [st.ptr]
        self._cur = st
        return st

    @property
    def models(self):
        c = self

        def inst(reg):
            def parse_line(I, a, k):
                ln = a[0]
                if not (isinstance(ln, SymObj) and ln.cls == 'GtfLine11c'):
                    raise Unsupported('line_to_seq_feature of something that is not a line of the block')
                return SymObj('GtfRecord11c', j=ln.fields['j'])
            reg.func_('moPepGen/gtf/GtfIO.py', 'line_to_seq_feature', parse_line)
            reg.ext_('moPepGen.gtf.GtfIO.line_to_seq_feature', parse_line)
        return (inst,)

    def post_return(self, I, st, ret):
        TranscriptPointerLoad.reads_ok(self, I, st)
        e = I.e
        ok = isinstance(ret, SymObj) and 'j' in ret.fields
        e.prove('C11/gene-load/the-model-is-the-record-of-the-single-line', z3.And(st.m == 1, ret.fields['j'] == 0) if ok else z3.BoolVal(False))
        cls = ret.fields.get('__class__') if ok else None
        e.prove('C11/gene-load/a-gene-model-without-exons-listing-the-transcripts-of-the-pointer',
                z3.BoolVal(bool(ok and getattr(cls, 'name', None) == 'GeneAnnotationModel' and ret.fields.get('exons') == [] and sorted(ret.fields.get('transcripts') or []) == sorted(st.txs))))

    def post_raise(self, I, st, exc):
        TranscriptPointerLoad.reads_ok(self, I, st)
        I.e.prove('C11/gene-load/ValueError-only-for-more-than-one-line', st.m > 1 if exc.cls == 'ValueError' else z3.BoolVal(False))


# ----------------------------------------------------------------------------
# reading the two index files of the annotation back into pointers
# ----------------------------------------------------------------------------
from . import tables as T11

GAD = 'moPepGen/gtf/GenomicAnnotationOnDisk.py'


class _PtrTable11c:
    def __init__(self, st, kind):
        self.st, self.kind = st, kind

    def sym_setitem(self, I, key, v):
        self.st.log.append(('store', self.kind, key, v))


@register
class OnDiskLoadIndex(Contract):
    """GenomicAnnotationOnDisk.load_index(file, source): the GTF handle is opened on the file; both index files named for it must exist (ValueError
    otherwise); every line of the gene index that is not a comment becomes exactly one GenePointer - key, start, end from columns 1-3 (numbers read as
    numbers), the transcripts the parts of column 4 at commas, the given source, the GTF handle - stored under its own key; every such line of the
    transcript index one TranscriptPointer likewise, with the coding status None / True / False as written in column 4; no line is skipped or read twice"""
    path, qualname, props = GAD, 'GenomicAnnotationOnDisk.load_index', ('C11',)
    declared_raises = ['ValueError', 'KeyError']
    assumptions = ('assumed: every index line has its four tab-separated columns, none empty (to_line writes them so); int() of a column is the number written there',)

    def setup(self, I):
        st = types.SimpleNamespace(log=[])
        st.gtab, st.ttab = T11.Table(I, 4, 'gene_index'), T11.Table(I, 4, 'transcript_index')
        st.gfile, st.tfile = SymObj('IdxFile11c', which='gene'), SymObj('IdxFile11c', which='tx')
        st.gexists, st.texists = I.e.bool('gene_index_exists'), I.e.bool('transcript_index_exists')
        st.file, st.source, st.handle = SymObj('GtfFile11c', parent='dir'), SymObj('Source11c'), SymObj('GtfHandle11c')
        st.anno = SymObj('GenomicAnnotationOnDisk', genes=_PtrTable11c(st, 'gene'), transcripts=_PtrTable11c(st, 'tx'), handle=st.handle)
        st.args = [st.anno, st.file, st.source]
        self._cur = st
        return st

    @property
    def models(self):
        c = self

        def inst(reg):
            L = lambda *x: c._cur.log.append(x)
            reg.method_('GenomicAnnotationOnDisk', 'init_handle', lambda I, o, a, k: L('init_handle', a[0] if a else None, None, None))
            reg.method_('GenomicAnnotationOnDisk', 'get_index_files', lambda I, o, a, k: (L('index_files', a[0] if a else None, None, None), (c._cur.gfile, c._cur.tfile))[1])
            reg.func_(GAD, 'GenomicAnnotationOnDisk.get_index_files', lambda I, a, k: (L('index_files', a[-1] if a else None, None, None), (c._cur.gfile, c._cur.tfile))[1])
            reg.method_('IdxFile11c', 'exists', lambda I, o, a, k: c._cur.gexists if o.fields['which'] == 'gene' else c._cur.texists)

            def open_(I, a, k):
                st = c._cur
                L('open', a[0], a[1] if len(a) > 1 else k.get('mode', 'r'), None)
                if a[0] is st.gfile:
                    return st.gtab.file
                if a[0] is st.tfile:
                    return st.ttab.file
                raise Unsupported('another file is opened')
            reg.ext_('open', open_)
            reg.ctor_('GenePointer', lambda I, a, k: SymObj('GenePointer11c', args=list(a), **k))
            reg.ctor_('TranscriptPointer', lambda I, a, k: SymObj('TranscriptPointer11c', args=list(a), **k))
        return (inst,)

    def head(self, I, env, k):
        self._cur.mark = len(self._cur.log)

    def mk_step(self, kind):
        def step(I, env, k):
            st = self._cur
            tab = st.gtab if kind == 'gene' else st.ttab
            new = [x for x in st.log[st.mark:]]
            if not new:
                return [('a-line-is-passed-over-only-as-a-comment', tab.comment(T11.zz(k)))]
            cls = 'GenePointer11c' if kind == 'gene' else 'TranscriptPointer11c'
            ok = len(new) == 1 and new[0][0] == 'store' and new[0][1] == kind and isinstance(new[0][3], SymObj) and new[0][3].cls == cls
            if not ok:
                return [('one-pointer-per-line-stored-in-its-own-table', False)]
            _, _, key, p = new[0]
            f = dict(p.fields)
            pos = f.pop('args')
            names = ['handle', 'key', 'start', 'end', 'source', 'transcripts' if kind == 'gene' else 'is_protein_coding']
            f.update(dict(zip(names, pos)))
            cv = T11.check_value
            obl = [('a-comment-line-makes-no-pointer', z3.Not(tab.comment(T11.zz(k)))),
                   ('key-start-end-are-columns-1-to-3-of-this-line', z3.BoolVal(bool(cv(f.get('key'), k, 0, 'text') and cv(f.get('start'), k, 1, 'int') and cv(f.get('end'), k, 2, 'int')))),
                   ('stored-under-its-own-key', z3.BoolVal(bool(cv(key, k, 0, 'text')))),
                   ('given-source-and-the-GTF-handle', z3.BoolVal(f.get('source') is st.source and f.get('handle') is st.handle))]
            if kind == 'gene':
                obl.append(('transcripts-are-the-parts-of-column-4-at-commas', z3.BoolVal(bool(cv(f.get('transcripts'), k, 3, ('parts', ','))))))
            else:
                v = f.get('is_protein_coding', 'missing')
                col = T11.TField(tab, k, 3)
                txt = lambda s_: col.sym_eq(I, s_)
                want = z3.And(txt('None')) if v is None else (txt('True') if v is True else (txt('False') if v is False else z3.BoolVal(False)))
                obl.append(('coding-status-is-what-column-4-says', want))
            return obl
        return step

    @property
    def loops(self):
        mk = lambda kind, tab: LoopSpec(inv=lambda I, env, k: [], on_head=self.head, step=self.mk_step(kind), target_after='unknown',
                                        on_break=lambda I, env, k: [('every-line-is-visited', False)],
                                        on_exit=lambda I, env, n: [('all-lines-were-visited', n == tab().n)])
        return {0: mk('gene', lambda: self._cur.gtab), 1: mk('tx', lambda: self._cur.ttab)}

    def post_return(self, I, st, ret):
        ev = [x for x in st.log if x[0] in ('init_handle', 'index_files', 'open')]
        ok = [x[0] for x in ev] == ['init_handle', 'index_files', 'open', 'open'] and ev[0][1] is st.file and ev[1][1] is st.file \
            and ev[2][1] is st.gfile and ev[3][1] is st.tfile and ev[2][2] in ('r', 'rt') and ev[3][2] in ('r', 'rt')
        I.e.prove('C11/load-index/handle-on-the-file-then-its-two-index-files-read', z3.BoolVal(bool(ok)))
        I.e.prove('C11/load-index/both-index-files-exist', z3.And(st.gexists, st.texists))

    def post_raise(self, I, st, exc):
        if exc.cls == 'ValueError':
            I.e.prove('C11/load-index/ValueError-only-for-a-missing-index-file', z3.Not(z3.And(st.gexists, st.texists)))
        else:
            I.e.prove('C11/load-index/KeyError-only-for-a-coding-status-that-is-none-of-None-True-False', z3.BoolVal(exc.cls == 'KeyError'))


# ----------------------------------------------------------------------------
# printing a pointer as a line of the index file (what load_index reads back)
# ----------------------------------------------------------------------------
from pyvc import sstr as _sstr


class _PointerToLine(Contract):
    """<Gene|Transcript>Pointer.to_line(): four tab-separated columns - key, start, end printed as decimal numbers, and the transcripts joined with commas
    (gene) or the coding status printed as None / True / False (transcript): the columns load_index reads back into the same fields"""
    path, props = GTP, ('C11',)
    kind = 'gene'
    status = None

    @property
    def qualname(self):
        return ('GenePointer' if self.kind == 'gene' else 'TranscriptPointer') + '.to_line'

    def name(self):
        return f'{self.path}:{self.qualname}' + ('' if self.kind == 'gene' else f'[{self.status}]')

    @property
    def models(self):
        return (lambda reg: _sstr.install(reg),)

    def setup(self, I):
        e = I.e
        st = types.SimpleNamespace()
        st.key = _sstr.Tok('key')
        st.start, st.end = e.int('start'), e.int('end')
        e.assume(z3.And(st.start >= 0, st.end > st.start))
        if self.kind == 'gene':
            st.txs = [_sstr.Tok('tx1'), _sstr.Tok('tx2')]
            st.ptr = SymObj('GenePointer', handle=None, key=st.key, start=st.start, end=st.end, source='GENCODE', transcripts=list(st.txs))
        else:
            st.ptr = SymObj('TranscriptPointer', handle=None, key=st.key, start=st.start, end=st.end, source='GENCODE', is_protein_coding=self.status)
        st.args = [st.ptr]
        self._cur = st
        return st

    def post_return(self, I, st, ret):
        cols = _sstr.split(ret, '\t')
        ok = len(cols) == 4 and cols[0] is st.key
        num = lambda v, t: isinstance(v, OpaqueStr) and v.parts[:1] == ['str'] and len(v.parts) == 2 and z3.eq(z3.simplify(v.parts[1]), z3.simplify(t))
        ok = ok and num(cols[1], st.start) and num(cols[2], st.end)
        if ok and self.kind == 'gene':
            parts = _sstr.split(cols[3], ',')
            ok = sorted(map(id, parts)) == sorted(map(id, st.txs)) and len(parts) == 2
        elif ok:
            ok = cols[3] == str(self.status)
        I.e.prove('C11/pointer-line/key-start-end-and-the-fourth-column-tab-separated', z3.BoolVal(bool(ok)))


register(type('GenePointerToLine', (_PointerToLine,), dict(kind='gene', __doc__=_PointerToLine.__doc__)))
for _s in (None, True, False):
    register(type(f'TranscriptPointerToLine_{_s}', (_PointerToLine,), dict(kind='tx', status=_s, __doc__=_PointerToLine.__doc__)))


class _OnDiskGenerateIndex(Contract):
    """GenomicAnnotationOnDisk.generate_index(handle, source): the GTF handle is initialised on the given file first; every pointer the scanner
    (iterate_pointer, under its own contract) yields for that handle and source is stored exactly once - a gene pointer in the gene table, a transcript
    pointer in the transcript table, under its own key; afterwards the source is the given one, or inferred when none was given"""
    path, qualname, props = GAD, 'GenomicAnnotationOnDisk.generate_index', ('C11',)
    kind, has_source = 'gene', True

    def name(self):
        return f'{self.path}:{self.qualname}[{self.kind} pointer, {"given" if self.has_source else "no"} source]'

    def setup(self, I):
        st = types.SimpleNamespace(log=[])
        st.n = I.e.int('n_pointers')
        I.e.assume(st.n >= 0)
        cls = 'GenePointer' if self.kind == 'gene' else 'TranscriptPointer'
        st.ptrs = FnView(st.n, lambda i: SymObj(cls, key=SymObj('PtrKey11c', i=zz(i)), i=zz(i)), tag='pointers of the scan')
        st.file, st.handle = SymObj('GtfFile11c'), SymObj('GtfHandle11c')
        st.source = SymObj('Source11c') if self.has_source else None
        st.anno = SymObj('GenomicAnnotationOnDisk', genes=_PtrTable11c(st, 'gene'), transcripts=_PtrTable11c(st, 'tx'), handle=None, source=None)
        st.args = [st.anno, st.file, st.source]
        self._cur = st
        return st

    @property
    def models(self):
        c = self

        def inst(reg):
            L = lambda *x: c._cur.log.append(x)

            def init_handle(I, o, a, k):
                L('init_handle', a[0] if a else None, None, None)
                o.fields['handle'] = c._cur.handle
            reg.method_('GenomicAnnotationOnDisk', 'init_handle', init_handle)
            reg.method_('GenomicAnnotationOnDisk', 'infer_source', lambda I, o, a, k: L('infer_source', None, None, None))

            def scan(I, a, k):
                L('scan', a[0] if a else None, a[1] if len(a) > 1 else k.get('source'), None)
                return c._cur.ptrs
            reg.func_(GTP, 'iterate_pointer', scan)
        return (inst,)

    def head(self, I, env, k):
        self._cur.mark = len(self._cur.log)

    def step(self, I, env, k):
        st = self._cur
        new = st.log[st.mark:]
        ok = len(new) == 1 and new[0][0] == 'store' and isinstance(new[0][3], SymObj) and 'i' in new[0][3].fields and isinstance(new[0][2], SymObj) and new[0][2].cls == 'PtrKey11c'
        if not ok:
            return [('pointer-k-stored-once', False)]
        _, table, key, p = new[0]
        return [('pointer-k-stored-once-under-its-own-key', z3.And(p.fields['i'] == k, key.fields['i'] == k)),
                ('in-the-table-of-its-kind', z3.BoolVal(table == self.kind))]

    @property
    def loops(self):
        return {0: LoopSpec(inv=lambda I, env, k: [], on_head=self.head, step=self.step, target_after='unknown',
                            on_break=lambda I, env, k: [('every-pointer-is-visited', False)],
                            on_exit=lambda I, env, n: [('all-pointers-were-stored', n == self._cur.n)])}

    def post_return(self, I, st, ret):
        ev = [x for x in st.log if x[0] != 'store']
        kinds = [x[0] for x in ev]
        ok = kinds[:2] == ['init_handle', 'scan'] and ev[0][1] is st.file and ev[1][1] is st.handle and ev[1][2] is st.source
        I.e.prove('C11/generate-index/handle-initialised-on-the-given-file-then-scanned-with-the-given-source', z3.BoolVal(bool(ok)))
        if self.has_source:
            I.e.prove('C11/generate-index/the-given-source-is-recorded-and-nothing-inferred', z3.BoolVal(kinds == ['init_handle', 'scan'] and st.anno.fields.get('source') is st.source))
        else:
            I.e.prove('C11/generate-index/without-a-source-it-is-inferred-after-the-scan', z3.BoolVal(kinds == ['init_handle', 'scan', 'infer_source']))


for _kd in ('gene', 'tx'):
    for _hs in (True, False):
        register(type(f'OnDiskGenerateIndex_{_kd}_{_hs}', (_OnDiskGenerateIndex,), dict(kind=_kd, has_source=_hs, __doc__=_OnDiskGenerateIndex.__doc__)))
