"""C11 — loading one entity of the annotation through its pointer: exactly the bytes of the pointer are read and every line of them is used."""
from __future__ import annotations
import types
import z3
from pyvc.contract import Contract, register
from pyvc.core import Unsupported, as_bool
from pyvc.interp import LoopSpec
from pyvc.values import *

GTP = 'moPepGen/gtf/GTFPointer.py'
I_, B_ = z3.IntSort(), z3.BoolSort()


def zz(i):
    return i if is_z3(i) else z3.IntVal(i)


class _Handle11c:
    """a binary file handle: a cursor; read(n) returns the n bytes at the cursor"""
    def __init__(self, st):
        self.st = st
        self.cur = st.cur0

    def sym_method(self, I, name, a, k):
        if name == 'tell':
            return self.cur
        if name == 'seek':
            whence = a[1] if len(a) > 1 else k.get('whence', 0)
            if whence == 1:
                self.cur = self.cur + a[0]
            elif whence == 0:
                self.cur = a[0]
            else:
                raise Unsupported('seek from the end')
            return self.cur
        if name == 'read' and len(a) == 1:
            self.st.reads.append((self.cur, a[0]))
            blk = _Block11c(self.st, 'bytes')
            self.cur = self.cur + a[0]
            return blk
        raise Unsupported(f'handle.{name}')


class _Block11c:
    """the bytes read: m lines separated by line feeds, the last one followed by a line feed (the index records whole lines)"""
    def __init__(self, st, stage):
        self.st, self.stage = st, stage

    def sym_method(self, I, name, a, k):
        if name == 'decode' and self.stage == 'bytes':
            return _Block11c(self.st, 'text')
        if name in ('rstrip', 'strip') and self.stage == 'text' and not a:
            return _Block11c(self.st, 'stripped')
        if name == 'split' and list(a) == ['\n'] and self.stage == 'stripped':
            return FnView(self.st.m, lambda j: SymObj('GtfLine11c', j=zz(j)), tag='lines of the entity')
        if name == 'split' and list(a) == ['\n'] and self.stage == 'text':
            return FnView(self.st.m + 1, lambda j: SymObj('GtfLine11c', j=zz(j)), tag='lines of the entity and an empty piece')
        raise Unsupported(f'block.{name} at stage {self.stage}')


class _Feature11c:
    """record.type.lower() of line j"""
    def __init__(self, st, j):
        self.st, self.j = st, j

    def sym_method(self, I, name, a, k):
        if name == 'lower' and not a:
            return self
        raise Unsupported(f'feature.{name}')


class _FeatureTypes11c:
    def __init__(self, contract):
        self.contract = contract

    def sym_contains(self, I, v):
        if isinstance(v, _Feature11c):
            return self.contract._cur.known(zz(v.j))
        raise Unsupported('GTF_FEATURE_TYPES membership of another value')


class _Key11c:
    """the key of the pointer (a transcript / gene id)"""
    def sym_eq(self, I, other):
        if other is self:
            return True
        if isinstance(other, _TxId11c):
            return other.sym_eq(I, self)
        raise Unsupported('pointer key compared with another value')

    def sym_str(self, I):
        return self


class _TxId11c:
    def __init__(self, st, j):
        self.st, self.j = st, j

    def sym_eq(self, I, other):
        if other is self.st.key:
            return self.st.mine(self.j)
        raise Unsupported('transcript id compared with another value')


@register
class TranscriptPointerLoad(Contract):
    """TranscriptPointer.load(): exactly the bytes [start, end) of the annotation file are read, wherever the handle stood before; every line of them
    is parsed; a line of a known feature type that names this transcript is added to the model once, under its feature type, with the transcript id
    as its id, in file order; a line of an unknown feature type is passed over; a line naming another transcript is a ValueError; the records are
    sorted after the last one was added and the model is returned"""
    path, qualname, props = GTP, 'TranscriptPointer.load', ('C11',)
    declared_raises = ['ValueError']
    assumptions = ('assumed: the bytes of a pointer are whole lines, the last one ending with a line feed; GtfIO.line_to_seq_feature is the external line parser',)

    def setup(self, I):
        e = I.e
        st = types.SimpleNamespace(reads=[], log=[])
        st.cur0, st.start, st.end, st.m = e.int('handle_position_before'), e.int('pointer_start'), e.int('pointer_end'), e.int('n_lines')
        e.assume(z3.And(st.cur0 >= 0, st.start >= 0, st.end > st.start, st.m >= 1))
        st.known = z3.Function('feature_type_is_known', I_, B_)
        st.mine = z3.Function('line_names_this_transcript', I_, B_)
        st.key = _Key11c()
        st.handle = _Handle11c(st)
        st.ptr = SymObj('TranscriptPointer', handle=st.handle, key=st.key, start=st.start, end=st.end, source='GENCODE', is_protein_coding=None)
        st.args = [st.ptr]
        self._cur = st
        return st

    @property
    def models(self):
        c = self

        def inst(reg):
            def parse_line(I, a, k):
                ln = a[0]
                if not (isinstance(ln, SymObj) and ln.cls == 'GtfLine11c'):
                    raise Unsupported('line_to_seq_feature of something that is not a line of the block')
                j = ln.fields['j']
                return SymObj('GtfRecord11c', j=j, type=_Feature11c(c._cur, j), transcript_id=_TxId11c(c._cur, j), id=None)
            reg.func_('moPepGen/gtf/GtfIO.py', 'line_to_seq_feature', parse_line)
            reg.ext_('moPepGen.gtf.GtfIO.line_to_seq_feature', parse_line)
            reg.global_(GTP, 'GTF_FEATURE_TYPES', _FeatureTypes11c(c))
            reg.ctor_('TranscriptAnnotationModel', lambda I, a, k: SymObj('TxModel11c'))
            reg.method_('TxModel11c', 'add_record', lambda I, o, a, k: c._cur.log.append(('add', a[0], a[1], a[1].fields.get('id') if isinstance(a[1], SymObj) else None)))
            reg.method_('TxModel11c', 'sort_records', lambda I, o, a, k: c._cur.log.append(('sort', None, None, None)))
        return (inst,)

    def head(self, I, env, k):
        self._cur.mark = len(self._cur.log)
        self._cur.k = k

    def step(self, I, env, k):
        st = self._cur
        new = st.log[st.mark:]
        if not new:
            return [('a-line-is-passed-over-only-for-an-unknown-feature-type', z3.Not(st.known(k)))]
        ok = len(new) == 1 and new[0][0] == 'add' and isinstance(new[0][1], _Feature11c) and isinstance(new[0][2], SymObj) and new[0][2].cls == 'GtfRecord11c'
        if not ok:
            return [('one-record-per-line', False)]
        _, feat, rec, rid = new[0]
        return [('line-k-is-added-under-its-own-feature-type-only-if-known-and-naming-this-transcript',
                 z3.And(zz(feat.j) == k, rec.fields['j'] == k, st.known(k), st.mine(k))),
                ('the-record-carries-the-transcript-id-as-its-id', z3.BoolVal(rid is not None and (rid is st.key or isinstance(rid, _TxId11c))))]

    @property
    def loops(self):
        return {0: LoopSpec(inv=lambda I, env, k: [], on_head=self.head, step=self.step, target_after='unknown',
                            on_break=lambda I, env, k: [('every-line-is-visited', False)],
                            on_exit=lambda I, env, n: [('all-lines-of-the-pointer-were-visited', n == self._cur.m)])}

    def reads_ok(self, I, st):
        ok = len(st.reads) == 1
        I.e.prove('C11/tx-load/exactly-the-bytes-of-the-pointer-are-read-once', z3.And(st.reads[0][0] == st.start, st.reads[0][1] == st.end - st.start) if ok else z3.BoolVal(False))

    def post_return(self, I, st, ret):
        self.reads_ok(I, st)
        sorts = [i for i, x in enumerate(st.log) if x[0] == 'sort']
        I.e.prove('C11/tx-load/records-sorted-once-after-the-last-one-was-added-and-the-model-returned',
                  z3.BoolVal(len(sorts) == 1 and sorts[0] == len(st.log) - 1 and isinstance(ret, SymObj) and ret.cls == 'TxModel11c'))

    def post_raise(self, I, st, exc):
        self.reads_ok(I, st)
        k = getattr(st, 'k', None)
        I.e.prove('C11/tx-load/ValueError-only-for-a-known-line-that-names-another-transcript',
                  z3.And(st.known(k), z3.Not(st.mine(k))) if exc.cls == 'ValueError' and k is not None else z3.BoolVal(False))


@register
class GenePointerLoad(Contract):
    """GenePointer.load(): exactly the bytes [start, end) of the annotation file are read, wherever the handle stood before; they must be one line
    (more is a ValueError); the model is the record parsed from that line, turned into a gene model without exons, with the transcripts the pointer lists"""
    path, qualname, props = GTP, 'GenePointer.load', ('C11',)
    declared_raises = ['ValueError']
    assumptions = TranscriptPointerLoad.assumptions

    def setup(self, I):
        e = I.e
        st = types.SimpleNamespace(reads=[], log=[])
        st.cur0, st.start, st.end, st.m = e.int('handle_position_before'), e.int('pointer_start'), e.int('pointer_end'), e.int('n_lines')
        e.assume(z3.And(st.cur0 >= 0, st.start >= 0, st.end > st.start, st.m >= 1))
        st.key = _Key11c()
        st.handle = _Handle11c(st)
        st.txs = ['ENST_A', 'ENST_B']
        st.ptr = SymObj('GenePointer', handle=st.handle, key=st.key, start=st.start, end=st.end, source='GENCODE', transcripts=list(st.txs))
        st.args = [st.ptr]
        self._cur = st
        return st

    @property
    def models(self):
        c = self

        def inst(reg):
            def parse_line(I, a, k):
                ln = a[0]
                if not (isinstance(ln, SymObj) and ln.cls == 'GtfLine11c'):
                    raise Unsupported('line_to_seq_feature of something that is not a line of the block')
                return SymObj('GtfRecord11c', j=ln.fields['j'])
            reg.func_('moPepGen/gtf/GtfIO.py', 'line_to_seq_feature', parse_line)
            reg.ext_('moPepGen.gtf.GtfIO.line_to_seq_feature', parse_line)
        return (inst,)

    def post_return(self, I, st, ret):
        TranscriptPointerLoad.reads_ok(self, I, st)
        e = I.e
        ok = isinstance(ret, SymObj) and 'j' in ret.fields
        e.prove('C11/gene-load/the-model-is-the-record-of-the-single-line', z3.And(st.m == 1, ret.fields['j'] == 0) if ok else z3.BoolVal(False))
        cls = ret.fields.get('__class__') if ok else None
        e.prove('C11/gene-load/a-gene-model-without-exons-listing-the-transcripts-of-the-pointer',
                z3.BoolVal(bool(ok and getattr(cls, 'name', None) == 'GeneAnnotationModel' and ret.fields.get('exons') == [] and sorted(ret.fields.get('transcripts') or []) == sorted(st.txs))))

    def post_raise(self, I, st, exc):
        TranscriptPointerLoad.reads_ok(self, I, st)
        I.e.prove('C11/gene-load/ValueError-only-for-more-than-one-line', st.m > 1 if exc.cls == 'ValueError' else z3.BoolVal(False))
