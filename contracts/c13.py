"""C13 — GVF files: lossless round trip and index-equivalent access (DESIGN.md §3 C13)."""
from __future__ import annotations
import types
import z3
from pyvc.contract import Contract, Lemma, register, induction
from pyvc.core import Unsupported, as_bool
from pyvc.interp import LoopSpec, PyRaise
from pyvc.values import *
from pyvc.pstr import PStr
from pyvc import sstr
from pyvc.sstr import Tok, text_eq
from .lib import *

VR = 'moPepGen/seqvar/VariantRecord.py'
SIO = 'moPepGen/seqvar/io.py'
CIO = 'moPepGen/circ/io.py'
CRC = 'moPepGen/circ/CircRNA.py'
GVI = 'moPepGen/seqvar/GVFIndex.py'
POD = 'moPepGen/seqvar/VariantRecordPoolOnDisk.py'
I_, B_ = z3.IntSort(), z3.BoolSort()

# the record kinds a GVF file can hold, with the attributes their writers emit (parsers of C14-C16)
KINDS = {
    'SNV': dict(type='SNV', ref=1, alt=1, attrs=('TRANSCRIPT_ID', 'GENOMIC_POSITION', 'GENE_SYMBOL')),
    'INDEL': dict(type='INDEL', ref=1, alt=None, attrs=('TRANSCRIPT_ID', 'GENOMIC_POSITION', 'GENE_SYMBOL')),
    'INDEL-del': dict(type='INDEL', ref=None, alt=1, attrs=('TRANSCRIPT_ID', 'GENOMIC_POSITION', 'GENE_SYMBOL')),
    'MNV': dict(type='MNV', ref=None, alt=None, attrs=('TRANSCRIPT_ID', 'GENOMIC_POSITION', 'GENE_SYMBOL')),
    'RNAEditingSite': dict(type='RNAEditingSite', ref=1, alt=1, attrs=('TRANSCRIPT_ID', 'GENOMIC_POSITION', 'STRAND')),
    'Fusion': dict(type='Fusion', ref=1, alt='<FUSION>',
                   attrs=('TRANSCRIPT_ID', 'GENE_SYMBOL', 'GENOMIC_POSITION', 'ACCEPTER_GENE_ID', 'ACCEPTER_TRANSCRIPT_ID', 'ACCEPTER_SYMBOL',
                          'ACCEPTER_POSITION', 'ACCEPTER_GENOMIC_POSITION')),
    'Insertion': dict(type='Insertion', ref=1, alt='<INS>',
                      attrs=('TRANSCRIPT_ID', 'DONOR_GENE_ID', 'DONOR_START', 'DONOR_END', 'GENE_SYMBOL', 'GENOMIC_POSITION')),
    'Deletion': dict(type='Deletion', ref=1, alt='<DEL>', attrs=('TRANSCRIPT_ID', 'START', 'END', 'GENE_SYMBOL', 'GENOMIC_POSITION')),
    'Substitution': dict(type='Substitution', ref=1, alt='<SUB>',
                         attrs=('TRANSCRIPT_ID', 'START', 'END', 'DONOR_START', 'DONOR_END', 'DONOR_GENE_ID', 'GENE_SYMBOL', 'GENOMIC_POSITION')),
}
INT_ATTRS = ('START', 'END', 'DONOR_START', 'DONOR_END', 'ACCEPTER_POSITION', 'ACCEPTER_START', 'STRAND')


def install_text(reg):
    sstr.install(reg)


def dna(e, name, length):
    """an allele: a non-empty string over letters (never starts with '<')"""
    p = PStr.sym(e, name, length)
    n = p.length()
    if is_z3(n):
        e.assume(n >= 1)
    k = z3.Int(f'k_{name}')
    e.assume(z3.ForAll([k], z3.Implies(z3.And(0 <= k, k < (n if is_z3(n) else z3.IntVal(n))), z3.And(p.get(k) >= 65, p.get(k) <= 90))))
    if isinstance(n, int):
        for i in range(n):
            e.assume(z3.And(p.get(i) >= 65, p.get(i) <= 90))
    else:
        e.assume(z3.And(p.get(0) >= 65, p.get(0) <= 90))
    return p


class _RoundTrip(Contract):
    """write -> parse -> write gives the identical line, for one record kind: the real VariantRecord.to_string produces the line,
    the real line_to_variant_record (with parse_attrs) reads it, and to_string of the result is compared token by token."""
    path, qualname, props = SIO, 'line_to_variant_record', ('C13',)
    kind = 'SNV'
    models = (install_text,)
    assumptions = ('assumed: ids, gene/transcript names and other attribute values contain no tab, ";", "=", quote or surrounding white space; '
                   'alleles are letters; str(int)/int(str) are inverse (structured strings, pyvc/sstr.py)',)

    def name(self):
        return f'{self.path}:{self.qualname}[{self.kind}]'

    def setup(self, I):
        e = I.e
        k = KINDS[self.kind]
        st = types.SimpleNamespace()
        st.start = e.int('start')
        e.assume(st.start >= 0)
        ref = dna(e, 'ref', k['ref'])
        alt = k['alt'] if isinstance(k['alt'], str) else dna(e, 'alt', k['alt'])
        if k['ref'] is None and k['alt'] is None:
            e.assume(z3.And(ref.length() >= 2, alt.length() >= 2))        # MNV
        elif k['ref'] is None:
            e.assume(ref.length() >= 2)
        elif k['alt'] is None:
            e.assume(alt.length() >= 2)
        end = st.start + ref.length() if not isinstance(k['alt'], str) or k['type'] in ('Fusion', 'Insertion') else e.int('end')
        if k['type'] in ('Fusion', 'Insertion'):
            end = st.start + 1
        if k['type'] in ('Deletion', 'Substitution'):
            e.assume(end > st.start)
        st.attrs = {}
        for a in k['attrs']:
            st.attrs[a] = e.int(f'attr_{a}') if a in INT_ATTRS else Tok(a.lower())
            if a.endswith('SYMBOL') and e.branch(e.bool(f'{a.lower()}_is_empty'), 'gene without a symbol'):
                st.attrs[a] = ''        # a gene without a symbol: the writers emit KEY= and the line must still read back as it was
        if 'END' in st.attrs:
            st.attrs['END'] = end
        loc = SymObj('FeatureLocation', start=st.start, end=end, strand=None, seqname=Tok('gene_id'), reading_frame_index=None,
                     start_offset=0, end_offset=0, ref=None, ref_db=None)
        st.rec = SymObj('VariantRecord', location=loc, ref=ref, alt=alt, type=k['type'], id=Tok('variant_id'), attrs=dict(st.attrs),
                        is_real_fusion=k['type'] == 'Fusion')
        st.line1 = I.call_method(st.rec, 'to_string', [], {})
        st.args = [st.line1]
        self._cur = st
        return st

    def post_return(self, I, st, ret):
        e = I.e
        line2 = I.call_method(ret, 'to_string', [], {})
        e.prove(f'C13/roundtrip/{self.kind}/rewritten-line-is-identical', as_bool(text_eq(I, st.line1, line2)))
        loc1, loc2 = st.rec.fields['location'], ret.fields['location']
        e.prove(f'C13/roundtrip/{self.kind}/position-and-gene-preserved',
                z3.And(loc2.fields['start'] == loc1.fields['start'], loc2.fields['end'] == loc1.fields['end'],
                       loc2.fields['seqname'] is loc1.fields['seqname']))
        e.prove(f'C13/roundtrip/{self.kind}/id-preserved', ret.fields['id'] is st.rec.fields['id'])
        e.prove(f'C13/roundtrip/{self.kind}/same-attribute-keys', list(ret.fields['attrs']) == list(st.attrs))

    def post_raise(self, I, st, exc):
        I.e.prove(f'C13/roundtrip/{self.kind}/written-line-is-parsable', False)


for _k in KINDS:
    register(type(f'RoundTrip_{_k.replace("-", "_")}', (_RoundTrip,), dict(kind=_k)))


# ----------------------------------------------------------------------------
# circRNA records
# ----------------------------------------------------------------------------
class _CircRoundTrip(Contract):
    path, qualname, props = CIO, 'line_to_circ_model', ('C13', 'C17')       # C17: the record parseCIRCexplorer writes reads back as the reported blocks
    nfrag = 1
    models = (install_text,)
    assumptions = ('the number of fragments is enumerated (1, 2, 3; all values symbolic): the per-fragment code is the same for every count',)

    def name(self):
        return f'{self.path}:{self.qualname}[{self.nfrag} fragment(s)]'

    def setup(self, I):
        e = I.e
        st = types.SimpleNamespace()
        st.s = [e.int(f'frag{i}_start') for i in range(self.nfrag)]
        st.l = [e.int(f'frag{i}_len') for i in range(self.nfrag)]
        frags = []
        for s_, l_ in zip(st.s, st.l):
            e.assume(z3.And(s_ >= 0, l_ >= 1))
            loc = SymObj('FeatureLocation', start=s_, end=s_ + l_, strand=None, seqname=Tok('gene_id'), reading_frame_index=None,
                         start_offset=0, end_offset=0, ref=None, ref_db=None)
            frags.append(SymObj('SeqFeature', location=loc, chrom=Tok('gene_id'), attributes={}, type='exon', id='<unknown id>', qualifiers={}))
        st.intron = [e.int('intron0')] if e.branch(e.bool('has_intron_entry'), 'intron list non-empty') else []
        st.model = SymObj('CircRNAModel', gene_id=Tok('gene_id'), fragments=frags, intron=list(st.intron), id=Tok('circ_id'),
                          transcript_id=Tok('tx_id'), gene_name=Tok('symbol'), gene_locations=[], genomic_position=Tok('chr:start:end'),
                          backsplicing_site=None)
        if e.branch(e.bool('model_made_by_a_parser'), 'back-splicing site known'):
            # a model built by parseCIRCexplorer carries its back-splicing site (any interval): the line must not depend on it
            st.model.fields['backsplicing_site'] = SymObj('FeatureLocation', start=e.int('backsplice_start'), end=e.int('backsplice_end'), strand=None, seqname=Tok('gene_id'),
                                                          reading_frame_index=None, start_offset=0, end_offset=0, ref=None, ref_db=None)
        st.line1 = I.call_method(st.model, 'to_string', [], {})
        st.args = [st.line1]
        self._cur = st
        return st

    def post_return(self, I, st, ret):
        e = I.e
        line2 = I.call_method(ret, 'to_string', [], {})
        e.prove('C13/circ-roundtrip/rewritten-line-is-identical', as_bool(text_eq(I, st.line1, line2)))
        f2 = ret.fields['fragments']
        ok = isinstance(f2, list) and len(f2) == self.nfrag
        e.prove('C13/circ-roundtrip/same-number-of-fragments', ok)
        if ok:
            e.prove('C13/circ-roundtrip/fragment-intervals-preserved',
                    z3.And(*[z3.And(f.fields['location'].fields['start'] == s_, f.fields['location'].fields['end'] == s_ + l_)
                             for f, s_, l_ in zip(f2, st.s, st.l)]))
        e.prove('C13/circ-roundtrip/genomic-position-preserved', ret.fields['genomic_position'] is st.model.fields['genomic_position'])
        e.prove('C13/circ-roundtrip/ids-preserved', ret.fields['id'] is st.model.fields['id'] and ret.fields['transcript_id'] is st.model.fields['transcript_id']
                and ret.fields['gene_name'] is st.model.fields['gene_name'])

    def post_raise(self, I, st, exc):
        I.e.prove('C13/circ-roundtrip/written-line-is-parsable', False)


for _n in (1, 2, 3):
    register(type(f'CircRoundTrip_{_n}', (_CircRoundTrip,), dict(nfrag=_n)))



# ----------------------------------------------------------------------------
# the file level: one record per line, in order (write) and one record per non-comment line, in order (iterate)
# ----------------------------------------------------------------------------
class _GvfLine:
    def __init__(self, owner, i):
        self.owner, self.i = owner, i

    def sym_method(self, I, name, a, k):
        if name == 'startswith' and a and a[0] == '#':
            return self.owner._cur.comment(self.i)
        raise Unsupported(f'line.{name}')


@register
class IterateGvf(Contract):
    """iterate(handle) yields line_to_variant_record(line) for exactly the lines that do not start with '#', each once, in file order"""
    path, qualname, props = SIO, 'iterate', ('C13',)

    def setup(self, I):
        e = I.e
        st = types.SimpleNamespace(yielded=[])
        st.n = e.int('n_lines')
        e.assume(st.n >= 0)
        st.comment = z3.Function('line_is_a_comment', I_, B_)
        zz = lambda i: i if is_z3(i) else z3.IntVal(i)
        st.args = [FnView(st.n, lambda i: _GvfLine(self, zz(i)), tag='lines of the file')]
        from .tables import first_loop_kind
        if first_loop_kind(I, self.path, self.qualname) != 'for':
            raise Unsupported('the reader is not written as `for line in handle` (this contract follows that form)')
        self._cur = st
        return st

    @property
    def models(self):
        c = self

        def inst(reg):
            reg.func_(SIO, 'line_to_variant_record', lambda I, a, k: SymObj('Parsed13', of=a[0].i) if isinstance(a[0], _GvfLine) else I.raise_('TypeError', 'not a line'))
            reg.on_yield = lambda I, frame, v: c._cur.yielded.append(v)
        return (inst,)

    def head(self, I, env, k):
        self._cur.mark = len(self._cur.yielded)

    def step(self, I, env, k):
        st = self._cur
        new = st.yielded[st.mark:]
        if not new:
            return [('a-line-is-passed-over-only-as-a-comment', st.comment(k))]
        ok = len(new) == 1 and isinstance(new[0], SymObj) and new[0].cls == 'Parsed13'
        return [('one-record-per-record-line-parsed-from-that-line', z3.And(z3.Not(st.comment(k)), new[0].fields['of'] == k) if ok else False)]

    @property
    def loops(self):
        return {0: LoopSpec(inv=lambda I, env, k: [], on_head=self.head, step=self.step, target_after='unknown',
                            on_break=lambda I, env, k: [('every-line-is-visited', False)],
                            on_exit=lambda I, env, n: [('all-lines-were-visited', n == self._cur.n)])}


class _OutFile13:
    def __init__(self, owner, name):
        self.owner, self.name = owner, name

    def sym_method(self, I, nm, a, k):
        st = self.owner._cur
        if nm == 'write':
            st.log.append(('write', self.name, a[0]))
            return None
        if nm == 'seek':
            st.log.append(('seek', self.name, a[0]))
            return None
        if nm in ('__enter__',):
            return self
        if nm in ('__exit__', 'close', 'flush'):
            return None
        raise Unsupported(f'file.{nm}')

    def sym_view(self, I):
        # reading the temporary file back: the lines written to it so far (the contract checks the seek(0) before)
        st = self.owner._cur
        st.log.append(('read-back', self.name, None))
        return st.temp_lines


@register
class WriteGvf(Contract):
    """write(variants, path, metadata): the output file holds the metadata lines, then the column header, then one line per record - its own
    to_string() plus a line break - in the order given, nothing else; every record type is reported to the metadata before they are written"""
    path, qualname, props = SIO, 'write', ('C13',)
    assumptions = ('assumed: a temporary text file reads back, after seek(0), the lines written to it; GVFMetadata.to_strings yields comment lines',)

    def setup(self, I):
        e = I.e
        st = types.SimpleNamespace(log=[])
        st.n = e.int('n_records')
        e.assume(st.n >= 0)
        zz = lambda i: i if is_z3(i) else z3.IntVal(i)
        st.records = FnView(st.n, lambda i: SymObj('Rec13w', i=zz(i), type=SymObj('RecType13w', i=zz(i))), tag='records')
        st.temp_lines = FnView(st.n + 1, lambda j: SymObj('TempLine13w', j=zz(j)), tag='lines of the temporary file')
        st.meta = SymObj('GVFMetadata13w')
        st.nmeta = e.int('n_metadata_lines')
        e.assume(st.nmeta >= 0)
        st.args = [st.records, OpaqueStr(['out.gvf']), st.meta]
        self._cur = st
        return st

    @property
    def models(self):
        c = self

        def inst(reg):
            sstr.install(reg)
            reg.ext_('tempfile.TemporaryFile', lambda I, a, k: _OutFile13(c, 'temp'))
            reg.ext_('open', lambda I, a, k: (c._cur.log.append(('open', a[0], a[1] if len(a) > 1 else k.get('mode'))), _OutFile13(c, 'out'))[1])
            reg.method_('Rec13w', 'to_string', lambda I, o, a, k: SymObj('LineOf13w', i=o.fields['i']))
            reg.method_('GVFMetadata13w', 'add_info', lambda I, o, a, k: c._cur.log.append(('add_info', None, a[0])))
            reg.method_('GVFMetadata13w', 'to_strings', lambda I, o, a, k: (c._cur.log.append(('to_strings', None, None)),
                                                                             FnView(c._cur.nmeta, lambda j: SymObj('MetaLine13w', j=j if is_z3(j) else z3.IntVal(j)), tag='metadata lines'))[1])

        return (inst,)

    def head(self, I, env, k):
        self._cur.mark = len(self._cur.log)

    @staticmethod
    def line_of(v, cls):
        """v is `<object of cls> + '\\n'`: return the object"""
        if isinstance(v, OpaqueStr) and len(v.parts) == 2 and v.parts[1] == '\n' and isinstance(v.parts[0], SymObj) and v.parts[0].cls == cls:
            return v.parts[0]
        return None

    # loop 0: the records -> temporary file
    def step0(self, I, env, k):
        st = self._cur
        new = st.log[st.mark:]
        w = [x for x in new if x[0] == 'write']
        ai = [x for x in new if x[0] == 'add_info']
        ln = self.line_of(w[0][2], 'LineOf13w') if len(w) == 1 and w[0][1] == 'temp' else None
        oka = len(ai) == 1 and isinstance(ai[0][2], SymObj) and ai[0][2].cls == 'RecType13w'
        return [('record-k-written-once-as-its-own-line-with-a-line-break', ln.fields['i'] == k if ln is not None else False),
                ('type-of-record-k-reported-to-the-metadata', ai[0][2].fields['i'] == k if oka else False)]

    # loop 1: metadata lines -> output
    def step1(self, I, env, k):
        st = self._cur
        w = [x for x in st.log[st.mark:] if x[0] == 'write']
        ln = self.line_of(w[0][2], 'MetaLine13w') if len(w) == 1 and w[0][1] == 'out' else None
        return [('metadata-line-k-written-once-with-a-line-break', ln.fields['j'] == k if ln is not None else False)]

    # loop 2: temporary file -> output
    def step2(self, I, env, k):
        st = self._cur
        w = [x for x in st.log[st.mark:] if x[0] == 'write']
        ok = len(w) == 1 and w[0][1] == 'out' and isinstance(w[0][2], SymObj) and w[0][2].cls == 'TempLine13w'
        return [('line-k-of-the-temporary-file-copied-once-unchanged', w[0][2].fields['j'] == k if ok else False)]

    @property
    def loops(self):
        mk = lambda step, n: LoopSpec(inv=lambda I, env, k: [], on_head=self.head, step=step, target_after='unknown',
                                      on_break=lambda I, env, k: [('every-element-is-visited', False)],
                                      on_exit=lambda I, env, m: [('all-elements-were-visited', m == n())])
        return {0: mk(self.step0, lambda: self._cur.n), 1: mk(self.step1, lambda: self._cur.nmeta), 2: mk(self.step2, lambda: self._cur.n + 1)}

    def post_return(self, I, st, ret):
        e = I.e
        ev = [x[0] + ':' + str(x[1]) for x in st.log if x[0] in ('open', 'to_strings', 'seek', 'read-back') or (x[0] == 'write' and isinstance(x[2], OpaqueStr))]
        kinds = [x[0] for x in st.log]
        e.prove('C13/write/column-header-first-in-the-temporary-file', any(x[0] == 'write' and x[1] == 'temp' and isinstance(x[2], (OpaqueStr, str)) for x in st.log[:1]))
        idx = lambda kind: [i for i, x in enumerate(st.log) if x[0] == kind]
        ok = len(idx('to_strings')) == 1 and len(idx('seek')) == 1 and len(idx('read-back')) == 1 and len(idx('open')) == 1
        e.prove('C13/write/metadata-lines-asked-for-after-every-record-was-reported-then-the-temporary-file-rewound-and-copied',
                ok and idx('open')[0] < idx('to_strings')[0] < idx('seek')[0] < idx('read-back')[0] and st.log[idx('seek')[0]][1] == 'temp' and st.log[idx('seek')[0]][2] == 0
                and st.log[idx('open')[0]][2] in ('w', 'wt'))


# ----------------------------------------------------------------------------
# reading the records of one pointer
# ----------------------------------------------------------------------------
class _Block13:
    """the bytes / text read through a pointer: m record lines separated by line feeds (a field may contain other characters that
    str.splitlines() also treats as line boundaries)"""
    def __init__(self, owner, stage='bytes'):
        self.owner, self.stage = owner, stage

    def sym_method(self, I, name, a, k):
        st = self.owner._cur
        if name == 'decode' and self.stage == 'bytes':
            return _Block13(self.owner, 'text')
        if name in ('rstrip', 'strip') and self.stage == 'text' and not a:
            return _Block13(self.owner, 'stripped')
        zz = lambda j: j if is_z3(j) else z3.IntVal(j)
        if name == 'split' and list(a) == ['\n'] and self.stage == 'stripped':
            return FnView(st.m, lambda j: SymObj('BlockLine13', j=zz(j)), tag='lines of the block')
        if name == 'split' and list(a) == ['\n']:
            # without stripping the trailing line feed first there is an empty piece at the end
            return FnView(st.m + 1, lambda j: SymObj('BlockLine13', j=zz(j)), tag='lines of the block and an empty piece')
        if name == 'splitlines' and not a:
            # also splits at form feeds, U+2028, ... inside a field
            extra = I.e.int('n_other_line_boundaries_inside_fields')
            I.e.assume(extra >= 0)
            return FnView(st.m + extra, lambda j: SymObj('BlockPiece13', j=zz(j)), tag='pieces of the block')
        raise Unsupported(f'block.{name}{tuple(a)}')


@register
class PointerIter(Contract):
    """iterating a pointer reads exactly its byte range [start, end) of the GVF file and yields one record per line of that block - split at
    line feeds only, as the scan that made the pointer does - parsed by the reader of the file kind (circRNA or variant), in order"""
    path, qualname, props = GVI, 'GVFPointer.__iter__', ('C13', 'C06')
    assumptions = ('assumed: a pointer made by iterate_pointer covers whole lines and ends with a line feed (contract of iterate_pointer); the block decodes as UTF-8',)

    def setup(self, I):
        e = I.e
        st = types.SimpleNamespace(log=[], yielded=[])
        st.cur, st.start, st.end, st.m = e.int('handle_position'), e.int('pointer_start'), e.int('pointer_end'), e.int('n_lines_in_block')
        e.assume(z3.And(st.cur >= 0, 0 <= st.start, st.start < st.end, st.m >= 1))
        st.is_circ = e.bool('is_circ_rna')
        st.handle = SymObj('GvfHandle13p')
        st.args = [SymObj('GVFPointer', handle=st.handle, key=OpaqueStr(['key']), start=st.start, end=st.end, is_circ_rna=st.is_circ)]
        self._cur = st
        return st

    @property
    def models(self):
        c = self

        def inst(reg):
            reg.method_('GvfHandle13p', 'tell', lambda I, o, a, k: c._cur.cur)

            def seek(I, o, a, k):
                st = c._cur
                whence = a[1] if len(a) > 1 else k.get('whence', 0)
                st.pos = (st.pos if hasattr(st, 'pos') else st.cur) + a[0] if whence == 1 else a[0]
                st.log.append(('seek', a[0], whence))
            reg.method_('GvfHandle13p', 'seek', seek)

            def read(I, o, a, k):
                st = c._cur
                st.log.append(('read', st.pos if hasattr(st, 'pos') else st.cur, a[0] if a else None))
                return _Block13(c)
            reg.method_('GvfHandle13p', 'read', read)
            mk = lambda kind: (lambda I, a, k: SymObj('Parsed13p', kind=kind, of=a[0]))
            reg.func_(SIO, 'line_to_variant_record', mk('variant'))
            reg.func_(CIO, 'line_to_circ_model', mk('circ'))
            reg.ext_('io.line_to_variant_record', mk('variant'))
            reg.ext_('circ.io.line_to_circ_model', mk('circ'))
            reg.on_yield = lambda I, frame, v: c._cur.yielded.append(v)
        return (inst,)

    def head(self, I, env, k):
        self._cur.mark = len(self._cur.yielded)

    def step(self, I, env, k):
        st = self._cur
        new = st.yielded[st.mark:]
        ok = len(new) == 1 and isinstance(new[0], SymObj) and new[0].cls == 'Parsed13p' and isinstance(new[0].fields['of'], SymObj) and new[0].fields['of'].cls == 'BlockLine13'
        if not ok:
            return [('one-record-per-line-of-the-block', False)]
        want = 'circ' if I.e.branch(st.is_circ, 'circRNA file') else 'variant'
        return [('one-record-per-line-of-the-block', new[0].fields['of'].fields['j'] == k), ('parsed-by-the-reader-of-the-file-kind', new[0].fields['kind'] == want)]

    @property
    def loops(self):
        return {0: LoopSpec(inv=lambda I, env, k: [], on_head=self.head, step=self.step, target_after='unknown',
                            on_break=lambda I, env, k: [('every-line-is-visited', False)],
                            on_exit=lambda I, env, n: [('exactly-the-lines-of-the-block-were-visited', n == self._cur.m)])}

    def post_return(self, I, st, ret):
        reads = [x for x in st.log if x[0] == 'read']
        I.e.prove('C13/pointer-iter/reads-exactly-its-byte-range-once', z3.And(reads[0][1] == st.start, reads[0][2] == st.end - st.start) if len(reads) == 1 and reads[0][2] is not None else False)


# ----------------------------------------------------------------------------
# the indexGVF command
# ----------------------------------------------------------------------------
IGV = 'moPepGen/cli/index_gvf.py'


class _IdxOut13:
    def __init__(self, owner, name):
        self.owner, self.name = owner, name

    def sym_method(self, I, nm, a, k):
        st = self.owner._cur
        if nm in ('write', 'seek'):
            st.log.append((nm, self.name, a[0]))
            return None
        raise Unsupported(f'file.{nm}')

    def sym_view(self, I):
        st = self.owner._cur
        st.log.append(('read-back', self.name, None))
        return st.temp_lines


@register
class IndexGvfCLI(Contract):
    """indexGVF writes <file>.idx - the name the opener of callVariant looks for - holding first the line '# CHECKSUM=' + SHA-512 of the GVF
    bytes (the header validate_gvf_index reads), then one line per pointer that iterate_pointer yields for the file read from offset 0 with
    the circRNA flag of its metadata: pointer.to_line() and a line break, in order, nothing else"""
    path, qualname, props = IGV, 'index_gvf', ('C13',)
    assumptions = ('assumed: check_sha512(handle) is the SHA-512 of the file; a temporary text file reads back, after seek(0), the lines written to it; '
                   'iterate_pointer and GVFPointer.to_line are their own contracts (uninterpreted results here)',)

    def setup(self, I):
        e = I.e
        st = types.SimpleNamespace(log=[])
        st.n = e.int('n_pointers')
        e.assume(st.n >= 0)
        zz = lambda i: i if is_z3(i) else z3.IntVal(i)
        st.ptrs = FnView(st.n, lambda i: SymObj('Ptr13i', i=zz(i)), tag='pointers')
        st.temp_lines = FnView(st.n + 1, lambda j: SymObj('TempLine13i', j=zz(j)), tag='lines of the temporary file')
        st.sha = Tok('sha512_of_the_gvf')
        st.is_circ = e.bool('is_circ_rna')
        st.input = SymObj('GvfPath13i', suffix='.gvf')
        st.args = [SymObj('Namespace', input_path=st.input, quiet=True, command='indexGVF')]
        self._cur = st
        return st

    @property
    def models(self):
        c = self

        def inst(reg):
            sstr.install(reg)
            CM = 'moPepGen/cli/common.py'
            reg.func_(CM, 'print_start_message', lambda I, a, k: None)
            reg.func_(CM, 'validate_file_format', lambda I, a, k: None)
            reg.method_('GvfPath13i', 'with_suffix', lambda I, o, a, k: SymObj('IdxPath13i', of=o, suffix=a[0]))

            def open_(I, a, k):
                st = c._cur
                mode = a[1] if len(a) > 1 else k.get('mode', 'r')
                st.log.append(('open', a[0], mode))
                if isinstance(a[0], SymObj) and a[0].cls == 'IdxPath13i':
                    return _IdxOut13(c, 'out')
                return SymObj('GvfIn13i', mode=mode)
            reg.ext_('open', open_)
            reg.method_('GvfIn13i', 'seek', lambda I, o, a, k: c._cur.log.append(('in-seek', o, a[0])))
            reg.ext_('tempfile.TemporaryFile', lambda I, a, k: _IdxOut13(c, 'temp'))
            for pth in ('moPepGen/__init__.py', 'moPepGen/util/common.py'):
                reg.func_(pth, 'check_sha512', lambda I, a, k: (c._cur.log.append(('sha', a[0], None)), c._cur.sha)[1])
            reg.method_('GVFMetadata', 'parse', lambda I, o, a, k: SymObj('Meta13i'))
            reg.method_('Meta13i', 'is_circ_rna', lambda I, o, a, k: c._cur.is_circ)

            def it_ptr(I, a, k):
                st = c._cur
                h = k.get('handle', a[0] if a else None)
                flag = k.get('is_circ_rna', a[1] if len(a) > 1 else None)
                seeks = [x for x in st.log if x[0] == 'in-seek' and x[1] is h]
                I.e.prove('C13/indexGVF/pointers-scanned-from-the-start-of-the-binary-GVF-handle-with-the-kind-of-its-metadata',
                          isinstance(h, SymObj) and h.cls == 'GvfIn13i' and h.fields['mode'] == 'rb' and flag is st.is_circ and (not seeks or seeks[-1][2] == 0))
                return st.ptrs
            reg.func_(GVI, 'iterate_pointer', it_ptr)
            reg.ext_('GVFIndex.iterate_pointer', it_ptr)
            reg.method_('Ptr13i', 'to_line', lambda I, o, a, k: SymObj('PtrLine13i', i=o.fields['i']))
        return (inst,)

    def head(self, I, env, k):
        self._cur.mark = len(self._cur.log)

    def step0(self, I, env, k):
        st = self._cur
        w = [x for x in st.log[st.mark:] if x[0] == 'write']
        v = w[0][2] if len(w) == 1 and w[0][1] == 'temp' else None
        ok = isinstance(v, OpaqueStr) and len(v.parts) == 2 and v.parts[1] == '\n' and isinstance(v.parts[0], SymObj) and v.parts[0].cls == 'PtrLine13i'
        return [('pointer-k-written-once-as-its-own-line', v.parts[0].fields['i'] == k if ok else False)]

    def step1(self, I, env, k):
        st = self._cur
        w = [x for x in st.log[st.mark:] if x[0] == 'write']
        ok = len(w) == 1 and w[0][1] == 'out' and isinstance(w[0][2], SymObj) and w[0][2].cls == 'TempLine13i'
        return [('line-k-of-the-temporary-file-copied-once-unchanged-to-the-idx-file', w[0][2].fields['j'] == k if ok else False)]

    @property
    def loops(self):
        mk = lambda step, n: LoopSpec(inv=lambda I, env, k: [], on_head=self.head, step=step, target_after='unknown',
                                      on_break=lambda I, env, k: [('every-element-is-visited', False)],
                                      on_exit=lambda I, env, m: [('all-elements-were-visited', m == n())])
        return {0: mk(self.step0, lambda: self._cur.n), 1: mk(self.step1, lambda: self._cur.n + 1)}

    def post_return(self, I, st, ret):
        e = I.e
        outs = [x for x in st.log if x[0] == 'open' and isinstance(x[1], SymObj) and x[1].cls == 'IdxPath13i']
        e.prove('C13/indexGVF/index-written-to-the-file-name-plus-.idx', len(outs) == 1 and outs[0][1].fields['of'] is st.input and outs[0][2] in ('wt', 'w')
                and isinstance(outs[0][1].fields['suffix'], str) and outs[0][1].fields['suffix'] == '.gvf.idx')
        shas = [x for x in st.log if x[0] == 'sha']
        e.prove('C13/indexGVF/checksum-of-the-gvf-bytes', len(shas) == 1 and isinstance(shas[0][1], SymObj) and shas[0][1].cls == 'GvfIn13i' and shas[0][1].fields['mode'] == 'rb')
        tw = [x for x in st.log if x[0] == 'write' and x[1] == 'temp']
        first = tw[0][2] if tw else None
        # what validate_gvf_index reads: a comment line that, without its leading '#' and blanks, is CHECKSUM=<value>
        toks = sstr.merge(sstr.flat(first)) if isinstance(first, (OpaqueStr, str)) else []
        e.prove('C13/indexGVF/first-line-is-the-checksum-header-validate_gvf_index-reads',
                len(toks) == 3 and isinstance(toks[0], str) and toks[0].startswith('#') and toks[0].lstrip('# ') == 'CHECKSUM=' and toks[1] is st.sha and toks[2] == '\n')
        kinds = [(x[0], x[1]) for x in st.log]
        e.prove('C13/indexGVF/temporary-file-rewound-then-copied', ('seek', 'temp') in kinds and ('read-back', 'temp') in kinds
                and kinds.index(('seek', 'temp')) < kinds.index(('read-back', 'temp')) and [x[2] for x in st.log if x[0] == 'seek' and x[1] == 'temp'] == [0])


# ----------------------------------------------------------------------------
# byte-offset index of a GVF file
# ----------------------------------------------------------------------------
from .c11 import LinesModel, BytesLine, TextLine, Key


@register
class GvfIteratePointer(Contract):
    """every yielded pointer is the byte range of a maximal run of records with one transcript id; a pointer that was started is
    yielded when the run ends or at the end of the file (the per-transcript record set read through the pointers is therefore the
    linear scan filtered by transcript id, for any grouping of the records)"""
    path, qualname, props = GVI, 'iterate_pointer', ('C13', 'C06')
    uses_lemmas = ('byte_offsets_monotone',)
    assumptions = ('assumed: iterating a binary file yields its lines; len(bytes) = byte length >= len(decoded str); the line parsers give '
                   'the transcript id of a decoded record line (their round trip is proved separately)',)

    def setup(self, I):
        e = I.e
        L = LinesModel(e)
        for a in L.axioms:
            e.assume(a)
        st = types.SimpleNamespace(L=L, yielded=[], k=None)
        st.handle = SymObj('HandleStub')
        st.is_circ = e.bool('is_circ_rna')
        st.args = [st.handle, st.is_circ]
        self._cur = st
        return st

    @property
    def models(self):
        c = self

        def inst(reg):
            reg.protocol_('HandleStub', '__iter__', lambda I, o: FnView(c._cur.L.N, lambda i: BytesLine(c._cur.L, i if is_z3(i) else z3.IntVal(i)), tag='lines'))

            def to_record(I, a, kw):
                ln = a[0]
                if not isinstance(ln, TextLine):
                    I.raise_('TypeError', 'the record parser needs str')
                return SymObj('RecordStub', transcript_id=Key(c._cur.L.tid(ln.k)))
            reg.func_(SIO, 'line_to_variant_record', to_record)
            reg.func_(CIO, 'line_to_circ_model', to_record)
            reg.ext_('io.line_to_variant_record', to_record)
            reg.ext_('circ.io.line_to_circ_model', to_record)
            reg.on_yield = c.on_yield
        return (inst,)

    def havoc(self, I, env, k):
        st = self._cur
        e = I.e
        st.ta, st.tb = e.int('t_first'), e.int('t_last')
        if e.branch(e.bool('a_pointer_is_open'), 'a pointer is open'):
            key = e.int('cur_key')
            env['cur_key'] = Key(key)
            env['pointer'] = SymObj('GVFPointer', handle=st.handle, key=Key(e.int('p_key')), start=e.int('p_start'), end=e.int('p_end'),
                                    is_circ_rna=st.is_circ)
        else:
            env['cur_key'] = None
            env['pointer'] = None

    def run(self, a, b, key):
        L = self._cur.L
        j = z3.Int('j_run')
        return z3.And(0 <= a, a <= b, z3.Not(L.comment(a)), z3.Not(L.comment(b)),
                      z3.ForAll([j], z3.Implies(z3.And(a <= j, j <= b), z3.Or(L.comment(j), L.tid(j) == key))))

    def inv(self, I, env, k):
        st = self._cur
        L = st.L
        items = [('line_end=byte-offset-of-line-k', env['line_end'] == L.off(k))]
        p, ck = env['pointer'], env['cur_key']
        items.append(('open-pointer-iff-current-key', (p is None) == (ck is None)))
        if p is not None and ck is not None:
            f = p.fields
            j = z3.Int('j_after')
            items += [('pointer-non-empty', f['start'] < f['end']),
                      ('pointer-has-the-current-key', f['key'].code == ck.code),
                      ('pointer=byte-range-of-the-current-run',
                       z3.And(st.tb < k, f['start'] == L.off(st.ta), f['end'] == L.off(st.tb + 1), self.run(st.ta, st.tb, ck.code))),
                      ('only-comments-after-the-run-so-far', z3.ForAll([j], z3.Implies(z3.And(st.tb < j, j < k), L.comment(j))))]
        return items

    def on_head(self, I, env, k):
        st = self._cur
        st.k = k
        st.pre = dict(p=env['pointer'], ny=len(st.yielded), p_end=env['pointer'].fields['end'] if env['pointer'] is not None else None)

    def on_yield(self, I, frame, p):
        st = self._cur
        L, k, e = st.L, st.k, I.e
        st.yielded.append(p)
        if p is None or not isinstance(p, SymObj):
            e.prove('C13/gvf-index/yield/a-pointer', False)
            return
        f = p.fields
        key = f['key'].code
        j = z3.Int('j_y')
        e.prove('C13/gvf-index/yield/pointer=byte-range-of-a-run-of-one-transcript',
                z3.And(st.tb < L.N, f['start'] == L.off(st.ta), f['end'] == L.off(st.tb + 1), self.run(st.ta, st.tb, key)))
        e.prove('C13/gvf-index/yield/run-is-maximal-to-the-right',
                z3.And(z3.ForAll([j], z3.Implies(z3.And(st.tb < j, j < k), L.comment(j))),
                       z3.Or(k >= L.N, z3.And(z3.Not(L.comment(k)), L.tid(k) != key))))

    def step(self, I, env, k):
        st = self._cur
        L = st.L
        p = env['pointer']
        new_y = st.yielded[st.pre['ny']:]
        items = []
        if st.pre['p'] is not None and p is not st.pre['p']:
            items.append(('replaced-pointer-was-yielded', any(y is st.pre['p'] for y in new_y)))
        items.append(('only-the-closed-pointer-is-yielded', all(y is st.pre['p'] for y in new_y)))
        if p is not None and p is not st.pre['p']:
            st.ta = st.tb = k
            items.append(('pointer-opened-by-a-record-of-another-transcript',
                          z3.And(z3.Not(L.comment(k)), (st.pre['p'] is None) or (st.pre['p'].fields['key'].code != L.tid(k)))))
        elif p is not None and p.fields['end'] is not st.pre['p_end']:
            st.tb = k
        return items

    @property
    def loops(self):
        return {0: LoopSpec(inv=self.inv, havoc=self.havoc, on_head=self.on_head, step=self.step)}

    def post_return(self, I, st, ret):
        pre = getattr(st, 'pre', None)
        if pre is None:
            I.e.prove('C13/gvf-index/exit/loop-was-cut', False)
            return
        tail = st.yielded[pre['ny']:]
        I.e.prove('C13/gvf-index/exit/open-pointer-is-yielded', pre['p'] is None or any(y is pre['p'] for y in tail))
        I.e.prove('C13/gvf-index/exit/nothing-else-is-yielded', all(y is pre['p'] for y in tail))


@register
class PointerLineRoundTrip(Contract):
    """.idx line: GVFPointer.parse(to_line(p)) has the key, start and end of p"""
    path, qualname, props = GVI, 'GVFPointer.parse', ('C13', 'C06')
    models = (install_text,)

    def setup(self, I):
        e = I.e
        st = types.SimpleNamespace()
        st.start, st.end = e.int('p_start'), e.int('p_end')
        e.assume(z3.And(0 <= st.start, st.start <= st.end))
        st.key = Tok('transcript_id')
        st.gvf = SymObj('HandleStub')
        st.circ = e.bool('is_circ_rna')
        p = SymObj('GVFPointer', handle=st.gvf, key=st.key, start=st.start, end=st.end, is_circ_rna=st.circ)
        line = I.call_method(p, 'to_line', [], {})
        comment = '# CHECKSUM=abc\n'
        st.args = [ClassRef('GVFPointer', I.repo.get_class('GVFPointer')), [comment, sstr.build(sstr.flat(line) + ['\n'])], st.gvf, st.circ]
        self._cur = st
        return st

    def post_return(self, I, st, ret):
        ok = isinstance(ret, list) and len(ret) == 1 and isinstance(ret[0], SymObj)
        I.e.prove('C13/idx-line/one-pointer-per-index-line (comment lines skipped)', ok)
        if ok:
            f = ret[0].fields
            I.e.prove('C13/idx-line/key-start-end-restored',
                      z3.And(f['key'] is st.key, f['start'] == st.start, f['end'] == st.end, f['handle'] is st.gvf, f['is_circ_rna'] is st.circ))


class GhostPointerDict:
    """pool.pointers: key -> list of pointers; membership unconstrained, insertions reported"""
    def __init__(self, log):
        self.log = log

    present = z3.Function('key_already_has_pointers', I_, B_)

    def sym_contains(self, I, key):
        return self.present(key.code)

    def sym_getitem(self, I, key):
        log = self.log

        class L_:
            def sym_method(s_, I2, name, a, k):
                if name == 'append':
                    log.append(('append', key, a[0]))
                    return None
                raise Unsupported(name)
        return L_()

    def sym_setitem(self, I, key, v):
        self.log.append(('new', key, v))

    def sym_method(self, I, name, a, k):
        if name == 'update':
            # dict.update replaces the whole list of a key that is already there: the pointers earlier files installed under it are lost
            d = a[0] if a else None
            keys = [x for x in d.keys()] if isinstance(d, dict) else []
            nm = 'C13/install/earlier-pointers-of-a-key-are-kept (dict.update replaces the list of a key that is already present)'
            if keys and all(hasattr(x, 'code') for x in keys):
                for key in keys:
                    I.e.prove(nm, z3.Not(self.present(key.code)))
            else:
                I.e.prove(nm, False)
            self.log.append(('update', None, d))
            return None
        if name == 'setdefault' and len(a) == 2:
            # present: the list already there is returned and the default is dropped; absent: the default is stored
            key = a[0]
            if I.e.branch(self.present(key.code), 'key already has pointers'):
                return self.sym_getitem(I, key)
            self.log.append(('new', key, a[1]))
            return a[1]
        raise Unsupported(f'pointers.{name}')


class _LocalList13:
    def __init__(self, table):
        self.table = table

    def sym_method(self, I, name, a, k):
        if name in ('append', 'extend'):
            self.table.writes += 1
            return None
        raise Unsupported(f'list of a local table.{name}')


class _LocalTable13:
    """a dict local to the function that the loop fills: its content at an arbitrary iteration is unknown (some keys, each with some pointers).
    Handing it to pointers.update() is judged by the model of update (keys unknown: an existing key may be replaced)."""
    def __init__(self, name):
        self.name, self.writes = name, 0

    def sym_method(self, I, name, a, k):
        if name == 'setdefault' and len(a) == 2:
            self.writes += 1
            return _LocalList13(self)
        if name == 'get':
            return _LocalList13(self) if I.e.branch(I.e.bool('local_table_has_key'), 'key in the local table') else (a[1] if len(a) > 1 else None)
        raise Unsupported(f'local table {self.name}.{name}')

    def sym_contains(self, I, key):
        return I.e.bool('local_table_has_key')

    def sym_getitem(self, I, key):
        return _LocalList13(self)

    def sym_setitem(self, I, key, v):
        self.writes += 1


class _InstallPointers(Contract):
    """every pointer produced by the reader / generator is stored under its own key, in order, and nothing else is stored"""
    props = ('C13', 'C06', 'C05')      # C05: a GVF file added to the run only adds pointers, the pointers of the files before it stay
    reader = 'parse'

    def setup(self, I):
        e = I.e
        st = types.SimpleNamespace(log=[], seeks=[])
        st.N = e.int('n_pointers')
        e.assume(st.N >= 0)
        st.pool = SymObj('VariantRecordPoolOnDisk', pointers=GhostPointerDict(st.log), gvf_files=[], gvf_handles=[], anno=None, genome=None)
        st.gvf_handle = SymObj('GvfHandle')
        st.is_circ = e.bool('is_circ_rna')
        st.ptrs = FnView(st.N, lambda i: SymObj('GVFPointer', key=Key(z3.Function('ptr_key', I_, I_)(i if is_z3(i) else z3.IntVal(i))), idx=i), tag='pointers')
        st.args = [st.pool, OpaqueStr(['idx']), OpaqueStr(['gvf']), st.gvf_handle] if self.reader == 'parse' else [st.pool, OpaqueStr(['gvf']), st.gvf_handle]
        self._cur = st
        return st

    @property
    def models(self):
        c = self

        def inst(reg):
            reg.ext_('open', lambda I, a, k: SymObj('File', path=a[0]))
            reg.method_('GVFMetadata', 'parse', lambda I, o, a, k: SymObj('MetaStub'))
            reg.method_('MetaStub', 'is_circ_rna', lambda I, o, a, k: c._cur.is_circ)
            reg.method_('GvfHandle', 'seek', lambda I, o, a, k: c._cur.seeks.append(a))

            def parse(I, o, a, k):
                st = c._cur
                I.e.prove('C13/load_index/reader-gets-the-open-gvf-handle-and-kind', k.get('gvf_handle') is st.gvf_handle and k.get('is_circ_rna') is st.is_circ)
                return st.ptrs
            reg.method_('GVFPointer', 'parse', parse)

            def gen(I, a, k):
                st = c._cur
                I.e.prove('C13/generate_index/scanner-gets-the-open-gvf-handle-and-kind', a[0] is st.gvf_handle and a[1] is st.is_circ)
                return st.ptrs
            reg.func_(GVI, 'iterate_pointer', gen)
        return (inst,)

    def havoc(self, I, env, k):
        # a plain dict local to the function: unknown content at an arbitrary iteration
        self._cur.locals = []
        for nm, v in list(env.vars.items()):
            if type(v) is dict and not nm.startswith('__'):
                t = _LocalTable13(nm)
                env.set(nm, t)
                self._cur.locals.append(t)

    def on_head(self, I, env, k):
        self._cur.n0 = len(self._cur.log)
        self._cur.w0 = sum(t.writes for t in getattr(self._cur, 'locals', []))

    def step(self, I, env, k):
        st = self._cur
        new = st.log[st.n0:]
        if not new and sum(t.writes for t in getattr(st, 'locals', [])) > st.w0:
            return []       # collected in a local table: judged where the table is merged into the pool
        ok = len(new) == 1
        good = False
        if ok:
            kind, key, v = new[0]
            p = v[0] if kind == 'new' and isinstance(v, list) and len(v) == 1 else (v if kind == 'append' else None)
            good = p is not None and isinstance(p, SymObj) and z3.is_true(z3.simplify(p.fields['idx'] == k)) and key is p.fields['key']
            if good:
                had = GhostPointerDict.present(key.code)
                return [('pointer-k-stored-once-under-its-own-key', True),
                        ('earlier-pointers-of-the-key-are-kept (append to an existing list, new list only for a new key)',
                         had if kind == 'append' else z3.Not(had))]
        return [('pointer-k-stored-once-under-its-own-key', ok and good)]

    @property
    def loops(self):
        return {0: LoopSpec(inv=lambda I, env, k: [], havoc=self.havoc, on_head=self.on_head, step=self.step)}


@register
class LoadIndex(_InstallPointers):
    path, qualname = POD, 'VariantRecordPoolOnDisk.load_index'
    reader = 'parse'


@register
class GenerateIndex(_InstallPointers):
    path, qualname = POD, 'VariantRecordPoolOnDisk.generate_index'
    reader = 'scan'


@register
class ValidateGvfIndex(Contract):
    """accepted iff the checksum recorded in the .idx header equals the SHA-512 of the GVF bytes; otherwise ValueError"""
    path, qualname, props = POD, 'VariantRecordPoolOnDisk.validate_gvf_index', ('C13',)
    declared_raises = ['ValueError']
    models = (install_text,)
    assumptions = ('assumed: check_sha512(handle) is the SHA-512 of the file content (collision-free); the .idx header is one of the '
                   'enumerated shapes: checksum line first / after another comment / missing / empty file',)
    SHAPES = ('first', 'second', 'missing', 'empty', 'after-data')

    def setup(self, I):
        e = I.e
        st = types.SimpleNamespace()
        st.actual = SymStr(z3.Const('sha512_of_gvf', e.StrSort))
        st.recorded = SymStr(z3.Const('checksum_in_idx', e.StrSort))
        st.shape = self.SHAPES[e.choose(len(self.SHAPES), 'idx header shape')]
        chk = OpaqueStr(['# CHECKSUM=', st.recorded, '\n'])
        data = 'ENST1\t0\t10\n'
        st.lines = {'first': [chk, data], 'second': ['# moPepGen index\n', chk, data], 'missing': ['# moPepGen index\n', data],
                    'empty': [], 'after-data': [data, chk]}[st.shape]
        st.args = [OpaqueStr(['gvf']), OpaqueStr(['idx'])]
        self._cur = st
        return st

    @property
    def models(self):
        c = self

        def inst(reg):
            sstr.install(reg)
            class IdxFile:
                def sym_iter_concrete(s_, I):
                    return list(c._cur.lines)
            reg.ext_('open', lambda I, a, k: IdxFile() if (len(a) > 1 and a[1] == 'rt') else SymObj('File', path=a[0]))
            reg.func_('moPepGen/__init__.py', 'check_sha512', lambda I, a, k: c._cur.actual)
            reg.func_('moPepGen/util/common.py', 'check_sha512', lambda I, a, k: c._cur.actual)
            # file metadata (modification times, sizes) are arbitrary: they say nothing about the content
            mk_stat = lambda I: SymObj('StatResult13', st_mtime=I.e.int('st_mtime'), st_size=I.e.int('st_size'), st_ctime=I.e.int('st_ctime'), st_mtime_ns=I.e.int('st_mtime_ns'))
            reg.ext_('pathlib.Path', lambda I, a, k: SymObj('PathStub13', of=a[0]))
            reg.method_('PathStub13', 'stat', lambda I, o, a, k: mk_stat(I))
            reg.method_('PathStub13', 'exists', lambda I, o, a, k: True)
            reg.ext_('os.stat', lambda I, a, k: mk_stat(I))
            reg.ext_('os.path.getmtime', lambda I, a, k: I.e.int('st_mtime'))
            reg.ext_('os.path.getsize', lambda I, a, k: I.e.int('st_size'))
        return (inst,)

    def has_checksum(self):
        return self._cur.shape in ('first', 'second')

    def post_return(self, I, st, ret):
        I.e.prove('C13/validate/accepted-only-if-recorded-checksum-equals-the-gvf-checksum',
                  z3.And(ret is True, self.has_checksum(), st.actual.term == st.recorded.term))

    def post_raise(self, I, st, exc):
        I.e.prove('C13/validate/rejected-only-if-checksum-missing-or-different',
                  z3.Or(not self.has_checksum(), st.actual.term != st.recorded.term))


@register
class OpenerOpen(Contract):
    """every GVF file is opened once; with an .idx file the checksum is validated BEFORE the index is loaded, without one the index is
    generated by scanning the file"""
    path, qualname, props = POD, 'VariantRecordPoolOnDiskOpener.open', ('C13', 'C06')

    def setup(self, I):
        e = I.e
        st = types.SimpleNamespace(log=[])
        st.N = e.int('n_files')
        e.assume(st.N >= 0)
        st.has_idx = z3.Function('idx_file_exists', I_, B_)
        # the same path may be given twice; two different paths may share their base name
        st.same_path, st.same_base = z3.Function('same_path_given_earlier', I_, B_), z3.Function('same_base_name_given_earlier', I_, B_)

        class Handles:
            def sym_method(s_, I2, name, a, k):
                if name == 'append':
                    st.log.append(('handle', a[0]))
                    return None
                raise Unsupported(name)
        files = FnView(st.N, lambda i: SymObj('PathStub13', i=i if is_z3(i) else z3.IntVal(i)), tag='gvf_files')
        st.pool = SymObj('PoolStub13', gvf_files=files, gvf_handles=Handles())
        st.args = [SymObj('VariantRecordPoolOnDiskOpener', pool=st.pool)]
        self._cur = st
        return st

    @property
    def models(self):
        c = self

        def inst(reg):
            st_ = lambda: c._cur
            reg.method_('PathStub13', 'open', lambda I, o, a, k: SymObj('Handle13', i=o.fields['i']))
            reg.method_('PathStub13', 'with_suffix', lambda I, o, a, k: SymObj('IdxPath13', i=o.fields['i']))
            reg.attr_('PathStub13', 'suffix', lambda I, o: '.gvf')
            for nm in ('name', 'stem'):
                reg.attr_('PathStub13', nm, lambda I, o: SymObj('BaseName13', i=o.fields['i']))

            class Seen:
                """a set the function keeps of what it has opened: asked whether a path / a base name was met before"""
                def sym_contains(s_, I, item):
                    if isinstance(item, SymObj) and item.cls == 'PathStub13':
                        return st_().same_path(item.fields['i'])
                    if isinstance(item, SymObj) and item.cls == 'BaseName13':
                        return st_().same_base(item.fields['i'])
                    raise Unsupported(f'membership of {item!r}')

                def sym_method(s_, I, name, a, k):
                    if name == 'add':
                        return None
                    raise Unsupported(f'set.{name}')
            reg.empty_set_hook = lambda I: Seen()
            reg.method_('IdxPath13', 'exists', lambda I, o, a, k: st_().has_idx(o.fields['i']))
            for nm in ('validate_gvf_index', 'load_index', 'generate_index'):
                reg.method_('PoolStub13', nm, lambda I, o, a, k, nm=nm: st_().log.append((nm, a)))
        return (inst,)

    def on_head(self, I, env, k):
        self._cur.n0 = len(self._cur.log)

    def step(self, I, env, k):
        st = self._cur
        new = st.log[st.n0:]
        names = [x[0] for x in new]
        same = lambda o: isinstance(o, SymObj) and z3.is_true(z3.simplify(o.fields['i'] == k))
        if names == ['handle', 'validate_gvf_index', 'load_index']:
            a_v, a_l = new[1][1], new[2][1]
            ok = same(new[0][1]) and same(a_v[0]) and same(a_v[1]) and same(a_l[0]) and same(a_l[1]) and a_l[2] is new[0][1]
            return [('with-idx: validated-then-loaded-for-this-file', z3.And(st.has_idx(k), ok))]
        if names == ['handle', 'generate_index']:
            a_g = new[1][1]
            return [('without-idx: index-generated-from-this-file', z3.And(z3.Not(st.has_idx(k)), same(a_g[0]) and a_g[1] is new[0][1]))]
        if not names:
            # a file may be passed over only when the very same path was already opened (its records would be read twice otherwise
            # and merged again by set()); another file with the same base name is a different file
            I.e.assume(z3.Implies(st.same_path(k), st.same_base(k)))
            return [('a-file-is-passed-over-only-if-the-same-path-was-opened-before', st.same_path(k))]
        return [('each-file-is-indexed-in-one-of-the-two-ways', False)]

    @property
    def loops(self):
        return {0: LoopSpec(inv=lambda I, env, k: [], on_head=self.on_head, step=self.step, target_after='unknown')}



# ----------------------------------------------------------------------------
# Native side
# ----------------------------------------------------------------------------
from pyvc.native import NativeCheck


def _gen_record(rng, kind, tx, gene):
    from moPepGen.seqvar.VariantRecord import VariantRecord
    from moPepGen.SeqFeature import FeatureLocation
    k = KINDS[kind]
    start = rng.choice([0, 1, rng.randint(2, 500)])
    nt = lambda n: ''.join(rng.choice('ACGT') for _ in range(n))
    ref = nt(k['ref'] or rng.randint(2, 5))
    alt = k['alt'] if isinstance(k['alt'], str) else nt(k['alt'] or rng.randint(2, 5))
    end = start + len(ref)
    if k['type'] in ('Fusion', 'Insertion'):
        end = start + 1
    if k['type'] in ('Deletion', 'Substitution'):
        end = start + rng.randint(1, 40)
    attrs = {}
    for a in k['attrs']:
        if a == 'TRANSCRIPT_ID':
            attrs[a] = tx
        elif a == 'END':
            attrs[a] = end
        elif a in INT_ATTRS:
            attrs[a] = rng.choice([0, 1, rng.randint(2, 300)])
        else:
            attrs[a] = f'{a.lower()}_{rng.randint(0, 99)}:x-y.z' + rng.choice(['', '', '\u00f6', '\u4e2d\u6587'])   # multi-byte characters: byte offsets
    return VariantRecord(FeatureLocation(seqname=gene, start=start, end=end), ref, alt, k['type'], f'{k["type"]}-{start + 1}-{rng.randint(0, 9)}', attrs)


class NativeGvfRoundTrip(NativeCheck):
    name = 'gvf_roundtrip_and_index'
    props = ('C13', 'C06')
    functions = (f'{SIO}:line_to_variant_record', f'{CIO}:line_to_circ_model', f'{GVI}:iterate_pointer', f'{GVI}:GVFPointer.parse',
                 f'{POD}:VariantRecordPoolOnDisk.validate_gvf_index', f'{POD}:VariantRecordPoolOnDisk.load_index',
                 f'{POD}:VariantRecordPoolOnDisk.generate_index', f'{POD}:VariantRecordPoolOnDiskOpener.open')
    bounded_for = 'record sets through the byte-offset index (.idx or generated) equal a linear scan, for interleaved transcripts across files; a stale .idx is rejected'
    bound = ('per case: 12-30 records of every kind (positions 0/1/random, every attribute of the kind) over 2-4 transcripts, interleaved '
             'in 1-3 GVF files, with and without an .idx written by the real indexGVF; circRNA files with 1-3 fragments; one '
             'edit-after-index history; quick 12 cases, thorough 150')
    quick_budget_s = 25
    thorough_budget_s = 200

    def cases(self, rng, tier):
        for i in range(12 if tier != 'thorough' else 150):
            yield dict(seed=rng.randrange(10 ** 9), files=rng.randint(1, 3), idx=i % 2 == 0, circ=i % 4 == 3)

    def from_model(self, model):
        return dict(seed=3, files=2, idx=True, circ=False)

    def check(self, inp):
        import random, tempfile, shutil, argparse
        from pathlib import Path
        from moPepGen.seqvar import io as sio, GVFMetadata
        from moPepGen.seqvar.VariantRecordPoolOnDisk import VariantRecordPoolOnDisk, VariantRecordPoolOnDiskOpener
        from moPepGen.circ import io as cio, CircRNAModel
        from moPepGen.SeqFeature import FeatureLocation, SeqFeature
        from moPepGen.cli.index_gvf import index_gvf
        rng = random.Random(inp['seed'])
        txs = [f'ENST{t:04d}.1' for t in range(rng.randint(2, 4))]
        d = Path(tempfile.mkdtemp(prefix='verif_c13_'))
        try:
            # 1. line round trip
            per_file = []
            for f in range(inp['files']):
                recs = []
                for _ in range(rng.randint(4, 10)):
                    tx = rng.choice(txs)
                    if inp['circ']:
                        n = rng.randint(1, 3)
                        st_, frags = rng.randint(0, 300), []
                        pos = st_
                        for _j in range(n):
                            ln = rng.randint(5, 40)
                            frags.append(SeqFeature(chrom='G', attributes={}, location=FeatureLocation(seqname='G', start=pos, end=pos + ln), type='exon'))
                            pos += ln + rng.randint(1, 30)
                        if rng.random() < 0.5:
                            frags.reverse()          # minus-strand records list their fragments in descending gene order
                        m = CircRNAModel(tx, frags, [], f'CIRC-{tx}-{st_}:{pos}', 'G', 'SYM', f'chr1:{st_}:{pos}')
                        line = m.to_string()
                        back = cio.line_to_circ_model(line)
                        if back.to_string() != line:
                            return dict(call='circ to_string -> line_to_circ_model -> to_string', observed=back.to_string(), expected=line,
                                        signature='circ-line-not-reproduced')
                        recs.append((tx, line))
                    else:
                        kind = rng.choice(list(KINDS))
                        r = _gen_record(rng, kind, tx, 'ENSG0001.1')
                        line = r.to_string()
                        back = sio.line_to_variant_record(line)
                        if back.to_string() != line:
                            return dict(call=f'{kind}: to_string -> line_to_variant_record -> to_string', observed=back.to_string(), expected=line,
                                        signature='line-not-reproduced')
                        if (int(back.location.start), int(back.location.end)) != (int(r.location.start), int(r.location.end)):
                            return dict(call=f'{kind}: location after parsing', observed=str(back.location), expected=str(r.location), signature='location')
                        recs.append((tx, line))
                per_file.append(recs)
            # 2. files, index, access
            paths = []
            for f, recs in enumerate(per_file):
                pth = d / f'in{f}.gvf'
                meta = GVFMetadata(parser='parseCIRCexplorer' if inp['circ'] else 'parseVEP', source='circRNA' if inp['circ'] else 'gSNP', chrom='Gene ID',
                                   genome_fasta='/data/Sj\u00f6gren/g\u00e9nome.fa' if f % 2 == 0 else '/data/genome.fa')
                if inp['circ']:
                    meta.add_info('circRNA')
                with open(pth, 'wt', encoding='utf-8') as fh:
                    for hl in meta.to_strings():
                        fh.write(hl + '\n')
                    fh.write('#CHROM\tPOS\tID\tREF\tALT\tQUAL\tFILTER\tINFO\n')
                    for _, line in recs:
                        fh.write(line + '\n')
                if inp['idx']:
                    index_gvf(argparse.Namespace(command='indexGVF', input_path=pth, quiet=True, debug_level=1))
                paths.append(pth)
            pool = VariantRecordPoolOnDisk(gvf_files=paths)
            with VariantRecordPoolOnDiskOpener(pool):
                for tx in txs:
                    want = sorted(line for recs in per_file for t, line in recs if t == tx)
                    got = sorted(x.to_string() for p_ in pool.pointers.get(tx, []) for x in p_.load())
                    if got != want:
                        return dict(call=f'records of {tx} through the index (idx files: {inp["idx"]})', observed=str(got)[:400], expected=str(want)[:400],
                                    signature='index-differs-from-linear-scan')
            # 3. stale index: the pair was accepted above (same process); after an edit it must be rejected
            if inp['idx']:
                with open(paths[0], 'at') as fh:
                    fh.write(per_file[0][0][1] + '\n')
                pool2 = VariantRecordPoolOnDisk(gvf_files=paths)
                try:
                    with VariantRecordPoolOnDiskOpener(pool2):
                        pass
                    return dict(call='open after editing an indexed GVF', observed='accepted', expected='ValueError (checksum)', signature='stale-index-accepted')
                except ValueError:
                    pass
        finally:
            shutil.rmtree(d, ignore_errors=True)
        return None

    def nontrivial(self, inp):
        return (inp['seed'],)


NATIVE = [NativeGvfRoundTrip()]


# ----------------------------------------------------------------------------
# metadata section of a GVF file: write -> parse
# ----------------------------------------------------------------------------
GMD = 'moPepGen/seqvar/GVFMetadata.py'


class _MetaHandle13:
    """a text file positioned at its start whose first lines are `lines` (each ends with a line break), followed by the column header.
    tell() is the byte offset of the line the cursor is at (an uninterpreted increasing function of the line number: a character may take
    several bytes, so it is not the number of characters read); seek() must be given such an offset"""
    def __init__(self, I, lines):
        self.lines, self.pos, self.log = list(lines), 0, []
        self.offset = z3.Function('byte_offset_of_line', I_, I_)
        self.chars = z3.Function('characters_in_line', I_, I_)
        I.e.assume(self.offset(0) == 0)
        for j in range(len(self.lines)):
            # a line of c characters takes at least c bytes
            I.e.assume(z3.And(self.chars(j) >= 1, self.offset(j + 1) >= self.offset(j) + self.chars(j)))

    def sym_method(self, I, name, a, kw):
        if name == 'tell':
            return self.offset(min(self.pos, len(self.lines)))
        if name == 'readline':
            ln = self.lines[self.pos] if self.pos < len(self.lines) else ''
            self.pos += 1
            return ln
        if name == 'seek' and len(a) == 1:
            self.log.append(('seek', a[0]))
            return None
        raise Unsupported(f'handle.{name}')

    def line_length(self, v):
        for j, ln in enumerate(self.lines):
            if v is ln:
                return self.chars(j)
        return None


def _meta_len_model(c):
    def inst(reg):
        def len_(I, a, k):
            h = c._cur.handle
            n = h.line_length(a[0]) if a else None
            if n is not None:
                return n
            if a and isinstance(a[0], (list, tuple, dict, str, set)):
                return len(a[0])
            raise Unsupported('len() of this value inside GVFMetadata.py')
        reg.global_(GMD, 'len', Builtin('len', len_))
    return inst


class _MetaRoundTrip(Contract):
    """GVFMetadata.parse(handle) on the lines GVFMetadata.to_strings() wrote (followed by the column header) gives back the parser, source, chromosome
    description, moPepGen version and the three reference paths (None for one that was not given), a metadata object that writes the identical lines
    again (INFO table included), and leaves the handle at the byte offset of the first
    line that is not metadata"""
    path, qualname, props = GMD, 'GVFMetadata.parse', ('C13',)
    kind = 'with-reference-paths'

    @property
    def models(self):
        return (install_text, _meta_len_model(self))

    assumptions = ('assumed: parser name, source, version and paths contain no line break, and no = , < > quote at their ends (structured strings, pyvc/sstr.py); '
                   'the INFO table is the Base table of the package',)

    def name(self):
        return f'{self.path}:{self.qualname}[{self.kind}]'

    def setup(self, I):
        st = types.SimpleNamespace()
        paths = self.kind == 'with-reference-paths'
        mod = I.repo.module('moPepGen/seqvar/GVFMetadataInfo.py')
        info = I.eval_const(mod, mod.consts['GVF_METADATA_INFO'])['Base']
        st.fields = dict(parser=Tok('parser'), source=Tok('source'), chrom=Tok('chrom_description'), version=Tok('version'),
                         reference_index=Tok('index_dir') if paths else None, genome_fasta=Tok('genome_fasta') if paths else None,
                         annotation_gtf=Tok('annotation_gtf') if paths else None)
        st.info = info
        st.meta = SymObj('GVFMetadata', alt={}, info=dict(info), added_types=[], additional=None, **st.fields)
        lines = I.call_method(st.meta, 'to_strings', [], {})
        st.n_lines = len(lines)
        st.lines = list(lines)
        st.handle = _MetaHandle13(I, [sstr.build(sstr.flat(ln) + ['\n']) for ln in lines] + ['#CHROM\tPOS\tID\tREF\tALT\tQUAL\tFILTER\tINFO\n'])
        st.args = [ClassRef('GVFMetadata', I.repo.get_class('GVFMetadata')), st.handle]
        self._cur = st
        return st

    def post_return(self, I, st, ret):
        e = I.e
        f = ret.fields
        for k, v in st.fields.items():
            got = f.get(k, 'missing')
            e.prove(f'C13/metadata/{self.kind}/{k}-read-back', z3.BoolVal(bool(got is v or (v is None and got is None))))
        lines2 = I.call_method(ret, 'to_strings', [], {})
        same = len(lines2) == len(st.lines) and all(as_bool(text_eq(I, a, b)) is True or z3.is_true(z3.simplify(as_bool(text_eq(I, a, b)))) for a, b in zip(st.lines, lines2))
        e.prove(f'C13/metadata/{self.kind}/the-metadata-read-back-writes-the-identical-lines', z3.BoolVal(bool(same)))
        seeks = [x[1] for x in st.handle.log if x[0] == 'seek']
        e.prove(f'C13/metadata/{self.kind}/handle-left-at-the-byte-offset-of-the-column-header',
                seeks[-1] == st.handle.offset(st.n_lines) if seeks and (is_z3(seeks[-1]) or isinstance(seeks[-1], int)) else z3.BoolVal(False))

    def post_raise(self, I, st, exc):
        I.e.note(f'raised {exc.cls} {getattr(exc, "args", None)!r}')
        I.e.prove(f'C13/metadata/{self.kind}/written-metadata-is-parsable', False)


for _k in ('with-reference-paths', 'without-reference-paths'):
    register(type(f'MetaRoundTrip_{_k.replace("-", "_")}', (_MetaRoundTrip,), dict(kind=_k, __doc__=_MetaRoundTrip.__doc__)))


# ----------------------------------------------------------------------------
# circRNA files: the reader loop and the writer
# ----------------------------------------------------------------------------
@register
class IterateCirc(Contract):
    """circ.io.parse(handle) yields line_to_circ_model(line) for exactly the lines that do not start with '#', each once, in file order"""
    path, qualname, props = CIO, 'parse', ('C13', 'C17')

    def setup(self, I):
        e = I.e
        st = types.SimpleNamespace(yielded=[])
        st.n = e.int('n_lines')
        e.assume(st.n >= 0)
        st.comment = z3.Function('line_is_a_comment', I_, B_)
        zz = lambda i: i if is_z3(i) else z3.IntVal(i)
        st.args = [FnView(st.n, lambda i: _GvfLine(self, zz(i)), tag='lines of the file')]
        from .tables import first_loop_kind
        if first_loop_kind(I, self.path, self.qualname) != 'for':
            raise Unsupported('the reader is not written as `for line in handle` (this contract follows that form)')
        self._cur = st
        return st

    @property
    def models(self):
        c = self

        def inst(reg):
            reg.func_(CIO, 'line_to_circ_model', lambda I, a, k: SymObj('ParsedCirc13', of=a[0].i) if isinstance(a[0], _GvfLine) else I.raise_('TypeError', 'not a line'))
            reg.on_yield = lambda I, frame, v: c._cur.yielded.append(v)
        return (inst,)

    def head(self, I, env, k):
        self._cur.mark = len(self._cur.yielded)

    def step(self, I, env, k):
        st = self._cur
        new = st.yielded[st.mark:]
        if not new:
            return [('a-line-is-passed-over-only-as-a-comment', st.comment(k))]
        ok = len(new) == 1 and isinstance(new[0], SymObj) and new[0].cls == 'ParsedCirc13'
        return [('one-record-per-record-line-parsed-from-that-line', z3.And(z3.Not(st.comment(k)), new[0].fields['of'] == k) if ok else False)]

    @property
    def loops(self):
        return {0: LoopSpec(inv=lambda I, env, k: [], on_head=self.head, step=self.step, target_after='unknown',
                            on_break=lambda I, env, k: [('every-line-is-visited', False)],
                            on_exit=lambda I, env, n: [('all-lines-were-visited', n == self._cur.n)])}


@register
class WriteCirc(Contract):
    """circ.io.write(records, metadata, handle): the circRNA kind is reported to the metadata before its lines are asked for; the handle receives the
    metadata lines (each with a line break), then the column header starting with '#', then one line per record - its own to_string() plus a line
    break - in the order given, and nothing else"""
    path, qualname, props = CIO, 'write', ('C13', 'C17')
    assumptions = ('assumed: GVFMetadata.to_strings yields comment lines (under its own round-trip contract)',)

    def setup(self, I):
        e = I.e
        st = types.SimpleNamespace(log=[])
        st.n = e.int('n_records')
        st.nmeta = e.int('n_metadata_lines')
        e.assume(z3.And(st.n >= 0, st.nmeta >= 0))
        zz = lambda i: i if is_z3(i) else z3.IntVal(i)
        st.records = FnView(st.n, lambda i: SymObj('Circ13w', i=zz(i)), tag='records')
        st.meta = SymObj('GVFMetadata13c')
        st.args = [st.records, st.meta, _OutFile13(self, 'out')]
        self._cur = st
        return st

    @property
    def models(self):
        c = self

        def inst(reg):
            sstr.install(reg)
            reg.method_('Circ13w', 'to_string', lambda I, o, a, k: SymObj('LineOf13c', i=o.fields['i']))
            reg.method_('GVFMetadata13c', 'add_info', lambda I, o, a, k: c._cur.log.append(('add_info', None, a[0])))
            reg.method_('GVFMetadata13c', 'to_strings', lambda I, o, a, k: (c._cur.log.append(('to_strings', None, None)),
                                                                             FnView(c._cur.nmeta, lambda j: SymObj('MetaLine13c', j=j if is_z3(j) else z3.IntVal(j)), tag='metadata lines'))[1])
        return (inst,)

    def head(self, I, env, k):
        self._cur.mark = len(self._cur.log)

    def step_meta(self, I, env, k):
        st = self._cur
        w = [x for x in st.log[st.mark:] if x[0] == 'write']
        ln = WriteGvf.line_of(w[0][2], 'MetaLine13c') if len(w) == 1 and w[0][1] == 'out' and len(st.log[st.mark:]) == 1 else None
        return [('metadata-line-k-written-once-with-a-line-break', ln.fields['j'] == k if ln is not None else False)]

    def step_rec(self, I, env, k):
        st = self._cur
        w = [x for x in st.log[st.mark:] if x[0] == 'write']
        ln = WriteGvf.line_of(w[0][2], 'LineOf13c') if len(w) == 1 and w[0][1] == 'out' and len(st.log[st.mark:]) == 1 else None
        return [('record-k-written-once-as-its-own-line-with-a-line-break', ln.fields['i'] == k if ln is not None else False)]

    @property
    def loops(self):
        mk = lambda step, n: LoopSpec(inv=lambda I, env, k: [], on_head=self.head, step=step, target_after='unknown',
                                      on_break=lambda I, env, k: [('every-element-is-visited', False)],
                                      on_exit=lambda I, env, m: [('all-elements-were-visited', m == n())])
        return {0: mk(self.step_meta, lambda: self._cur.nmeta), 1: mk(self.step_rec, lambda: self._cur.n)}

    def post_return(self, I, st, ret):
        e = I.e
        # outside the two loops: add_info('circRNA'), to_strings, the column header - in this order, nothing else
        kinds = [(x[0], x[2]) for x in st.log]
        ai = [i for i, x in enumerate(st.log) if x[0] == 'add_info']
        ts = [i for i, x in enumerate(st.log) if x[0] == 'to_strings']
        e.prove('C13/circ-write/circRNA-reported-to-the-metadata-once-before-its-lines-are-asked-for',
                len(ai) == 1 and len(ts) == 1 and st.log[ai[0]][2] == 'circRNA' and ai[0] < ts[0])
        hdr = [i for i, x in enumerate(st.log) if x[0] == 'write' and x[1] == 'out' and isinstance(x[2], str)]
        e.prove('C13/circ-write/one-column-header-line-starting-with-#-after-the-metadata-request',
                len(hdr) == 1 and st.log[hdr[0]][2].startswith('#') and st.log[hdr[0]][2].endswith('\n') and st.log[hdr[0]][2].count('\n') == 1 and (not ts or ts[0] < hdr[0]))


@register
class IsCircRna(Contract):
    """GVFMetadata.is_circ_rna(): true iff the file was written by parseCIRCexplorer - the one parser whose records are circRNA lines; every other writer
    emits variant lines, whatever INFO keys its metadata section declares (which reader a file is given to follows from this answer alone)"""
    path, qualname, props = GMD, 'GVFMetadata.is_circ_rna', ('C13', 'C17')

    def setup(self, I):
        st = types.SimpleNamespace()
        st.is_circ_parser = I.e.bool('written_by_parseCIRCexplorer')
        parser = 'parseCIRCexplorer' if I.e.branch(st.is_circ_parser, 'written by parseCIRCexplorer') else Tok('another_parser')
        info = types.SimpleNamespace(sym_contains=lambda I2, key: I2.e.bool('info_declares_key'), sym_method=lambda I2, n, a, k: (_ for _ in ()).throw(Unsupported(f'info.{n}')))
        st.meta = SymObj('GVFMetadata', parser=parser, source=Tok('source'), chrom=Tok('chrom'), info=info, alt={}, additional=None, added_types=[],
                         reference_index=None, genome_fasta=None, annotation_gtf=None, version=Tok('version'))
        st.args = [st.meta]
        self._cur = st
        return st

    def post_return(self, I, st, ret):
        from pyvc.core import as_bool
        I.e.prove('C13/metadata/circRNA-file-iff-written-by-parseCIRCexplorer', as_bool(ret) == st.is_circ_parser)


class _ParseGvf(Contract):
    """seqvar.io.parse(handle): every record iterate() reads from the handle - or from the file opened for reading when a path is given - is yielded
    exactly once, in order, and nothing else (iterate is under its own contract)"""
    path, qualname, props = SIO, 'parse', ('C13',)
    by_path = False

    def name(self):
        return f'{self.path}:{self.qualname}[{"path" if self.by_path else "open handle"}]'

    def setup(self, I):
        st = types.SimpleNamespace(yielded=[], log=[])
        st.n = I.e.int('n_records')
        I.e.assume(st.n >= 0)
        zz = lambda i: i if is_z3(i) else z3.IntVal(i)
        st.records = FnView(st.n, lambda i: SymObj('Rec13p', i=zz(i)), tag='records iterate() yields')
        st.stream = SymObj('Stream13p')
        st.args = ['variants.gvf' if self.by_path else st.stream]
        self._cur = st
        return st

    @property
    def models(self):
        c = self

        def inst(reg):
            reg.ext_('open', lambda I, a, k: (c._cur.log.append(('open', a[0], a[1] if len(a) > 1 else k.get('mode', 'r'))), c._cur.stream)[1])
            reg.method_('Stream13p', '__enter__', lambda I, o, a, k: o)
            reg.method_('Stream13p', '__exit__', lambda I, o, a, k: None)
            reg.func_(SIO, 'iterate', lambda I, a, k: (c._cur.log.append(('iterate', a[0] if a else None, None)), c._cur.records)[1])
            reg.global_(SIO, 'Path', ClassRef('Path', None))        # isinstance(handle, (str, Path)): an open handle is neither
            reg.on_yield = lambda I, frame, v: c._cur.yielded.append(v)
        return (inst,)

    def head(self, I, env, k):
        self._cur.mark = len(self._cur.yielded)

    def step(self, I, env, k):
        new = self._cur.yielded[self._cur.mark:]
        ok = len(new) == 1 and isinstance(new[0], SymObj) and new[0].cls == 'Rec13p'
        return [('record-k-yielded-once', new[0].fields['i'] == k if ok else False)]

    @property
    def loops(self):
        spec = LoopSpec(inv=lambda I, env, k: [], on_head=self.head, step=self.step, target_after='unknown',
                        on_break=lambda I, env, k: [('every-record-is-visited', False)],
                        on_exit=lambda I, env, n: [('all-records-were-yielded', n == self._cur.n)])
        return {0: spec, 1: spec}

    def post_return(self, I, st, ret):
        its = [x for x in st.log if x[0] == 'iterate']
        opens = [x for x in st.log if x[0] == 'open']
        ok = len(its) == 1 and its[0][1] is st.stream
        ok = ok and (len(opens) == 1 and opens[0][1] == 'variants.gvf' and opens[0][2] in ('r', 'rt') if self.by_path else not opens)
        I.e.prove('C13/parse/records-read-once-from-the-given-handle-or-the-given-path-opened-for-reading', z3.BoolVal(bool(ok)))


register(type('ParseGvfHandle', (_ParseGvf,), dict(by_path=False, __doc__=_ParseGvf.__doc__)))
register(type('ParseGvfPath', (_ParseGvf,), dict(by_path=True, __doc__=_ParseGvf.__doc__)))
