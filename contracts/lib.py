"""Shared symbolic builders and spec functions (L1-L3 of DESIGN.md §3)."""
from __future__ import annotations
import types
import z3
from pyvc.values import *
from pyvc.core import as_bool
from pyvc.interp import LoopSpec

I_ = z3.IntSort()


class ExonList(FnView):
    """self.exon of a TranscriptAnnotationModel: arrays s[], e[] of length n."""
    def __init__(self, n, s, e, strand, owner='tx', chrom='chr1', attrs=None):
        self.n, self.s, self.e, self.strand = n, s, e, strand
        self.owner = owner
        self.cache = {}
        self.chrom = chrom
        self.attrs = attrs
        super().__init__(n, self.exon_at, tag=f'{owner}.exon')

    def exon_at(self, i):
        iz = i if is_z3(i) else z3.IntVal(i)
        key = z3.simplify(iz).sexpr()
        o = self.cache.get(key)
        if o is None:
            loc = SymObj('FeatureLocation', start=self.s[iz], end=self.e[iz], strand=self.strand,
                         seqname=self.chrom, reading_frame_index=None, start_offset=0,
                         end_offset=0, ref=None, ref_db=None)
            o = SymObj('GTFSeqFeature', location=loc, chrom=self.chrom,
                       attributes=self.attrs if self.attrs is not None else {},
                       type='exon', id='<unknown id>', qualifiers={}, source='GENCODE', frame=None)
            o.tag = ('exon', id(self), iz)
            self.cache[key] = o
        return o


def exon_identity(I, a, b):
    if isinstance(b, SymObj) and a.tag and b.tag and a.tag[0] == 'exon' and b.tag[0] == 'exon' \
            and a.tag[1] == b.tag[1]:
        return z3.simplify(a.tag[2] == b.tag[2])
    return a is b


def install_exon_identity(reg):
    reg.protocol_('GTFSeqFeature', '__is__', exon_identity)


def mk_tx(I, name='tx', tx_id='ENST_T', gene_id='ENSG_G', strand=None, coding=None):
    """Symbolic TranscriptAnnotationModel with well-formed exons."""
    e = I.e
    n = e.int(f'{name}_n')
    s = e.array(f'{name}_s')
    en = e.array(f'{name}_e')
    strand = strand if strand is not None else e.int(f'{name}_strand')
    attrs = {'transcript_id': tx_id, 'gene_id': gene_id}
    exon = ExonList(n, s, en, strand, owner=name, attrs=attrs)
    tloc = SymObj('FeatureLocation', start=s[0], end=en[n - 1], strand=strand, seqname='chr1',
                  reading_frame_index=None, start_offset=0, end_offset=0, ref=None, ref_db=None)
    transcript = SymObj('GTFSeqFeature', location=tloc, chrom='chr1', attributes=dict(attrs),
                        type='transcript', id=tx_id, qualifiers={}, source='GENCODE', frame=None)
    tx = SymObj('TranscriptAnnotationModel', transcript=transcript, exon=exon, cds=[], utr=[],
                five_utr=[], three_utr=[], start_codon=[], stop_codon=[], selenocysteine=[],
                is_protein_coding=coding if coding is not None else e.bool(f'{name}_coding'),
                _seq=None, transcript_id=tx_id, gene_id=gene_id, protein_id=None,
                gene_name=None, gene_type=None)
    h = types.SimpleNamespace(n=n, s=s, e=en, strand=strand, obj=tx, exon=exon, name=name)
    return h


def wf_exons(h, adjacent_ok=False):
    """Exons sorted, non-empty, pairwise disjoint and non-adjacent (GTF introns >= 1 nt)."""
    j, j2 = z3.Ints(f'{h.name}_j {h.name}_j2')
    gap = (h.e[j] <= h.s[j2]) if adjacent_ok else (h.e[j] < h.s[j2])
    return [h.n >= 1,
            z3.ForAll([j], z3.Implies(z3.And(0 <= j, j < h.n), h.s[j] < h.e[j])),
            z3.ForAll([j, j2], z3.Implies(z3.And(0 <= j, j < j2, j2 < h.n), gap)),
            z3.ForAll([j], z3.Implies(z3.And(0 <= j, j < h.n), h.s[j] >= 0))]


def mk_cum(e, h, name=None):
    """cum(k) = total length of exons 0..k-1 (spec function with defining axioms)."""
    name = name or f'cum_{h.name}'
    cum = z3.Function(name, I_, I_)
    j = z3.Int(f'{name}_j')
    ax = [cum(0) == 0,
          z3.ForAll([j], z3.Implies(j >= 0, cum(j + 1) == cum(j) + h.e[j] - h.s[j]),
                    patterns=[cum(j + 1)]),
          z3.ForAll([j], z3.Implies(j >= 0, cum(j + 1) == cum(j) + h.e[j] - h.s[j]),
                    patterns=[z3.MultiPattern(cum(j), h.e[j])])]
    return cum, ax


def in_exon(h, k, g):
    return z3.And(0 <= k, k < h.n, h.s[k] <= g, g < h.e[k])


def no_exon(h, g, nm='q'):
    j = z3.Int(f'{h.name}_{nm}')
    return z3.ForAll([j], z3.Implies(z3.And(0 <= j, j < h.n), z3.Not(z3.And(h.s[j] <= g, g < h.e[j]))))


def mk_gene(I, name='gene', gene_id='ENSG_G', strand=None):
    e = I.e
    gs, ge = e.int(f'{name}_start'), e.int(f'{name}_end')
    strand = strand if strand is not None else e.int(f'{name}_strand')
    loc = SymObj('FeatureLocation', start=gs, end=ge, strand=strand, seqname='chr1',
                 reading_frame_index=None, start_offset=0, end_offset=0, ref=None, ref_db=None)
    g = SymObj('GeneAnnotationModel', location=loc, chrom='chr1',
               attributes={'gene_id': gene_id}, type='gene', id=gene_id, qualifiers={},
               source='GENCODE', frame=None, transcripts=[], exons=[])
    return types.SimpleNamespace(obj=g, start=gs, end=ge, strand=strand, name=name, id=gene_id)


def mk_anno(I, genes=(), txs=()):
    return SymObj('GenomicAnnotation', genes={g.id: g.obj for g in genes},
                  transcripts={t.obj.fields['transcript_id']: t.obj for t in txs},
                  source='GENCODE', gene_id_version_mapper=None, version=None, _cached_tx_seqs=[])


def strand_pm(strand):
    return z3.Or(strand == 1, strand == -1)


def cum_monotone_stmt(h, cum):
    """forall 0<=a<=b<=n. cum(a) <= cum(b); strict when a<b (exons are non-empty)."""
    a, b = z3.Ints(f'{h.name}_ma {h.name}_mb')
    return [z3.ForAll([a, b], z3.Implies(z3.And(0 <= a, a <= b, b <= h.n), cum(a) <= cum(b)),
                      patterns=[z3.MultiPattern(cum(a), cum(b))]),
            z3.ForAll([a, b], z3.Implies(z3.And(0 <= a, a < b, b <= h.n), cum(a) < cum(b)),
                      patterns=[z3.MultiPattern(cum(a), cum(b))])]


def parser_dests(module, func, prog='cmd'):
    """the option names (argparse `dest`s) defined by the real add_subparser_* function of a command:
    executes the repository's own parser definition, nothing else"""
    import argparse, importlib
    from pyvc import native
    native.use_repo()
    m = importlib.import_module(module)
    top = argparse.ArgumentParser(prog=prog)
    sub = top.add_subparsers()
    sp = getattr(m, func)(sub)
    return sorted({a.dest for a in sp._actions if a.dest not in ('help',)})


def real_namespace(dests, known, strict_reg=None):
    """argparse.Namespace model with exactly the attributes the real parser defines"""
    fields = {d: known.get(d, OpaqueStr(['option', d])) for d in dests}
    return SymObj('Namespace', **fields)
