"""Builders of REAL moPepGen objects from plain data (used by replay / bounded stand-ins)."""
from __future__ import annotations


def anno_from(genes, txs):
    """genes: [dict(id, start, end, strand, transcripts=[...])]
    txs: [dict(id, gene, strand, exons=[(s,e),...], cds=[(s,e,frame)], utr3=[(s,e)], sec=[(s,e)], tags=[...], coding=bool, biotype=str)]"""
    from moPepGen import gtf
    from moPepGen.SeqFeature import FeatureLocation
    from moPepGen.gtf.GTFSeqFeature import GTFSeqFeature
    anno = gtf.GenomicAnnotation()
    for g in genes:
        loc = FeatureLocation(start=g['start'], end=g['end'], seqname=g.get('chrom', 'chr1'), strand=g['strand'])
        attrs = {'gene_id': g['id'], 'gene_name': g.get('name', g['id']), 'gene_type': g.get('biotype', 'protein_coding')}
        anno.genes[g['id']] = gtf.GeneAnnotationModel(chrom=g.get('chrom', 'chr1'), location=loc,
                                                      attributes=attrs, transcripts=list(g.get('transcripts', [])),
                                                      source='GENCODE')
    for t in txs:
        chrom = t.get('chrom', 'chr1')
        strand = t['strand']
        attrs = {'transcript_id': t['id'], 'gene_id': t['gene'], 'protein_id': t.get('protein', 'P_' + t['id']),
                 'gene_name': t.get('gene_name', t['gene']), 'gene_type': t.get('biotype', 'protein_coding')}
        if t.get('tags'):
            attrs['tag'] = list(t['tags'])
        def feat(s, e, frame=None, typ=''):
            return GTFSeqFeature(chrom=chrom, location=FeatureLocation(start=s, end=e, strand=strand, seqname=chrom),
                                 attributes=dict(attrs), source='GENCODE', frame=frame, type=typ)
        ex = t['exons']
        transcript = feat(ex[0][0], ex[-1][1], typ='transcript')
        model = gtf.TranscriptAnnotationModel(
            transcript=transcript,
            cds=[feat(s, e, f, 'CDS') for s, e, f in t.get('cds', [])],
            exon=[feat(s, e, typ='exon') for s, e in ex],
            three_utr=[feat(s, e, typ='three_prime_utr') for s, e in t.get('utr3', [])],
            five_utr=[feat(s, e, typ='five_prime_utr') for s, e in t.get('utr5', [])],
            selenocysteine=[feat(s, e, typ='selenocysteine') for s, e in t.get('sec', [])],
            transcript_id=t['id'], gene_id=t['gene'], protein_id=attrs['protein_id'])
        model.is_protein_coding = t.get('coding', bool(t.get('cds')))
        anno.transcripts[t['id']] = model
    return anno


def genome_from(seqs):
    from moPepGen import dna
    from Bio.Seq import Seq
    g = dna.DNASeqDict()
    for k, v in seqs.items():
        g[k] = dna.DNASeqRecord(Seq(v), id=k, name=k, description=k)
    return g


def random_exons(rng, lo=5, hi=60, kmax=4, adjacent_ok=False):
    while True:
        k = rng.randint(1, kmax)
        pts = sorted(rng.sample(range(lo, hi), 2 * k))
        ex = [(pts[2 * i], pts[2 * i + 1]) for i in range(k)]
        if all(ex[i][1] < ex[i + 1][0] or (adjacent_ok and ex[i][1] == ex[i + 1][0]) for i in range(k - 1)):
            return ex


def model_int(model, name, default=None):
    v = model.get(name)
    if v is None:
        return default
    try:
        return int(str(v))
    except ValueError:
        return default


def model_array(model, name, idxs):
    """Read z3 array model printed as K/Store or as-array function dict."""
    import re
    v = model.get(name)
    if v is None:
        return None
    if isinstance(v, dict):
        out = []
        for i in idxs:
            x = v.get(str(i), v.get('else'))
            try:
                out.append(int(x))
            except (TypeError, ValueError):
                return None
        return out
    s = str(v)
    stores = dict((int(a), int(b)) for a, b in re.findall(r'Store\([^S]*?,\s*(-?\d+),\s*(-?\d+)\)', s))
    # nested Store(Store(K(Int, d), i, v), j, w): parse generically
    stores = {}
    for a, b in re.findall(r',\s*(-?\d+),\s*(-?\d+)\)', s):
        stores[int(a)] = int(b)
    m = re.search(r'K\(Int,\s*(-?\d+)\)', s)
    default = int(m.group(1)) if m else None
    out = []
    for i in idxs:
        if i in stores:
            out.append(stores[i])
        elif default is not None:
            out.append(default)
        else:
            return None
    return out
