"""C11 — reference model: coordinates (DESIGN.md §3 C11, library L1-L3)."""
from __future__ import annotations
import types
import z3
from pyvc.contract import Contract, Lemma, register, induction
from pyvc.core import Unsupported
from pyvc.interp import LoopSpec
from pyvc.values import *
from .lib import *

TAM = 'moPepGen/gtf/TranscriptAnnotationModel.py'
GA = 'moPepGen/gtf/GenomicAnnotation.py'
INTRON_MSG = 'The genomic index seems to be in an intron'


def g2t_spec(h, cum, g, ret):
    """ret is the transcript index of genomic position g (exists exon kk containing g)."""
    kk = z3.Int('kk')
    plus = z3.Exists([kk], z3.And(in_exon(h, kk, g), ret == cum(kk) + g - h.s[kk]))
    minus = z3.Exists([kk], z3.And(in_exon(h, kk, g),
                                    ret == cum(h.n) - cum(kk + 1) + h.e[kk] - 1 - g))
    return z3.If(h.strand == 1, plus, minus)


class _H:
    """Plain symbolic exon arrays for lemmas."""
    def __init__(self, name='L'):
        self.name = name
        self.n = z3.Int(f'{name}_n')
        self.s = z3.Array(f'{name}_s', I_, I_)
        self.e = z3.Array(f'{name}_e', I_, I_)
        self.strand = z3.Int(f'{name}_strand')


@register
class CumMonotone(Lemma):
    """cum is monotone / strictly monotone on [0, n] (induction on the upper index)."""
    qualname, props = 'cum_monotone', ('C11', 'C14', 'C15', 'C16', 'C17')

    def obligations(self, e):
        h = _H()
        cum, ax = mk_cum(e, h)
        hy = wf_exons(h) + ax
        a = z3.Int('la')
        P1 = lambda b: z3.ForAll([a], z3.Implies(z3.And(0 <= a, a <= b), cum(a) <= cum(b)))
        P2 = lambda b: z3.ForAll([a], z3.Implies(z3.And(0 <= a, a < b), cum(a) < cum(b)))
        return induction('weak', P1, h.n, hy) + induction('strict', P2, h.n, hy)


@register
class GetTranscriptIndex(Contract):
    path, qualname, props = TAM, 'TranscriptAnnotationModel.get_transcript_index', ('C11',)
    declared_raises = ['ValueError']
    models = (install_exon_identity,)
    uses_lemmas = ('cum_monotone',)

    def setup(self, I):
        h = mk_tx_tagged(I)
        g = I.e.int('g')
        cum = h.cum
        for a in h.axioms + [strand_pm(h.strand)]:
            I.e.assume(a)
        self._cur = types.SimpleNamespace(args=[h.obj, g], h=h, g=g, cum=cum)
        return self._cur

    # loop 0: forward over exons (strand +); loop 1: reversed (strand -)
    def inv0(self, I, env, k):
        st = self._cur
        h, g, cum = st.h, st.g, st.cum
        j = z3.Int('ij')
        return [('index=cum(k)', env['index'] == cum(k)),
                ('before-all-seen', z3.ForAll([j], z3.Implies(z3.And(0 <= j, j < k), h.e[j] <= g)))]

    def inv1(self, I, env, k):
        st = self._cur
        h, g, cum = st.h, st.g, st.cum
        j = z3.Int('ij')
        return [('index=suffix-1', env['index'] == cum(h.n) - cum(h.n - k) - 1),
                ('after-all-seen', z3.ForAll([j], z3.Implies(z3.And(h.n - k <= j, j < h.n), h.s[j] > g)))]

    @property
    def loops(self):
        return {0: LoopSpec(inv=self.inv0), 1: LoopSpec(inv=self.inv1)}

    def post_return(self, I, st, ret):
        h, g, cum = st.h, st.g, st.cum
        I.e.prove('G2T/return/is-transcript-index', g2t_spec(h, cum, g, ret))
        I.e.prove('G2T/return/in-range', z3.And(0 <= ret, ret < cum(h.n)))

    def post_raise(self, I, st, exc):
        h, g = st.h, st.g
        inspan = z3.And(h.s[0] <= g, g < h.e[h.n - 1])
        if exc.cls == 'ValueError' and exc.msg == INTRON_MSG:
            I.e.prove('G2T/raise-intron/iff-intronic', z3.And(inspan, no_exon(h, g)))
        elif exc.cls == 'ValueError':
            I.e.prove('G2T/raise-range/iff-outside-span', z3.Not(inspan))
        else:
            I.e.prove(f'G2T/raise/unexpected:{exc.cls}', False)

    def summary(self, I, args, kwargs):
        """Modular use: callers see only this contract."""
        tx, g = args[0], args[1]
        h = tx.tag if isinstance(tx.tag, types.SimpleNamespace) else None
        if h is None:
            raise Unsupported('get_transcript_index summary needs a transcript built by mk_tx')
        e = I.e
        cum = h.cum
        inspan = z3.And(h.s[0] <= g, g < h.e[h.n - 1])
        if not e.branch(inspan, 'G2T:inspan'):
            I.raise_('ValueError', "The genomic index isn't in the range of this transcript")
        kk = e.int('g2t_k')
        if not e.branch(z3.Not(no_exon(h, g, 'q' + str(kk))), 'G2T:exonic'):
            I.raise_('ValueError', INTRON_MSG)
        ret = e.int('g2t_ret')
        e.assume(in_exon(h, kk, g))
        e.assume(z3.If(h.strand == 1, ret == cum(kk) + g - h.s[kk],
                       ret == cum(h.n) - cum(kk + 1) + h.e[kk] - 1 - g))
        e.assume(z3.And(0 <= ret, ret < cum(h.n)))
        return ret


# ----------------------------------------------------------------------------
# L1: genomic <-> gene
# ----------------------------------------------------------------------------

def g2gene_val(gn, x):
    return z3.If(gn.strand == 1, x - gn.start, gn.end - 1 - x)


def gene2g_val(gn, i):
    return z3.If(gn.strand == 1, gn.start + i, gn.end - 1 - i)


def find_gene(anno, gene_id):
    gobj = anno.fields['genes'][gene_id]
    return gobj.tag


def mk_gene_tagged(I, **kw):
    gn = mk_gene(I, **kw)
    gn.obj.tag = gn
    return gn


@register
class GenomicToGene(Contract):
    path, qualname, props = GA, 'GenomicAnnotation.coordinate_genomic_to_gene', ('C11', 'C14', 'C15', 'C16', 'C17')
    declared_raises = ['ValueError']

    def setup(self, I):
        gn = mk_gene_tagged(I)
        anno = mk_anno(I, genes=[gn])
        x = I.e.int('x')
        I.e.assume(gn.start < gn.end)
        return types.SimpleNamespace(args=[anno, x, gn.id], gn=gn, x=x)

    def post_return(self, I, st, ret):
        gn, x = st.gn, st.x
        I.e.prove('g2gene/return/value', z3.And(gn.start <= x, x < gn.end, strand_pm(gn.strand),
                                                ret == g2gene_val(gn, x)))
        I.e.prove('g2gene/return/in-gene', z3.And(0 <= ret, ret < gn.end - gn.start))

    def post_raise(self, I, st, exc):
        gn, x = st.gn, st.x
        I.e.prove('g2gene/raise/iff-outside-or-unstranded',
                  z3.Or(z3.Not(z3.And(gn.start <= x, x < gn.end)), z3.Not(strand_pm(gn.strand))))

    def summary(self, I, args, kwargs):
        anno = args[0]
        rest = list(args[1:])
        x = rest[0] if rest else kwargs['index']
        gid = rest[1] if len(rest) > 1 else kwargs['gene']
        gn = find_gene(anno, gid)
        e = I.e
        if not e.branch(z3.And(gn.start <= x, x < gn.end), 'g2gene:inside'):
            I.raise_('ValueError', 'The position does not overlap with the gene.')
        if not e.branch(strand_pm(gn.strand), 'g2gene:stranded'):
            I.raise_('ValueError', "Don't know how to handle unstranded gene.")
        return g2gene_val(gn, x)


@register
class GeneToGenomic(Contract):
    path, qualname, props = GA, 'GenomicAnnotation.coordinate_gene_to_genomic', ('C11', 'C14', 'C15', 'C16', 'C17')
    declared_raises = ['ValueError']

    def setup(self, I):
        gn = mk_gene_tagged(I)
        anno = mk_anno(I, genes=[gn])
        i = I.e.int('i')
        I.e.assume(gn.start < gn.end)
        return types.SimpleNamespace(args=[anno, i, gn.id], gn=gn, i=i)

    def post_return(self, I, st, ret):
        gn, i = st.gn, st.i
        I.e.prove('gene2g/return/value', z3.And(strand_pm(gn.strand), ret == gene2g_val(gn, i)))

    def post_raise(self, I, st, exc):
        I.e.prove('gene2g/raise/iff-unstranded', z3.Not(strand_pm(st.gn.strand)))

    def summary(self, I, args, kwargs):
        anno = args[0]
        rest = list(args[1:])
        i = rest[0] if rest else kwargs['index']
        gid = rest[1] if len(rest) > 1 else kwargs['gene']
        gn = find_gene(anno, gid)
        if not I.e.branch(strand_pm(gn.strand), 'gene2g:stranded'):
            I.raise_('ValueError', "Don't know how to handle unstranded gene.")
        return gene2g_val(gn, i)


@register
class L1Inverse(Lemma):
    """Over the two L1 contracts: g2gene and gene2g are mutually inverse, and the
    interval-image idiom maps [lo,hi) onto an interval of the same length."""
    qualname, props = 'L1_inverse_and_interval_image', ('C11', 'C14', 'C15', 'C16', 'C17')

    def obligations(self, e):
        gs, ge, st, x, i, lo, hi = z3.Ints('gs ge st x i lo hi')
        gn = types.SimpleNamespace(start=gs, end=ge, strand=st)
        hy = [gs < ge, strand_pm(st)]
        obs = [('gene2g(g2gene(x))=x', hy + [gs <= x, x < ge],
                gene2g_val(gn, g2gene_val(gn, x)) == x),
               ('g2gene(gene2g(i))=i', hy + [0 <= i, i < ge - gs],
                z3.And(gs <= gene2g_val(gn, i), gene2g_val(gn, i) < ge,
                       g2gene_val(gn, gene2g_val(gn, i)) == i))]
        # interval image: a=g2gene(lo); b=g2gene(hi-1); if strand==-1: a,b=b,a; b+=1
        a0, b0 = g2gene_val(gn, lo), g2gene_val(gn, hi - 1)
        a = z3.If(st == -1, b0, a0)
        b = z3.If(st == -1, a0, b0) + 1
        y = z3.Int('y')
        obs.append(('interval-image/length', hy + [gs <= lo, lo < hi, hi <= ge], b - a == hi - lo))
        obs.append(('interval-image/onto', hy + [gs <= lo, lo < hi, hi <= ge, lo <= y, y < hi],
                    z3.And(a <= g2gene_val(gn, y), g2gene_val(gn, y) < b)))
        return obs


# ----------------------------------------------------------------------------
# L2: transcript -> genomic
# ----------------------------------------------------------------------------

def mk_tx_tagged(I, **kw):
    h = mk_tx(I, **kw)
    cum, ax = mk_cum(I.e, h)
    h.cum = cum
    h.axioms = wf_exons(h) + ax + cum_monotone_stmt(h, cum)
    h.obj.tag = h
    return h


def t2g_spec(h, i, ret):
    cum = h.cum
    kk = z3.Int('kk2')
    plus = z3.Exists([kk], z3.And(0 <= kk, kk < h.n, cum(kk) <= i, i < cum(kk + 1),
                                  ret == h.s[kk] + i - cum(kk)))
    # minus strand: transcript position i counts from the 3'-most genomic base
    minus = z3.Exists([kk], z3.And(0 <= kk, kk < h.n,
                                   cum(h.n) - cum(kk + 1) <= i, i < cum(h.n) - cum(kk),
                                   ret == h.e[kk] - 1 - (i - (cum(h.n) - cum(kk + 1)))))
    return z3.If(h.strand == 1, plus, minus)


@register
class TranscriptToGenomic(Contract):
    path, qualname, props = GA, 'GenomicAnnotation.coordinate_transcript_to_genomic', ('C11',)
    declared_raises = ['ValueError']
    uses_lemmas = ('cum_monotone',)

    def setup(self, I):
        h = mk_tx_tagged(I)
        anno = mk_anno(I, txs=[h])
        i = I.e.int('i')
        for a in h.axioms + [i >= 0]:
            I.e.assume(a)
        self._cur = types.SimpleNamespace(args=[anno, i, 'ENST_T'], h=h, i=i)
        return self._cur

    def sum_hook(self, I, v):
        """sum(len(x.location) for x in tx_model.exon) is cum(n), provided the mapped element is e[k]-s[k]."""
        h = self._cur.h
        if not (isinstance(v, FnView) and v.tag == 'map'):
            return None
        k = z3.Int('sum_k')
        el = v.get(k)
        if not z3.is_true(z3.simplify(el == h.e[k] - h.s[k])) or not (v.length() is h.n or z3.eq(v.length(), h.n)):
            return None
        return h.cum(h.n)

    @property
    def models(self):
        return (lambda reg: reg.sum_hooks.append(self.sum_hook),)

    def inv0(self, I, env, k):
        st = self._cur
        return [('index=i-cum(k)', env['index'] == st.i - st.h.cum(k)), ('index>=0', env['index'] >= 0)]

    def inv1(self, I, env, k):
        st = self._cur
        h = st.h
        return [('index=i-suffix(k)', env['index'] == st.i - (h.cum(h.n) - h.cum(h.n - k))),
                ('index>=0', env['index'] >= 0)]

    @property
    def loops(self):
        return {0: LoopSpec(inv=self.inv0), 1: LoopSpec(inv=self.inv1)}

    def post_return(self, I, st, ret):
        h, i = st.h, st.i
        I.e.prove('T2G/return/is-genomic-position', z3.And(strand_pm(h.strand), i < h.cum(h.n), t2g_spec(h, i, ret)))

    def post_raise(self, I, st, exc):
        h, i = st.h, st.i
        I.e.prove('T2G/raise/iff-out-of-range-or-unstranded',
                  z3.Or(i >= h.cum(h.n), z3.Not(strand_pm(h.strand))))

    def summary(self, I, args, kwargs):
        anno, i, tid = args[0], args[1], args[2]
        h = anno.fields['transcripts'][tid].tag
        e = I.e
        I.e.prove('T2G/call/requires-index>=0', i >= 0)
        if not e.branch(z3.And(i < h.cum(h.n), strand_pm(h.strand)), 'T2G:ok'):
            I.raise_('ValueError', 'Index out of range.')
        ret = e.int('t2g_ret')
        e.assume(t2g_spec(h, i, ret))
        return ret


@register
class RoundTripTxGenomic(Lemma):
    """Over the G2T and T2G contracts: T2G(G2T(g)) = g and G2T(T2G(i)) = i."""
    qualname, props = 'T2G_G2T_inverse', ('C11',)

    def obligations(self, e):
        h = _H('R')
        cum, ax = mk_cum(e, h)
        h.cum = cum
        hy = wf_exons(h) + ax + cum_monotone_stmt(h, cum) + [strand_pm(h.strand)]
        g, i, r1, r2 = z3.Ints('g i r1 r2')
        return [('T2G(G2T(g))=g', hy + [g2t_spec(h, cum, g, r1), t2g_spec(h, r1, r2)], r2 == g),
                ('G2T(T2G(i))=i', hy + [0 <= i, i < cum(h.n), t2g_spec(h, i, r1), g2t_spec(h, cum, r1, r2)], r2 == i),
                ('T2G-result-is-exonic', hy + [0 <= i, i < cum(h.n), t2g_spec(h, i, r1)],
                 z3.Not(no_exon(h, r1)))]


@register
class GeneToTranscript(Contract):
    """coordinate_gene_to_transcript = G2T o gene2g  (modular: callee contracts only)."""
    path, qualname, props = GA, 'GenomicAnnotation.coordinate_gene_to_transcript', ('C11', 'C15')
    declared_raises = ['ValueError']

    def setup(self, I):
        gn = mk_gene_tagged(I)
        h = mk_tx_tagged(I)
        gn.obj.fields['transcripts'] = ['ENST_T']
        anno = mk_anno(I, genes=[gn], txs=[h])
        i = I.e.int('i')
        for a in h.axioms + [gn.start < gn.end, strand_pm(h.strand)]:
            I.e.assume(a)
        return types.SimpleNamespace(args=[anno, i, gn.id, 'ENST_T'], gn=gn, h=h, i=i)

    def post_return(self, I, st, ret):
        gn, h, i = st.gn, st.h, st.i
        I.e.prove('gene2tx/return/composition', z3.And(strand_pm(gn.strand),
                  g2t_spec(h, h.cum, gene2g_val(gn, i), ret)))

    def post_raise(self, I, st, exc):
        gn, h, i = st.gn, st.h, st.i
        g = gene2g_val(gn, i)
        I.e.prove('gene2tx/raise/iff-unstranded-or-not-exonic',
                  z3.Or(z3.Not(strand_pm(gn.strand)), no_exon(h, g),
                        z3.Not(z3.And(h.s[0] <= g, g < h.e[h.n - 1]))))


# ----------------------------------------------------------------------------
# ORF coordinates and transcript sequence
# ----------------------------------------------------------------------------
from pyvc.pstr import PStr, cmpl


class FeatList(FnView):
    """a sorted list of features (CDS / UTR segments) given by arrays of starts / ends (+ frames)"""
    def __init__(self, I, name, strand, frames=False):
        e = I.e
        self.n = e.int(f'{name}_n')
        self.s, self.e = e.array(f'{name}_s'), e.array(f'{name}_e')
        self.f = e.array(f'{name}_frame') if frames else None
        self.strand, self.name = strand, name
        self.cache = {}
        super().__init__(self.n, self.at, tag=name)

    def at(self, i):
        iz = i if is_z3(i) else z3.IntVal(i)
        key = z3.simplify(iz).sexpr()
        if key not in self.cache:
            loc = SymObj('FeatureLocation', start=self.s[iz], end=self.e[iz], strand=self.strand, seqname='chr1',
                         reading_frame_index=None, start_offset=0, end_offset=0, ref=None, ref_db=None)
            self.cache[key] = SymObj('GTFSeqFeature', location=loc, chrom='chr1', attributes={}, type=self.name,
                                     id='<unknown id>', qualifiers={}, source='GENCODE',
                                     frame=self.f[iz] if self.f is not None else None)
        return self.cache[key]

    def sym_truth(self, I):
        return self.n != 0

    def wf(self, h):
        """non-empty segments, sorted and disjoint, each inside one exon of the transcript"""
        j, j2, q = z3.Ints(f'{self.name}_j {self.name}_j2 {self.name}_q')
        inr = lambda x: z3.And(0 <= x, x < self.n)
        ax = [self.n >= 0,
              z3.ForAll([j], z3.Implies(inr(j), self.s[j] < self.e[j])),
              z3.ForAll([j, j2], z3.Implies(z3.And(inr(j), inr(j2), j < j2), self.e[j] <= self.s[j2])),
              z3.ForAll([j], z3.Implies(inr(j), z3.Exists([q], z3.And(0 <= q, q < h.n, h.s[q] <= self.s[j], self.e[j] <= h.e[q]))))]
        if self.f is not None:
            ax.append(z3.ForAll([j], z3.Implies(inr(j), z3.And(0 <= self.f[j], self.f[j] <= 2))))
        return ax


def tx_index(h, g, r):
    """r is the transcript index of the exonic genomic position g (G2T contract)"""
    return g2t_spec(h, h.cum, g, r)


@register
class CdsStartIndex(Contract):
    """ORF start = transcript index of the first CDS base in transcript order, plus the CDS frame"""
    path, qualname, props = TAM, 'TranscriptAnnotationModel.get_cds_start_index', ('C11',)
    declared_raises = ['ValueError']
    models = (install_exon_identity,)
    uses_lemmas = ('cum_monotone',)
    assumptions = ('assumed: CDS segments are sorted, disjoint and each lies inside an exon; frames are 0, 1 or 2',)

    def setup(self, I):
        h = mk_tx_tagged(I)
        cds = FeatList(I, 'cds', h.strand, frames=True)
        h.obj.fields['cds'] = cds
        for a in h.axioms + cds.wf(h) + [cds.n >= 1]:
            I.e.assume(a)
        self._cur = types.SimpleNamespace(args=[h.obj], h=h, cds=cds)
        return self._cur

    def inv0(self, I, env, k):
        st = self._cur
        h, c = st.h, st.cds.s[0]
        j = z3.Int('ij')
        return [('cds_start=cum(k)', env['cds_start'] == h.cum(k)),
                ('first-cds-base-not-in-earlier-exons', z3.ForAll([j], z3.Implies(z3.And(0 <= j, j < k), h.e[j] <= c)))]

    def inv1(self, I, env, k):
        st = self._cur
        h, c = st.h, st.cds.e[st.cds.n - 1]
        j = z3.Int('ij')
        return [('cds_start=suffix', env['cds_start'] == h.cum(h.n) - h.cum(h.n - k)),
                ('last-cds-end-not-in-later-exons', z3.ForAll([j], z3.Implies(z3.And(h.n - k <= j, j < h.n), h.s[j] >= c)))]

    @property
    def loops(self):
        return {0: LoopSpec(inv=self.inv0), 1: LoopSpec(inv=self.inv1)}

    def post_return(self, I, st, ret):
        h, cds = st.h, st.cds
        r = z3.Int('r_first')
        first = z3.If(h.strand == 1, cds.s[0], cds.e[cds.n - 1] - 1)
        frame = z3.If(h.strand == 1, cds.f[0], cds.f[cds.n - 1])
        import os
        if os.environ.get('DBG'):
            print('RET', z3.simplify(ret), '\n  pc', [str(x)[:200] for x in I.e.pc[-6:]])
        I.e.prove('C11/cds-start/=index-of-first-cds-base-plus-frame',
                  z3.And(strand_pm(h.strand), z3.Exists([r], z3.And(tx_index(h, first, r), ret == r + frame))))

    def post_raise(self, I, st, exc):
        I.e.prove('C11/cds-start/raise/only-unstranded', z3.Not(strand_pm(st.h.strand)))


@register
class CdsEndIndex(Contract):
    """ORF end: the largest index <= E congruent to the ORF start modulo 3, where E is the transcript index of the 3'UTR base
    that comes first in transcript order (or the transcript length when no 3'UTR is annotated)"""
    path, qualname, props = TAM, 'TranscriptAnnotationModel.get_cds_end_index', ('C11',)
    declared_raises = ['ValueError']
    uses_lemmas = ('cum_monotone',)

    def setup(self, I):
        e = I.e
        h = mk_tx_tagged(I)
        utr = FeatList(I, 'utr3', h.strand)
        h.obj.fields['three_utr'] = utr
        start, L = e.int('orf_start'), e.int('seq_len')
        for a in h.axioms + utr.wf(h) + [strand_pm(h.strand), 0 <= start, start <= L, L == h.cum(h.n)]:
            e.assume(a)
        seq = PStr.sym(e, 'txseq', L)
        self._cur = types.SimpleNamespace(args=[h.obj, seq, start], h=h, utr=utr, start=start, L=L)
        return self._cur

    def post_return(self, I, st, ret):
        h, utr = st.h, st.utr
        r = z3.Int('r_utr')
        u = z3.If(h.strand == 1, utr.s[0], utr.e[utr.n - 1] - 1)      # first 3'UTR base in transcript order
        bound_is = lambda E: z3.And((ret - st.start) % 3 == 0, ret <= E, E - ret < 3)
        I.e.prove('C11/cds-end/in-frame-and-at-most-the-3utr-start',
                  z3.If(utr.n == 0, bound_is(st.L), z3.Exists([r], z3.And(tx_index(h, u, r), bound_is(r)))))

    def post_raise(self, I, st, exc):
        I.e.prove('C11/cds-end/raise/never-for-utr-inside-exons', False)


@register
class Utr3StartIsFirst(Lemma):
    """Over the G2T contract: on the plus strand the transcript index grows with the genomic position of exonic bases, on the minus
    strand it falls; hence three_utr[0].start (+) / three_utr[-1].end - 1 (-) has the smallest index of all 3'UTR bases."""
    qualname, props = 'utr3_first_base_has_smallest_index', ('C11',)

    def obligations(self, e):
        h = _H('U')
        cum, ax = mk_cum(e, h)
        h.cum = cum
        hy = wf_exons(h) + ax + cum_monotone_stmt(h, cum) + [strand_pm(h.strand)]
        g1, g2, r1, r2 = z3.Ints('g1 g2 r1 r2')
        return [('G2T-monotone-in-transcript-direction',
                 hy + [g2t_spec(h, cum, g1, r1), g2t_spec(h, cum, g2, r2), z3.If(h.strand == 1, g1 < g2, g1 > g2)], r1 < r2)]


class SecList(FeatList):
    pass


@register
class TranscriptSequence(Contract):
    """tx[i] = strand-corrected chromosome base at T2G(i); ORF from get_cds_start/end_index; Sec sites mapped by G2T"""
    path, qualname, props = TAM, 'TranscriptAnnotationModel.get_transcript_sequence', ('C11',)
    declared_raises = ['ValueError']
    uses_lemmas = ('cum_monotone',)
    assumptions = ('assumed: Bio.Seq slicing / + / reverse_complement = str semantics with the complement involution; '
                   'DNASeqRecordWithCoordinates(...) stores its arguments; exons lie on the chromosome',
                   'selenocysteine list taken empty here (its mapping uses get_transcript_index, proved separately)')

    def setup(self, I):
        e = I.e
        h = mk_tx_tagged(I)
        st = types.SimpleNamespace(h=h)
        st.Lc = e.int('chrom_len')
        st.C = PStr.sym(e, 'chrom', st.Lc)
        j = z3.Int('j_ch')
        for a in h.axioms + [strand_pm(h.strand), h.e[h.n - 1] <= st.Lc]:
            e.assume(a)
        tr = h.obj.fields['transcript']
        tr.fields['attributes'].update(transcript_id='ENST_T', gene_id='ENSG_G')
        chrom = SymObj('DNASeqRecord', seq=st.C, id='chr1', name='chr1', description='chr1')
        st.args = [h.obj, chrom]
        self._cur = st
        return st

    @property
    def models(self):
        from .c14 import install_seq_models
        return (install_exon_identity, install_seq_models)

    def havoc(self, I, env, k):
        st = self._cur
        if I.e.branch(k == 0, 'first exon'):
            env['seq'] = None
        else:
            st.acc = PStr.sym(I.e, 'seq_acc')
            env['seq'] = st.acc

    def inv(self, I, env, k):
        st = self._cur
        h = st.h
        seq = env['seq']
        if seq is None:
            return [('seq-is-None-only-before-the-first-exon', k == 0)]
        j, t = z3.Ints('j_inv t_inv')
        return [('k>0', k >= 1), ('length=cum(k)', seq.length() == h.cum(k)),
                ('content=exons-so-far', z3.ForAll([j, t], z3.Implies(z3.And(0 <= j, j < k, h.cum(j) <= t, t < h.cum(j + 1)),
                                                                     seq.get(t) == st.C.get(h.s[j] + t - h.cum(j))),
                                                  patterns=[z3.MultiPattern(seq.get(t), h.cum(j))] if hasattr(seq, 'arr') else []))]

    @property
    def loops(self):
        # loop 0 is the list comprehension-free `for location in [...]` loop over exon locations
        return {0: LoopSpec(inv=self.inv, havoc=self.havoc)}

    def post_return(self, I, st, ret):
        e = I.e
        h = st.h
        seq = ret.fields['seq']
        L = h.cum(h.n)
        e.prove('C11/tx-seq/length=sum-of-exon-lengths', seq.length() == L)
        j, i = z3.Ints('j_p i_p')
        # transcript position i lies in exon j:  plus: cum(j) <= i < cum(j+1);  minus: measured from the 3' genomic end
        plus = z3.Implies(z3.And(0 <= j, j < h.n, h.cum(j) <= i, i < h.cum(j + 1)),
                          seq.get(i) == st.C.get(h.s[j] + i - h.cum(j)))
        minus = z3.Implies(z3.And(0 <= j, j < h.n, L - h.cum(j + 1) <= i, i < L - h.cum(j)),
                           seq.get(i) == cmpl(st.C.get(h.e[j] - 1 - (i - (L - h.cum(j + 1))))))
        e.prove('C11/tx-seq/base-i=strand-corrected-chromosome-base-at-T2G(i)', z3.If(h.strand == 1, plus, minus))
        e.prove('C11/tx-seq/no-cds-no-orf', ret.fields['orf'] is None)

    def post_raise(self, I, st, exc):
        I.e.prove('C11/tx-seq/raise/never-with-exons', False)


class _SecOut11:
    """selenocystein = []: appended to once per annotated site, sorted at the end"""
    def __init__(self, owner):
        self.owner, self.sorted = owner, False

    def sym_method(self, I, name, a, k):
        if name == 'append':
            self.owner._cur.sec_appends.append(a[0])
            self.sorted = False
            return None
        if name == 'sort' and not (a or k):
            self.sorted = True
            return None
        raise Unsupported(f'selenocystein.{name}')


@register
class TranscriptSecSites(TranscriptSequence):
    """the selenocysteine sites of the transcript sequence record: one interval per annotated site, [transcript index of the first base of the
    codon in transcript direction, transcript index of its last base + 1), and the list is sorted after the last site was added - on a minus
    strand transcript the annotated sites come in genomic, i.e. descending transcript, order, and the graph code walks them in one forward
    pass (shared with C09: Sec termination depends on it)"""
    props = ('C11', 'C09')
    assumptions = TranscriptSequence.assumptions[:1] + ('get_transcript_index is its proved contract, used here as an uninterpreted function T of the genomic position; '
                                                      'list.sort() orders intervals by start',)

    def setup(self, I):
        st = super().setup(I)
        e = I.e
        st.sec_appends = []
        st.nsec = e.int('n_sec_sites')
        e.assume(st.nsec >= 0)
        st.ss, st.se = z3.Function('sec_genomic_start', z3.IntSort(), z3.IntSort()), z3.Function('sec_genomic_end', z3.IntSort(), z3.IntSort())
        st.T = z3.Function('transcript_index_of_genomic_position', z3.IntSort(), z3.IntSort())
        zz = lambda i: i if is_z3(i) else z3.IntVal(i)
        h = st.h
        st.h.obj.fields['selenocysteine'] = FnView(st.nsec, lambda i: SymObj('SecFeature11', i=zz(i), strand=h.strand,
                                                                         location=SymObj('FeatureLocation', start=st.ss(zz(i)), end=st.se(zz(i)), strand=h.strand, seqname='chr1',
                                                                                         reading_frame_index=None, start_offset=0, end_offset=0, ref=None, ref_db=None)), tag='annotated sec sites')
        return st

    @property
    def models(self):
        c = self
        base = super().models

        def inst(reg):
            for m in base:
                m(reg)
            reg.method_('TranscriptAnnotationModel', 'get_transcript_index', lambda I, o, a, k: c._cur.T(a[0]))
            reg.ctor_('FeatureLocation', lambda I, a, k: SymObj('FeatureLocation', **{**dict(start=None, end=None, seqname=None, strand=None, reading_frame_index=None, start_offset=0,
                                                                                            end_offset=0, ref=None, ref_db=None), **dict(zip(['start', 'end'], a)), **k}))
        return (inst,)

    def havoc1(self, I, env, k):
        st = self._cur
        st.secout = _SecOut11(self)
        env['selenocystein'] = st.secout

    def head1(self, I, env, k):
        self._cur.m1 = len(self._cur.sec_appends)

    def step1(self, I, env, k):
        st, h = self._cur, self._cur.h
        new = st.sec_appends[st.m1:]
        ok = len(new) == 1 and isinstance(new[0], SymObj) and new[0].cls == 'FeatureLocation'
        if not ok:
            return [('one-interval-per-annotated-site', False)]
        first = z3.If(h.strand == 1, st.ss(k), st.se(k) - 1)        # the first base of the codon in transcript direction
        last = z3.If(h.strand == 1, st.se(k) - 1, st.ss(k))
        return [('site-k-mapped-to-the-transcript-positions-of-its-first-and-last-base-in-transcript-direction',
                 z3.And(new[0].fields['start'] == st.T(first), new[0].fields['end'] == st.T(last) + 1))]

    @property
    def loops(self):
        d = dict(super().loops)
        d[1] = LoopSpec(inv=lambda I, env, k: [], havoc=self.havoc1, on_head=self.head1, step=self.step1, target_after='unknown',
                        on_break=lambda I, env, k: [('every-annotated-site-is-mapped', False)],
                        on_exit=lambda I, env, n: [('all-annotated-sites-were-visited', n == self._cur.nsec)])
        return d

    def post_return(self, I, st, ret):
        sec = ret.fields.get('selenocysteine')
        if isinstance(sec, _SecOut11):
            I.e.prove('C11/tx-seq/sec-sites-sorted-in-transcript-order-after-the-last-one-was-added', sec.sorted)
        else:
            I.e.prove('C11/tx-seq/sec-sites-sorted-in-transcript-order-after-the-last-one-was-added', isinstance(sec, list) and not sec and 'secout' not in vars(st))


@register
class CdnaSequence(TranscriptSequence):
    """get_cdna_sequence: the CDS records concatenated in transcript direction - position i of the result is the strand-corrected chromosome
    base of the i-th CDS position (on the minus strand the whole concatenation is reverse-complemented, not each record) - with one location
    that places it at [cds_start, cds_start + length) of the transcript; a transcript without CDS is refused"""
    qualname = 'TranscriptAnnotationModel.get_cdna_sequence'
    props = ('C11',)
    assumptions = TranscriptSequence.assumptions[:1] + ('the CDS records are a well-formed sorted list like the exons (the same list model); get_cds_start_index is its own contract',)

    def setup(self, I):
        st = super().setup(I)
        h = st.h
        h.obj.fields['cds'] = h.exon                 # the CDS list: same shape as an exon list (sorted, disjoint intervals on the chromosome)
        h.obj.fields['transcript'].fields['attributes']['protein_id'] = 'ENSP_P'
        st.cds_start = I.e.int('cds_start_index')
        return st

    @property
    def models(self):
        c = self
        base = super().models

        def inst(reg):
            for m in base:
                m(reg)
            reg.method_('TranscriptAnnotationModel', 'get_cds_start_index', lambda I, o, a, k: c._cur.cds_start)
            reg.ctor_('FeatureLocation', lambda I, a, k: SymObj('FeatureLocation', **{**dict(start=None, end=None, seqname=None, strand=None, reading_frame_index=None, start_offset=0,
                                                                                            end_offset=0, ref=None, ref_db=None), **dict(zip(['start', 'end'], a)), **k}))
            reg.ctor_('MatchedLocation', lambda I, a, k: SymObj('MatchedLocation', **k))
        return (inst,)

    def post_return(self, I, st, ret):
        e, h = I.e, st.h
        seq = ret.fields['seq']
        L = h.cum(h.n)
        e.prove('C11/cdna/length=sum-of-cds-lengths', seq.length() == L)
        j, i = z3.Ints('j_p i_p')
        plus = z3.Implies(z3.And(0 <= j, j < h.n, h.cum(j) <= i, i < h.cum(j + 1)), seq.get(i) == st.C.get(h.s[j] + i - h.cum(j)))
        minus = z3.Implies(z3.And(0 <= j, j < h.n, L - h.cum(j + 1) <= i, i < L - h.cum(j)), seq.get(i) == cmpl(st.C.get(h.e[j] - 1 - (i - (L - h.cum(j + 1))))))
        e.prove('C11/cdna/base-i=strand-corrected-chromosome-base-of-the-i-th-cds-position', z3.If(h.strand == 1, plus, minus))
        locs = ret.fields.get('locations')
        ok = isinstance(locs, list) and len(locs) == 1 and isinstance(locs[0], SymObj) and isinstance(locs[0].fields.get('ref'), SymObj) and isinstance(locs[0].fields.get('query'), SymObj)
        if ok:
            q, r = locs[0].fields['query'], locs[0].fields['ref']
            e.prove('C11/cdna/placed-at-the-cds-start-of-the-transcript', z3.And(q.fields['start'] == 0, q.fields['end'] == L, r.fields['start'] == st.cds_start, r.fields['end'] == st.cds_start + L)
                    if r.fields['seqname'] == 'ENST_T' else False)
        else:
            e.prove('C11/cdna/placed-at-the-cds-start-of-the-transcript', False)

    def post_raise(self, I, st, exc):
        I.e.prove('C11/cdna/raise/never-with-cds-records', False)


# ----------------------------------------------------------------------------
# on-disk annotation: the loading cache of GenePointerDict / TranscriptPointerDict
# ----------------------------------------------------------------------------
GP = 'moPepGen/gtf/GTFPointer.py'
B_ = z3.BoolSort()
M_ = z3.DeclareSort('Model')


class DequeModel:
    """collections.deque of keys: cells arr[lo..hi)"""
    def __init__(self, e, name='dq'):
        self.lo, self.hi = e.int(f'{name}_lo'), e.int(f'{name}_hi')
        self.arr = e.array(f'{name}_arr')

    def sym_len(self, I):
        return self.hi - self.lo

    def sym_method(self, I, name, args, kwargs):
        if name == 'appendleft':
            self.lo = self.lo - 1
            self.arr = z3.Store(self.arr, self.lo, args[0])
            return None
        if name == 'append':
            self.arr = z3.Store(self.arr, self.hi, args[0])
            self.hi = self.hi + 1
            return None
        if name == 'pop' and not args:
            if not I.e.branch(self.hi - self.lo > 0, 'deque non-empty'):
                I.raise_('IndexError', 'pop from an empty deque')
            self.hi = self.hi - 1
            return self.arr[self.hi]
        if name == 'popleft':
            if not I.e.branch(self.hi - self.lo > 0, 'deque non-empty'):
                I.raise_('IndexError', 'pop from an empty deque')
            self.lo = self.lo + 1
            return self.arr[self.lo - 1]
        raise Unsupported(f'deque.{name}')


class CacheModel:
    """dict key -> loaded model, as membership predicate + value function (SSA)"""
    def __init__(self, e, name='cache'):
        self.e = e
        self.mem = z3.Function(e.fresh_name(f'{name}_has'), I_, B_)
        self.val = z3.Function(e.fresh_name(f'{name}_val'), I_, M_)

    def sym_contains(self, I, key):
        return self.mem(key)

    def sym_getitem(self, I, key):
        if not I.e.branch(self.mem(key), 'key cached'):
            I.raise_('KeyError', key)
        return self.val(key)

    def _update(self, key, present, value=None):
        e = self.e
        mem2 = z3.Function(e.fresh_name('cache_has'), I_, B_)
        val2 = z3.Function(e.fresh_name('cache_val'), I_, M_)
        x = z3.Int(e.fresh_name('x_c'))
        e.assume(z3.ForAll([x], mem2(x) == z3.If(x == key, z3.BoolVal(present), self.mem(x))))
        e.assume(z3.ForAll([x], z3.Implies(x != key, val2(x) == self.val(x))))
        if value is not None:
            e.assume(val2(key) == value)
        self.mem, self.val = mem2, val2

    def sym_setitem(self, I, key, v):
        self._update(key, True, v)

    def sym_method(self, I, name, args, kwargs):
        if name == 'pop':
            key = args[0]
            if not I.e.branch(self.mem(key), 'evicted key is cached'):
                if len(args) > 1:
                    return args[1]
                I.raise_('KeyError', key)
            v = self.val(key)
            self._update(key, False)
            return v
        raise Unsupported(f'cache.{name}')


class _PointerCache(Contract):
    """Representation invariant of the loading cache, on every exit (normal and exceptional):
    the key queue has no duplicates and at most SIZE entries, the cached keys are exactly the queued keys, and every cached
    value is the model loaded from that key's pointer.  By induction over the access history: any order and number of
    lookups (including failing ones) returns, for every valid key, the model its pointer loads."""
    props = ('C11',)
    size_name = 'GENE_DICT_CACHE_SIZE'
    cls = 'GenePointerDict'
    declared_raises = ['KeyError', '<load failure>']

    def ri(self, st, dq, cache, tag):
        i, j, k = z3.Ints(f'ri_i{tag} ri_j{tag} ri_k{tag}')
        inq = lambda x: z3.And(dq.lo <= x, x < dq.hi)
        return [(f'queue-length-within-cache-size', z3.And(dq.hi - dq.lo >= 0, dq.hi - dq.lo <= st.size)),
                (f'queued-keys-distinct', z3.ForAll([i, j], z3.Implies(z3.And(inq(i), inq(j), i != j), dq.arr[i] != dq.arr[j]))),
                (f'every-queued-key-is-cached', z3.ForAll([i], z3.Implies(inq(i), cache.mem(dq.arr[i])))),
                (f'every-cached-key-is-queued', z3.ForAll([k], z3.Implies(cache.mem(k), z3.Exists([i], z3.And(inq(i), dq.arr[i] == k))))),
                (f'cached-values-are-the-loaded-models', z3.ForAll([k], z3.Implies(cache.mem(k), z3.And(st.known(k), cache.val(k) == st.load(k)))))]

    def setup(self, I):
        e = I.e
        st = types.SimpleNamespace()
        st.size = I.eval_const(I.repo.modules[GP], I.repo.modules[GP].consts[self.size_name])
        st.known = z3.Function('key_has_pointer', I_, B_)
        st.load = z3.Function('model_loaded_from_pointer_of', I_, M_)
        st.dq, st.cache = DequeModel(e), CacheModel(e)
        for _, f in self.ri(st, st.dq, st.cache, '0'):
            e.assume(f)
        st.key = e.int('key')
        st.obj = SymObj(self.cls, _cache=st.cache, _cached_keys=st.dq)
        st.args = [st.obj, st.key]
        self._cur = st
        return st

    @property
    def models(self):
        c = self

        def inst(reg):
            def get_pointer(I, o, a, k):
                st = c._cur
                if not I.e.branch(st.known(a[0]), 'key has a pointer'):
                    I.raise_('KeyError', a[0])
                return SymObj('PointerStub', key=a[0], is_protein_coding=I.e.bool('ptr_coding'), source='GENCODE')
            reg.method_(c.cls, 'get_pointer', get_pointer)

            def load(I, o, a, k):
                st = c._cur
                if I.e.branch(I.e.bool('load_fails'), 'pointer.load() fails'):
                    I.raise_('<load failure>', 'io')
                return LoadedModel(st.load(o.fields['key']))
            reg.method_('PointerStub', 'load', load)
        return (inst,)

    def check_ri(self, I, st, where):
        for nm, f in self.ri(st, st.dq, st.cache, '1'):
            I.e.prove(f'C11/pointer-cache/{where}/{nm}', f)

    def post_return(self, I, st, ret):
        t = ret.term if isinstance(ret, LoadedModel) else ret
        I.e.prove('C11/pointer-cache/return/the-model-loaded-from-this-key', z3.And(st.known(st.key), t == st.load(st.key)))
        self.check_ri(I, st, 'return')

    def post_raise(self, I, st, exc):
        if exc.cls == 'KeyError':
            I.e.prove('C11/pointer-cache/raise/KeyError-only-for-a-key-without-pointer', z3.Not(st.known(st.key)))
        self.check_ri(I, st, 'raise')


class LoadedModel:
    """the annotation model object returned by pointer.load(): attribute stores are allowed, identity = the term"""
    def __init__(self, term):
        self.term = term
        self.attrs = {}

    def sym_setattr(self, I, name, v):
        self.attrs[name] = v

    def sym_getattr(self, I, name):
        if name not in self.attrs:
            self.attrs[name] = LoadedModel(self.term)
        return self.attrs[name]


def _unwrap_loaded(fn):
    def setitem(self, I, key, v):
        return fn(self, I, key, v.term if isinstance(v, LoadedModel) else v)
    return setitem


CacheModel.sym_setitem = _unwrap_loaded(CacheModel.sym_setitem)


@register
class GenePointerCache(_PointerCache):
    path, qualname = GP, 'GenePointerDict.__getitem__'


@register
class TranscriptPointerCache(_PointerCache):
    path, qualname = GP, 'TranscriptPointerDict.__getitem__'
    size_name = 'TX_DICT_CACHE_SIZE'
    cls = 'TranscriptPointerDict'


# ----------------------------------------------------------------------------
# byte-offset index of a GTF file
# ----------------------------------------------------------------------------
class Key:
    """an id string known through an integer code (equal strings <=> equal codes)"""
    def __init__(self, code):
        self.code = code

    def sym_eq(self, I, other):
        if other is None:
            return False
        if isinstance(other, Key):
            return self.code == other.code
        raise Unsupported('id compared with a foreign value')

    def sym_truth(self, I):
        return True


class LinesModel:
    """a binary file iterated line by line: line k has blen(k) > 0 bytes and clen(k) <= blen(k) characters"""
    def __init__(self, e):
        self.N = e.int('n_lines')
        self.blen = z3.Function('byte_len', I_, I_)
        self.clen = z3.Function('char_len', I_, I_)
        self.comment = z3.Function('is_comment', I_, B_)
        self.gene = z3.Function('is_gene_line', I_, B_)
        self.gid = z3.Function('gene_id_of_line', I_, I_)
        self.tid = z3.Function('transcript_id_of_line', I_, I_)
        self.off = z3.Function('byte_offset', I_, I_)
        j = z3.Int('j_ln')
        self.axioms = [self.N >= 0, self.off(0) == 0,
                       z3.ForAll([j], z3.Implies(j >= 0, z3.And(self.blen(j) > 0, self.clen(j) > 0, self.clen(j) <= self.blen(j))),
                                 patterns=[self.blen(j)]),
                       z3.ForAll([j], z3.Implies(j >= 0, self.off(j + 1) == self.off(j) + self.blen(j)), patterns=[self.off(j + 1)]),
                       z3.ForAll([j], z3.Implies(j >= 0, self.off(j + 1) == self.off(j) + self.blen(j)),
                                 patterns=[z3.MultiPattern(self.off(j), self.blen(j))])]
        a, b = z3.Ints('a_off b_off')
        # lemma byte_offsets_monotone (proved separately by induction)
        self.axioms.append(z3.ForAll([a, b], z3.Implies(z3.And(0 <= a, a < b), self.off(a) < self.off(b)),
                                     patterns=[z3.MultiPattern(self.off(a), self.off(b))]))


@register
class ByteOffsetsMonotone(Lemma):
    """off(a) < off(b) for 0 <= a < b: every line has at least one byte (induction on b)."""
    qualname, props = 'byte_offsets_monotone', ('C11', 'C13', 'C06')

    def obligations(self, e):
        off, blen = z3.Function('offL', I_, I_), z3.Function('blenL', I_, I_)
        j, a, n = z3.Ints('jL aL nL')
        hy = [off(0) == 0, z3.ForAll([j], z3.Implies(j >= 0, z3.And(blen(j) > 0, off(j + 1) == off(j) + blen(j))), patterns=[off(j + 1)])]
        P = lambda b: z3.ForAll([a], z3.Implies(z3.And(0 <= a, a < b), off(a) < off(b)))
        return induction('strictly-monotone', P, n, hy)


class BytesLine:
    def __init__(self, L, k):
        self.L, self.k = L, k

    def sym_len(self, I):
        return self.L.blen(self.k)

    def sym_method(self, I, name, a, kw):
        if name == 'decode':
            return TextLine(self.L, self.k)
        if name == 'startswith':
            return self.L.comment(self.k)
        raise Unsupported(f'bytes.{name}')


class TextLine(BytesLine):
    def sym_len(self, I):
        return self.L.clen(self.k)

    def sym_method(self, I, name, a, kw):
        if name == 'startswith' and a == ['#']:
            return self.L.comment(self.k)
        if name in ('rstrip', 'strip'):
            return self
        if name == 'encode':
            return BytesLine(self.L, self.k)
        raise Unsupported(f'str.{name}')


class TypeStr:
    def __init__(self, L, k):
        self.L, self.k = L, k

    def sym_method(self, I, name, a, kw):
        if name == 'lower':
            return self
        raise Unsupported(f'type.{name}')

    def sym_eq(self, I, other):
        if other == 'gene':
            return self.L.gene(self.k)
        raise Unsupported('feature type compared with ' + repr(other))


class GhostSet:
    def __init__(self, log, owner):
        self.log, self.owner = log, owner

    def sym_method(self, I, name, a, kw):
        if name == 'add':
            self.log.append((self.owner, a[0]))
            return None
        raise Unsupported(f'set.{name}')


@register
class GtfIteratePointer(Contract):
    """Every yielded gene pointer is the byte range of one gene line; every yielded transcript pointer is the byte range of a maximal
    run of non-gene records with one transcript id (comment lines inside a run are covered); no pointer that was started is dropped;
    a gene pointer collects the transcript id of every record up to the next gene line."""
    path, qualname, props = GP, 'iterate_pointer', ('C11',)
    assumptions = ('assumed: iterating a binary file yields its lines; len(bytes) is the byte length, len(str) the character count '
                   '(<= byte length in UTF-8); GtfIO.line_to_seq_feature gives type, gene_id and transcript_id of a decoded line',)

    def setup(self, I):
        e = I.e
        L = LinesModel(e)
        for a in L.axioms:
            e.assume(a)
        st = types.SimpleNamespace(L=L, yielded=[], adds=[], k=None)
        st.handle = SymObj('HandleStub')
        st.args = [st.handle]
        st.kwargs = dict(source='GENCODE')
        self._cur = st
        return st

    @property
    def models(self):
        c = self

        def inst(reg):
            reg.protocol_('HandleStub', '__iter__', lambda I, o: FnView(c._cur.L.N, lambda i: BytesLine(c._cur.L, i if is_z3(i) else z3.IntVal(i)), tag='lines'))

            def to_feature(I, a, kw):
                L = c._cur.L
                ln = a[0]
                if not isinstance(ln, TextLine):
                    I.raise_('TypeError', 'line_to_seq_feature needs str')
                k = ln.k
                return SymObj('GTFSeqFeature', type=TypeStr(L, k), source=None, chrom='chr1', location=None, id='<unknown id>', qualifiers={},
                              attributes={'gene_id': Key(L.gid(k)), 'transcript_id': Key(L.tid(k))}, frame=None)
            reg.func_('moPepGen/gtf/GtfIO.py', 'line_to_seq_feature', to_feature)
            reg.on_yield = c.on_yield
            reg.ctor_('set', lambda I, a, kw: GhostSet(c._cur.adds, 'new'))
        return (inst,)

    # ---- loop state
    def mk_ptr(self, cls, key, start, end):
        return SymObj(cls, handle=self._cur.handle, key=key, start=start, end=end, source='GENCODE',
                      transcripts=GhostSet(self._cur.adds, 'gene-pointer'), is_protein_coding=None)

    def havoc(self, I, env, k):
        st = self._cur
        e = I.e
        st.ga, st.ta, st.tb = e.int('g_line'), e.int('t_first'), e.int('t_last')
        if e.branch(e.bool('has_gene_pointer'), 'a gene pointer is open'):
            env['cur_gene_pointer'] = self.mk_ptr('GenePointer', Key(e.int('gp_key')), e.int('gp_start'), e.int('gp_end'))
            env['cur_gene_id'] = Key(e.int('cur_gene'))
        else:
            env['cur_gene_pointer'] = None
            env['cur_gene_id'] = None
        if e.branch(e.bool('has_tx_pointer'), 'a transcript pointer is open'):
            key = e.int('cur_tx')
            env['cur_tx_pointer'] = self.mk_ptr('TranscriptPointer', Key(e.int('tp_key')), e.int('tp_start'), e.int('tp_end'))
            env['cur_tx_id'] = Key(key)
        else:
            env['cur_tx_pointer'] = None
            env['cur_tx_id'] = None

    def run(self, a, b, key):
        L = self._cur.L
        j = z3.Int('j_run')
        return z3.And(0 <= a, a <= b, z3.Not(L.comment(a)), z3.Not(L.comment(b)),
                      z3.ForAll([j], z3.Implies(z3.And(a <= j, j <= b),
                                                z3.Or(L.comment(j), z3.And(z3.Not(L.gene(j)), L.tid(j) == key)))))

    def inv(self, I, env, k):
        st = self._cur
        L = st.L
        items = [('line_end=byte-offset-of-line-k', env['line_end'] == L.off(k))]
        gp, tp, tid = env['cur_gene_pointer'], env['cur_tx_pointer'], env['cur_tx_id']
        items.append(('open-transcript-pointer-iff-current-transcript-id', (tp is None) == (tid is None)))
        if tp is not None and tid is not None:
            f = tp.fields
            j = z3.Int('j_after')
            items += [('transcript-pointer-non-empty', f['start'] < f['end']),
                      ('transcript-pointer-has-the-current-id', f['key'].code == tid.code),
                      ('transcript-pointer=byte-range-of-the-current-run',
                       z3.And(st.tb < k, f['start'] == L.off(st.ta), f['end'] == L.off(st.tb + 1), self.run(st.ta, st.tb, tid.code))),
                      ('only-comments-after-the-run-so-far', z3.ForAll([j], z3.Implies(z3.And(st.tb < j, j < k), L.comment(j))))]
        if gp is not None:
            f = gp.fields
            items += [('gene-pointer-non-empty', f['start'] < f['end']),
                      ('gene-pointer=byte-range-of-its-gene-line',
                       z3.And(0 <= st.ga, st.ga < k, L.gene(st.ga), z3.Not(L.comment(st.ga)), f['start'] == L.off(st.ga),
                              f['end'] == L.off(st.ga + 1), f['key'].code == L.gid(st.ga)))]
        return items

    def on_head(self, I, env, k):
        st = self._cur
        st.k = k
        st.pre = dict(gp=env['cur_gene_pointer'], tp=env['cur_tx_pointer'], ny=len(st.yielded), na=len(st.adds),
                      tp_end=env['cur_tx_pointer'].fields['end'] if env['cur_tx_pointer'] is not None else None)

    def on_yield(self, I, frame, p):
        st = self._cur
        L, k, e = st.L, st.k, I.e
        st.yielded.append(p)
        if k is None:
            k = z3.IntVal(0)
        f = p.fields
        if p.cls == 'GenePointer':
            e.prove('C11/gtf-index/yield/gene-pointer=byte-range-of-one-gene-line',
                    z3.And(0 <= st.ga, st.ga < L.N, L.gene(st.ga), z3.Not(L.comment(st.ga)), f['start'] == L.off(st.ga),
                           f['end'] == L.off(st.ga + 1), f['key'].code == L.gid(st.ga)))
        else:
            key = f['key'].code
            j = z3.Int('j_y')
            e.prove('C11/gtf-index/yield/transcript-pointer=byte-range-of-a-run-of-one-transcript',
                    z3.And(st.tb < L.N, f['start'] == L.off(st.ta), f['end'] == L.off(st.tb + 1), self.run(st.ta, st.tb, key)))
            e.prove('C11/gtf-index/yield/run-is-maximal-to-the-right',
                    z3.And(z3.ForAll([j], z3.Implies(z3.And(st.tb < j, j < k), L.comment(j))),
                           z3.Or(k >= L.N, z3.And(z3.Not(L.comment(k)), z3.Or(L.gene(k), L.tid(k) != key)))))

    def step(self, I, env, k):
        st = self._cur
        L = st.L
        gp, tp = env['cur_gene_pointer'], env['cur_tx_pointer']
        new_y = st.yielded[st.pre['ny']:]
        items = []
        # a pointer that was open at the loop head and is no longer the current one must have been yielded
        if st.pre['tp'] is not None and tp is not st.pre['tp']:
            items.append(('replaced-transcript-pointer-was-yielded', any(y is st.pre['tp'] for y in new_y)))
        if st.pre['gp'] is not None and gp is not st.pre['gp']:
            items.append(('replaced-gene-pointer-was-yielded', any(y is st.pre['gp'] for y in new_y)))
        items.append(('only-closed-pointers-are-yielded', all(y is st.pre['tp'] or y is st.pre['gp'] for y in new_y)))
        # ghost updates for the invariant at k+1
        if gp is not None and gp is not st.pre['gp']:
            st.ga = k
            items.append(('gene-pointer-opened-only-by-a-gene-line', z3.And(L.gene(k), z3.Not(L.comment(k)))))
        if tp is not None and tp is not st.pre['tp']:
            st.ta = st.tb = k
            items.append(('transcript-pointer-opened-by-a-record-of-another-transcript',
                          z3.And(z3.Not(L.gene(k)), z3.Not(L.comment(k)),
                                 (st.pre['tp'] is None) or (st.pre['tp'].fields['key'].code != L.tid(k)))))
        elif tp is not None and tp.fields['end'] is not st.pre['tp_end']:
            st.tb = k
        # every record after a gene line registers its transcript with that gene
        adds = st.adds[st.pre['na']:]
        if gp is not None and gp is st.pre['gp']:
            want = z3.And(z3.Not(L.comment(k)), z3.Not(L.gene(k)))
            got = [a for a in adds if a[0] == 'gene-pointer']
            items.append(('record-registers-its-transcript-with-the-open-gene',
                          z3.If(want, len(got) == 1 and isinstance(got[0][1], Key) and got[0][1].code == L.tid(k) if got else False,
                                len(got) == 0)))
        return items

    @property
    def loops(self):
        return {0: LoopSpec(inv=self.inv, havoc=self.havoc, on_head=self.on_head, step=self.step)}

    def post_return(self, I, st, ret):
        # at the end of the file the pointers still open are yielded (st.pre is the state at the loop exit)
        pre = getattr(st, 'pre', None)
        if pre is None:
            I.e.prove('C11/gtf-index/exit/loop-was-cut', False)
            return
        tail = st.yielded[pre['ny']:]
        I.e.prove('C11/gtf-index/exit/open-transcript-pointer-is-yielded', pre['tp'] is None or any(y is pre['tp'] for y in tail))
        I.e.prove('C11/gtf-index/exit/open-gene-pointer-is-yielded', pre['gp'] is None or any(y is pre['gp'] for y in tail))
        I.e.prove('C11/gtf-index/exit/nothing-else-is-yielded', all(y is pre['tp'] or y is pre['gp'] for y in tail))


# ----------------------------------------------------------------------------
# Native side (replay + CPython cross-check of the spec functions)
# ----------------------------------------------------------------------------
from pyvc.native import NativeCheck
from . import realobj


def _tx_input_from_model(model, extra=()):
    n = realobj.model_int(model, 'tx_n')
    if n is None or not 1 <= n <= 8:
        return None
    s = realobj.model_array(model, 'tx_s', range(n))
    e = realobj.model_array(model, 'tx_e', range(n))
    strand = realobj.model_int(model, 'tx_strand', 1)
    if s is None or e is None:
        return None
    inp = dict(exons=list(zip(s, e)), strand=strand)
    for k in extra:
        inp[k] = realobj.model_int(model, k)
        if inp[k] is None:
            return None
    return inp


class NativeCoords(NativeCheck):
    name = 'coords'
    props = ('C11',)
    functions = (f'{TAM}:TranscriptAnnotationModel.get_transcript_index',
                 f'{GA}:GenomicAnnotation.coordinate_transcript_to_genomic',
                 f'{GA}:GenomicAnnotation.coordinate_genomic_to_gene',
                 f'{GA}:GenomicAnnotation.coordinate_gene_to_genomic',
                 f'{GA}:GenomicAnnotation.coordinate_gene_to_transcript')
    bounded_for = ''
    bound = ('CPython cross-check of the proved coordinate contracts: random transcripts with <=4 exons in '
             '[5,60), both strands, every genomic position 0..69 and every transcript index')
    quick_budget_s = 8
    thorough_budget_s = 60

    def cases(self, rng, tier):
        for _ in range(60 if tier != 'thorough' else 600):
            ex = realobj.random_exons(rng)
            yield dict(exons=ex, strand=rng.choice([1, -1]))

    def from_model(self, model):
        inp = _tx_input_from_model(model)
        if inp is None:
            gs, ge, st = (realobj.model_int(model, k) for k in ('gene_start', 'gene_end', 'gene_strand'))
            if None in (gs, ge) or not (0 <= gs < ge <= 10 ** 6):
                return None
            return dict(exons=[(gs, ge)], strand=st if st in (1, -1) else 1, gene=(gs, ge),
                        probe=[realobj.model_int(model, 'x'), realobj.model_int(model, 'i')])
        if any(not (0 <= a < b <= 10 ** 6) for a, b in inp['exons']):
            return None
        inp['probe'] = [realobj.model_int(model, 'g'), realobj.model_int(model, 'i')]
        return inp

    def check(self, inp):
        from moPepGen import ERROR_INDEX_IN_INTRON
        exons = [tuple(x) for x in inp['exons']]
        strand = inp['strand']
        gs, ge = inp.get('gene') or (max(0, exons[0][0] - 3), exons[-1][1] + 4)
        anno = realobj.anno_from([dict(id='G', start=gs, end=ge, strand=strand, transcripts=['T'])],
                                 [dict(id='T', gene='G', strand=strand, exons=exons)])
        tx = anno.transcripts['T']
        exonic = [g for a, b in exons for g in range(a, b)]
        order = exonic if strand == 1 else list(reversed(exonic))
        lo, hi = max(0, gs - 3), ge + 3
        probes = [p for p in inp.get('probe', []) if p is not None]
        for g in list(range(lo, hi)) + probes:
            try:
                res = ('ok', tx.get_transcript_index(g))
            except ValueError as ex:
                res = ('intron',) if ex.args and ex.args[0] == ERROR_INDEX_IN_INTRON else ('range',)
            if g in exonic:
                exp = ('ok', order.index(g))
            elif exons[0][0] <= g < exons[-1][1]:
                exp = ('intron',)
            else:
                exp = ('range',)
            if res != exp:
                return dict(call=f'get_transcript_index({g})', observed=res, expected=exp)
            try:
                gi = ('ok', anno.coordinate_genomic_to_gene(g, 'G'))
            except ValueError:
                gi = ('err',)
            expg = ('ok', g - gs if strand == 1 else ge - 1 - g) if gs <= g < ge else ('err',)
            if gi != expg:
                return dict(call=f'coordinate_genomic_to_gene({g})', observed=gi, expected=expg)
            if gi[0] == 'ok':
                back = anno.coordinate_gene_to_genomic(gi[1], 'G')
                if back != g:
                    return dict(call=f'coordinate_gene_to_genomic({gi[1]})', observed=back, expected=g)
                try:
                    r = ('ok', anno.coordinate_gene_to_transcript(gi[1], 'G', 'T'))
                except ValueError:
                    r = ('err',)
                expt = ('ok', order.index(g)) if g in exonic else ('err',)
                if r != expt:
                    return dict(call=f'coordinate_gene_to_transcript({gi[1]})', observed=r, expected=expt)
        for i in list(range(len(order) + 2)) + [p for p in probes if p is not None and p >= 0]:
            try:
                r = ('ok', anno.coordinate_transcript_to_genomic(i, 'T'))
            except ValueError:
                r = ('err',)
            exp = ('ok', order[i]) if i < len(order) else ('err',)
            if r != exp:
                return dict(call=f'coordinate_transcript_to_genomic({i})', observed=r, expected=exp)
        return None

    def nontrivial(self, inp):
        return (tuple(map(tuple, inp['exons'])), inp['strand']) if len(inp['exons']) >= 2 else None


def synthetic_gtf(n_genes, rng, non_ascii=False):
    """GTF text with n_genes genes (one or two transcripts each, 1-3 exons), GENCODE-style attributes"""
    lines = ['##description: synthetic annotation' + (' \u00e9\u00fc\u4e2d' if non_ascii else '')]
    pos = 100
    truth = {}
    truth_tags = synthetic_gtf.tags = {}
    for g in range(n_genes):
        strand = rng.choice('+-')
        gid = f'ENSG{g:05d}.1'
        txs = []
        gstart = pos
        for t in range(rng.randint(1, 2)):
            tid = f'ENST{g:05d}{t}.1'
            exons = []
            p_ = gstart + rng.randint(0, 5)
            for _ in range(rng.randint(1, 3)):
                ln = rng.randint(5, 30)
                exons.append((p_, p_ + ln))
                p_ += ln + rng.randint(3, 20)
            txs.append((tid, exons))
        gend = max(e for _, ex in txs for _, e in ex)
        name = f'GENE{g}' + ('\u00df' if non_ascii and g % 3 == 0 else '')
        ga = f'gene_id "{gid}"; gene_type "protein_coding"; gene_name "{name}";'
        lines.append(f'chr1\tHAVANA\tgene\t{gstart + 1}\t{gend}\t.\t{strand}\t.\t{ga}')
        for tid, exons in txs:
            # GENCODE records carry several `tag` attributes; the NF tags decide how the transcript is translated
            tags = rng.sample(['basic', 'cds_start_NF', 'mRNA_end_NF', 'mRNA_start_NF', 'CCDS'], rng.randint(0, 3))
            ta = f'gene_id "{gid}"; transcript_id "{tid}"; gene_type "protein_coding"; gene_name "{name}"; transcript_type "protein_coding";' \
                + ''.join(f' tag "{t_}";' for t_ in tags)
            lines.append(f'chr1\tHAVANA\ttranscript\t{exons[0][0] + 1}\t{exons[-1][1]}\t.\t{strand}\t.\t{ta}')
            for a, b in exons:
                lines.append(f'chr1\tHAVANA\texon\t{a + 1}\t{b}\t.\t{strand}\t.\t{ta}')
            truth[tid] = (gid, strand, exons)
            truth_tags[tid] = tags
        truth[gid] = (gstart, gend, strand, [t for t, _ in txs])
        pos = gend + rng.randint(10, 40)
    return '\n'.join(lines) + '\n', truth


class NativeOnDisk(NativeCheck):
    name = 'annotation_on_disk'
    props = ('C11',)
    functions = (f'{GP}:GenePointerDict.__getitem__', f'{GP}:TranscriptPointerDict.__getitem__', f'{GP}:iterate_pointer')
    bounded_for = 'GTF text -> on-disk index -> models: equal to the annotated coordinates for every key, under random access orders with unknown keys'
    bound = ('synthetic GTF with 14-18 genes (more than the cache size of 10), 1-2 transcripts, 1-3 exons, both strands, with and without '
             'non-ASCII characters; 60 random lookups per case incl. ~15% unknown keys; quick 6 files, thorough 60')
    quick_budget_s = 20
    thorough_budget_s = 120

    def cases(self, rng, tier):
        for i in range(6 if tier != 'thorough' else 60):
            yield dict(seed=rng.randrange(10 ** 9), n=rng.randint(14, 18), non_ascii=(i % 2 == 1))

    def from_model(self, model):
        return dict(seed=1, n=15, non_ascii=False)

    def check(self, inp):
        import random, tempfile, shutil, os
        from moPepGen.gtf import GenomicAnnotationOnDisk
        rng = random.Random(inp['seed'])
        text, truth = synthetic_gtf(inp['n'], rng, inp['non_ascii'])
        d = tempfile.mkdtemp(prefix='verif_c11_')
        try:
            path = os.path.join(d, 'anno.gtf')
            with open(path, 'w', encoding='utf-8') as fh:
                fh.write(text)
            anno = GenomicAnnotationOnDisk()
            anno.generate_index(path)
            keys = list(truth)
            for step in range(60):
                if rng.random() < 0.15:
                    bad = f'NOPE{step}'
                    table = anno.genes if rng.random() < 0.5 else anno.transcripts
                    try:
                        table[bad]
                        return dict(call=f'lookup of unknown key {bad}', observed='a model', expected='KeyError', signature='unknown-key-found')
                    except KeyError as ex:
                        if ex.args and ex.args[0] != bad:
                            return dict(call=f'lookup of unknown key {bad}', observed=f'KeyError({ex.args[0]!r})', expected=f'KeyError({bad!r})',
                                        signature='wrong-keyerror')
                    continue
                k = rng.choice(keys)
                try:
                    if k.startswith('ENSG'):
                        m = anno.genes[k]
                        gs, ge, strand, txs = truth[k]
                        got = (int(m.location.start), int(m.location.end), '+' if m.location.strand == 1 else '-', sorted(m.transcripts))
                        exp = (gs, ge, strand, sorted(txs))
                    else:
                        m = anno.transcripts[k]
                        gid, strand, exons = truth[k]
                        tags = synthetic_gtf.tags.get(k, [])
                        got = (m.transcript.gene_id, '+' if m.transcript.strand == 1 else '-',
                               [(int(x.location.start), int(x.location.end)) for x in m.exon], m.is_cds_start_nf(), m.is_mrna_end_nf())
                        exp = (gid, strand, exons, 'cds_start_NF' in tags, 'mRNA_end_NF' in tags)
                except Exception as ex:
                    return dict(call=f'lookup #{step} of valid key {k}', observed=f'{type(ex).__name__}: {ex}', expected='the annotated model',
                                signature='valid-key-lookup-fails')
                if got != exp:
                    return dict(call=f'lookup #{step} of {k}', observed=str(got)[:300], expected=str(exp)[:300], signature='model-differs-from-gtf')
        finally:
            shutil.rmtree(d, ignore_errors=True)
        return None

    def nontrivial(self, inp):
        return (inp['seed'], inp['non_ascii'])


NATIVE = [NativeCoords(), NativeOnDisk()]
