"""callVariant's per-unit caller for the transcript itself (call_peptide_main): what reaches the graph code and what comes back.
The graph classes are not under contract (DESIGN.md §3 C01-C03); this contract pins the data flow around them."""
from __future__ import annotations
import types
import z3
from pyvc.contract import Contract, register
from pyvc.core import Unsupported
from pyvc.interp import LoopSpec
from pyvc.values import *

CVP = 'moPepGen/cli/call_variant_peptide.py'
I_, B_ = z3.IntSort(), z3.BoolSort()


class _Labels7b:
    pass


class _PeptideMap7b:
    """peptide_map: the result of the known-ORF call (or {}), to which novel-ORF peptides are added; membership is a predicate over the
    novel-ORF items, stores are logged"""
    def __init__(self, owner, base):
        self.owner, self.base = owner, base

    def sym_contains(self, I, key):
        st = self.owner._cur
        if isinstance(key, SymObj) and key.cls == 'NovelPep7b':
            # the items of one call have distinct sequences, so only the known-ORF result can already hold this peptide
            return st.also_known(key.fields['i']) if self.base == 'known' else False
        raise Unsupported(f'membership of {key!r} in peptide_map')

    def sym_setitem(self, I, key, v):
        self.owner._cur.stores.append((key, v))


@register
class CallPeptideMain(Contract):
    """the graph of a transcript is built from its own sequence (tx_seqs[tx_id]) with its own annotation flags (cds_start_NF, coding status,
    mrna_end_NF), the cleavage parameters and --max-adjacent-as-mnv of the run; the Sec sites are gathered from the annotation before the three
    frames are made; the variant graph gets the given variants, variant pool, genome, annotation and sequence tables; then codons, translation,
    cleavage. A coding transcript is called with its known ORF (check_orf off); a non-coding one, or any with --coding-novel-orf, is (also)
    called with ORF search - and that second call only ADDS peptides: a peptide the first call found keeps its labels, every new one is stored
    once with its own labels. Both calls get the denylist and the Sec / W>F flags and require external variants. The graphs are returned only
    when they are to be saved"""
    path, qualname, props = CVP, 'call_peptide_main', ('C04', 'C05', 'C07')
    assumptions = ('havoc: ThreeFrameTVG / PeptideVariantGraph construction, translation, cleavage and traversal (not under contract; C01-C03 not applicable)',)

    def setup(self, I):
        e = I.e
        st = types.SimpleNamespace(log=[], stores=[], calls=[])
        st.coding, st.cnf, st.mnf = e.bool('tx_is_protein_coding'), e.bool('cds_start_nf'), e.bool('mrna_end_nf')
        st.novel_opt, st.save = e.bool('coding_novel_orf'), e.bool('save_graph')
        st.trunc, st.w2f = e.bool('truncate_sec'), e.bool('w2f')
        st.mnv = e.int('max_adjacent_as_mnv')
        st.tx_model = SymObj('TxModel7b', is_protein_coding=st.coding)
        st.anno = SymObj('Anno7b', transcripts=types.SimpleNamespace(sym_getitem=lambda I2, key: st.tx_model if key == 'ENST_T' else (_ for _ in ()).throw(Unsupported('other transcript'))))
        st.genome = SymObj('Genome7b')
        st.ref = SymObj('ReferenceData', anno=st.anno, genome=st.genome)
        st.seq = SymObj('TxSeq7b')
        st.tx_seqs = types.SimpleNamespace(sym_getitem=lambda I2, key: st.seq if key == 'ENST_T' else SymObj('OtherSeq7b'))
        st.gene_seqs, st.variants, st.pool, st.params, st.deny = SymObj('GeneSeqs7b'), SymObj('Variants7b'), SymObj('Pool7b'), SymObj('Params7b'), SymObj('Denylist7b')
        st.n_novel = e.int('n_novel_orf_peptides')
        e.assume(st.n_novel >= 0)
        st.also_known = z3.Function('novel_orf_peptide_was_found_by_the_known_orf_call', I_, B_)
        st.args = []
        st.kwargs = dict(tx_id='ENST_T', tx_variants=st.variants, variant_pool=st.pool, ref=st.ref, tx_seqs=st.tx_seqs, gene_seqs=st.gene_seqs,
                         cleavage_params=st.params, max_adjacent_as_mnv=st.mnv, truncate_sec=st.trunc, w2f=st.w2f, denylist=st.deny,
                         save_graph=st.save, coding_novel_orf=st.novel_opt)
        self._cur = st
        return st

    @property
    def models(self):
        c = self

        def inst(reg):
            S = lambda: c._cur
            zz = lambda i: i if is_z3(i) else z3.IntVal(i)
            reg.method_('TxModel7b', 'is_cds_start_nf', lambda I, o, a, k: S().cnf)
            reg.method_('TxModel7b', 'is_mrna_end_nf', lambda I, o, a, k: S().mnf)

            def tvg(I, a, k):
                st = S()
                I.e.prove('C04/main-unit/graph-built-from-the-sequence-and-annotation-flags-of-this-transcript-with-the-run-parameters',
                          not a and k.get('seq') is st.seq and k.get('_id') == 'ENST_T' and k.get('cds_start_nf') is st.cnf and k.get('has_known_orf') is st.coding
                          and k.get('mrna_end_nf') is getattr(st, 'amnf', st.mnf) and k.get('cleavage_params') is st.params and k.get('max_adjacent_as_mnv') is st.mnv
                          and k.get('coordinate_feature_type') == 'transcript' and k.get('coordinate_feature_id') == 'ENST_T')
                st.dgraph = SymObj('DGraph7b')
                return st.dgraph
            reg.ext_('svgraph.ThreeFrameTVG', tvg)
            reg.ctor_('ThreeFrameTVG', tvg)

            def log(name):
                def h(I, o, a, k):
                    st = S()
                    st.log.append((name, list(a), dict(k)))
                    if name == 'translate':
                        st.pgraph = SymObj('PGraph7b')
                        return st.pgraph
                    return None
                return h
            for nm in ('gather_sect_variants', 'init_three_frames', 'create_variant_graph', 'fit_into_codons', 'translate'):
                reg.method_('DGraph7b', nm, log(nm))
            reg.method_('PGraph7b', 'create_cleavage_graph', log('create_cleavage_graph'))

            def call(I, o, a, k):
                st = S()
                I.e.prove('C04/main-unit/graph-complete-before-peptides-are-called',
                          [x[0] for x in st.log if x[0] != 'set-sect'] == ['gather_sect_variants', 'init_three_frames', 'create_variant_graph', 'fit_into_codons', 'translate', 'create_cleavage_graph'])
                I.e.prove('C04/main-unit/every-call-gets-the-denylist-and-the-sec-and-w2f-flags-and-requires-external-variants',
                          not a and k.get('denylist') is st.deny and (k.get('truncate_sec') is st.trunc if st.trunc is not None else 'truncate_sec' not in k) and k.get('w2f') is st.w2f and k.get('check_external_variants') is True
                          and isinstance(k.get('check_orf'), bool))
                st.calls.append(k.get('check_orf'))
                if k.get('check_orf') is False:
                    st.known_map = _PeptideMap7b(c, 'known')
                    return st.known_map
                items = FnView(st.n_novel, lambda i: (SymObj('NovelPep7b', i=zz(i)), SymObj('NovelLabels7b', i=zz(i))), tag='novel-orf peptides')
                return types.SimpleNamespace(sym_method=lambda I2, name, a2, k2: items if name == 'items' else (_ for _ in ()).throw(Unsupported(name)))
            reg.method_('PGraph7b', 'call_variant_peptides', call)
        return (inst,)

    def havoc(self, I, env, k):
        st = self._cur
        if not isinstance(env['peptide_map'], _PeptideMap7b):
            env['peptide_map'] = _PeptideMap7b(self, 'empty')
            st.empty_map = env['peptide_map']

    def head(self, I, env, k):
        self._cur.mark = len(self._cur.stores)

    def step(self, I, env, k):
        st = self._cur
        new = st.stores[st.mark:]
        known = st.also_known(k) if any(x is False for x in st.calls) else z3.BoolVal(False)
        if not new:
            return [('a-novel-orf-peptide-is-left-out-only-if-the-known-orf-call-already-found-it-and-its-labels-stay', known)]
        ok = len(new) == 1 and isinstance(new[0][0], SymObj) and new[0][0].cls == 'NovelPep7b' and isinstance(new[0][1], SymObj) and new[0][1].cls == 'NovelLabels7b'
        return [('a-new-peptide-is-stored-once-with-its-own-labels-and-nothing-is-overwritten', z3.And(z3.Not(known), new[0][0].fields['i'] == k, new[0][1].fields['i'] == k) if ok else False)]

    @property
    def loops(self):
        return {0: LoopSpec(inv=lambda I, env, k: [], havoc=self.havoc, on_head=self.head, step=self.step, target_after='unknown',
                            on_break=lambda I, env, k: [('every-novel-orf-peptide-is-visited', False)],
                            on_exit=lambda I, env, n: [('all-novel-orf-peptides-were-visited', n == self._cur.n_novel)])}

    def post_return(self, I, st, ret):
        e = I.e
        ok = isinstance(ret, tuple) and len(ret) == 3
        e.prove('C04/main-unit/returns-peptides-and-the-two-graphs', ok)
        if not ok:
            return
        vg = [x for x in st.log if x[0] == 'create_variant_graph']
        k = vg[0][2] if vg else {}
        e.prove('C04/main-unit/variant-graph-gets-the-given-variants-pool-reference-and-sequence-tables',
                len(vg) == 1 and not vg[0][1] and k.get('variants') is st.variants and k.get('variant_pool') is st.pool and k.get('genome') is st.genome and k.get('anno') is st.anno
                and k.get('tx_seqs') is st.tx_seqs and k.get('gene_seqs') is st.gene_seqs)
        gs = [x for x in st.log if x[0] == 'gather_sect_variants']
        e.prove('C04/main-unit/sec-sites-gathered-from-the-annotation', len(gs) == 1 and gs[0][1] == [st.anno] or (len(gs) == 1 and len(gs[0][1]) == 1 and gs[0][1][0] is st.anno))
        known_called, novel_called = any(x is False for x in st.calls), any(x is True for x in st.calls)
        e.prove('C05/main-unit/known-orf-call-iff-coding', z3.BoolVal(known_called) == st.coding)
        e.prove('C05/main-unit/orf-search-iff-noncoding-or-coding-novel-orf', z3.BoolVal(novel_called) == z3.Or(z3.Not(st.coding), st.novel_opt))
        e.prove('C04/main-unit/each-kind-of-call-at-most-once', len(st.calls) == int(known_called) + int(novel_called))
        pm = ret[0]
        if known_called:
            e.prove('C05/main-unit/result-is-the-known-orf-result-with-the-new-novel-orf-peptides-added', pm is st.known_map)
        else:
            e.prove('C05/main-unit/result-starts-empty-for-a-noncoding-transcript', pm is getattr(st, 'empty_map', None) or (isinstance(pm, dict) and not pm))
        if ret[1] is None and ret[2] is None:
            e.prove('C07/main-unit/graphs-dropped-only-when-not-saved', z3.Not(st.save))
        else:
            e.prove('C07/main-unit/graphs-returned-are-the-ones-built-when-saved', z3.And(st.save) if ret[1] is st.dgraph and ret[2] is st.pgraph else False)


class _VarList7b:
    """the variants handed to the variant graph of a fusion: the filtered transcript variants, then what is appended"""
    def __init__(self, owner, filtered):
        self.owner, self.filtered, self.appended = owner, filtered, []

    def sym_method(self, I, name, a, k):
        if name == 'append':
            self.appended.append(a[0])
            return None
        raise Unsupported(f'tx_variants.{name}')


@register
class CallPeptideFusion(CallPeptideMain):
    """a fusion unit: the graph is built from the donor transcript cut at the breakpoint (tx_seqs[tx_id][:breakpoint]) with the donor's
    cds_start_NF / coding status, the mrna_end_NF flag of the ACCEPTER transcript (the fused transcript ends with it) and the run parameters;
    nothing is called when the breakpoint lies before the second codon of the known ORF (before the fourth base without one); the variant graph
    gets exactly the transcript variants that end before the breakpoint (none when the transcript has no variants) followed by the fusion
    itself, and only the Sec sites before the breakpoint are kept; calls, merging of the ORF-search result and returned graphs as for the
    transcript itself, without Sec termination"""
    qualname = 'call_peptide_fusion'
    props = ('C04', 'C05', 'C07', 'C15')      # C15: the fused product is built from the donor up to the breakpoint with the variants in front of it

    def setup(self, I):
        st = super().setup(I)
        e = I.e
        st.bp = e.int('breakpoint')
        e.assume(st.bp >= 0)
        st.has_orf, st.orf_start = e.bool('donor_has_known_orf'), e.int('donor_orf_start')
        st.has_vars = e.bool('donor_transcript_has_variants')
        st.amnf = e.bool('accepter_mrna_end_nf')
        st.acc_model = SymObj('AccModel7b')
        st.anno.fields['transcripts'] = types.SimpleNamespace(sym_getitem=lambda I2, key: st.tx_model if key == 'ENST_T' else (st.acc_model if key == 'ENST_ACC' else (_ for _ in ()).throw(Unsupported('other transcript'))))
        orf = SymObj('Orf7b', start=st.orf_start) if e.branch(st.has_orf, 'known orf') else None
        st.full_seq = SymObj('FullTxSeq7b', orf=orf)
        st.tx_seqs = types.SimpleNamespace(sym_getitem=lambda I2, key: st.full_seq if key == 'ENST_T' else SymObj('OtherSeq7b'))
        st.fusion = SymObj('Fusion7b', location=SymObj('Loc7b', seqname='ENST_T', start=st.bp, end=st.bp + 1), accepter_transcript_id='ENST_ACC')
        zz = lambda i: i if is_z3(i) else z3.IntVal(i)
        st.nv = e.int('n_transcriptional_variants')
        e.assume(st.nv >= 0)
        st.vend = z3.Function('variant_end', I_, I_)
        st.tvars = FnView(st.nv, lambda i: SymObj('TxVar7b', i=zz(i), location=SymObj('Loc7b', seqname='ENST_T', start=st.vend(zz(i)) - 1, end=st.vend(zz(i)))), tag='transcriptional variants')
        st.pool = SymObj('Pool7bf')
        st.kwargs = dict(variant=st.fusion, variant_pool=st.pool, ref=st.ref, tx_seqs=st.tx_seqs, gene_seqs=st.gene_seqs, cleavage_params=st.params,
                         max_adjacent_as_mnv=st.mnv, w2f_reassignment=st.w2f, denylist=st.deny, save_graph=st.save, coding_novel_orf=st.novel_opt)
        st.trunc = None
        st.sect_filter = None
        return st

    @property
    def models(self):
        c = self
        base = super().models

        def inst(reg):
            for m in base:
                m(reg)
            S = lambda: c._cur
            reg.method_('AccModel7b', 'is_mrna_end_nf', lambda I, o, a, k: S().amnf)
            reg.protocol_('Pool7bf', '__contains__', lambda I, o, key: S().has_vars if key == 'ENST_T' else (_ for _ in ()).throw(Unsupported('other key')))
            reg.protocol_('Pool7bf', '__getitem__', lambda I, o, key: SymObj('Series7b', transcriptional=S().tvars) if key == 'ENST_T' else (_ for _ in ()).throw(Unsupported('other key')))

            def tx_slice(I, o, lo, hi):
                st = S()
                I.e.prove('C05/fusion-unit/donor-sequence-cut-at-the-breakpoint', lo is None and hi is st.bp)
                st.seq = SymObj('CutTxSeq7b', orf=o.fields['orf'])
                return st.seq
            reg.protocol_('FullTxSeq7b', '__getslice__', tx_slice)

            def comp(I, node, env, view, kind):
                st = S()
                from pyvc.interp import Env
                from pyvc.core import as_bool
                g = node.generators[0]
                if kind == 'list' and len(g.ifs) == 1 and view is st.tvars:
                    j = z3.Int('j_tx_variant')
                    sub = Env({}, env)
                    I.assign(g.target, view.get(j), sub)
                    cond = as_bool(I.truth(I.eval(g.ifs[0], sub)))
                    keep = I.eval(node.elt, sub)
                    I.e.prove('C05/fusion-unit/exactly-the-transcript-variants-that-end-before-the-breakpoint-are-kept',
                              z3.And(cond == (st.vend(j) < st.bp)) if isinstance(keep, SymObj) and keep.cls == 'TxVar7b' and z3.is_true(z3.simplify(keep.fields['i'] == j)) else False)
                    return _VarList7b(c, True)
                if kind == 'list' and len(g.ifs) == 1 and isinstance(view, FnView) and view.tag == 'sect variants of the graph':
                    j = z3.Int('j_sect')
                    sub = Env({}, env)
                    I.assign(g.target, view.get(j), sub)
                    cond = as_bool(I.truth(I.eval(g.ifs[0], sub)))
                    keep = I.eval(node.elt, sub)
                    I.e.prove('C05/fusion-unit/only-the-sec-sites-before-the-breakpoint-are-kept',
                              z3.And(cond == (st.sect_end(j) < st.bp)) if isinstance(keep, SymObj) and keep.cls == 'Sect7b' and z3.is_true(z3.simplify(keep.fields['i'] == j)) else False)
                    st.sect_filter = True
                    return SymObj('FilteredSect7b')
                return None
            reg.comprehension_hooks.append(comp)
            st0 = S
            zz = lambda i: i if is_z3(i) else z3.IntVal(i)

            def sect_attr(I, o):
                st = S()
                if not hasattr(st, 'sect_end'):
                    st.sect_end = z3.Function('sect_site_end', I_, I_)
                return FnView(I.e.int('n_sect_sites'), lambda i: SymObj('Sect7b', i=zz(i), location=SymObj('Loc7b', seqname='ENST_T', start=st.sect_end(zz(i)) - 3, end=st.sect_end(zz(i)))), tag='sect variants of the graph')
            reg.attr_('DGraph7b', 'sect_variants', sect_attr)
            reg._setattr[('DGraph7b', 'sect_variants')] = lambda I, o, v: S().log.append(('set-sect', [v], {}))
        return (inst,)

    def post_return(self, I, st, ret):
        e = I.e
        early = z3.If(st.has_orf, st.bp < st.orf_start + 3, st.bp < 3)
        if not hasattr(st, 'dgraph'):
            ok = isinstance(ret, tuple) and len(ret) == 3 and isinstance(ret[0], dict) and not ret[0] and ret[1] is None and ret[2] is None
            e.prove('C05/fusion-unit/nothing-called-only-for-a-breakpoint-before-the-second-codon', z3.And(early) if ok else False)
            return
        e.prove('C05/fusion-unit/called-unless-the-breakpoint-lies-before-the-second-codon', z3.Not(early))
        # the graph log of a fusion has the Sec filter between gathering and the frames
        names = [x[0] for x in st.log]
        e.prove('C05/fusion-unit/sec-sites-filtered-after-gathering-and-before-the-frames', names[:3] == ['gather_sect_variants', 'set-sect', 'init_three_frames'] and st.sect_filter is True)
        st.log = [x for x in st.log if x[0] != 'set-sect']
        vg = [x for x in st.log if x[0] == 'create_variant_graph']
        v = vg[0][2].get('variants') if vg else None
        if isinstance(v, _VarList7b):
            e.prove('C05/fusion-unit/variant-graph-gets-the-kept-transcript-variants-then-the-fusion-itself', z3.And(st.has_vars) if len(v.appended) == 1 and v.appended[0] is st.fusion else False)
        else:
            e.prove('C05/fusion-unit/variant-graph-gets-the-kept-transcript-variants-then-the-fusion-itself',
                    z3.Not(st.has_vars) if isinstance(v, list) and len(v) == 1 and v[0] is st.fusion else False)
        st.variants = v
        super().post_return(I, st, ret)


class _FragList7b:
    def __init__(self, owner):
        self.owner = owner

    def sym_method(self, I, name, a, k):
        if name == 'append':
            self.owner._cur.frag_appends.append(a[0])
            return None
        raise Unsupported(f'fragments.{name}')

    def sym_truth(self, I):
        return self.owner._cur.some_long_fragment


@register
class CallPeptideCircRna(Contract):
    """a circRNA unit: the circular sequence is made from the sequence of the record's own gene (gene_seqs[record.gene_id]) by the record's
    get_circ_rna_sequence and its locations are renamed to the record id; the variants come from filter_variants of the given pool for the
    record's transcript, without alternative-splicing records and intronic ones, restricted to the fragments longer than three bases (each
    shortened by its first three bases, same chromosome and attributes); the graph is built from that sequence, the record, the run's
    cleavage parameters and --max-adjacent-as-mnv in gene coordinates of that gene; frames, variant graph, loop extension, truncation,
    codons, translation and cleavage precede the one call, which gets the denylist, the record, --backsplicing-only, the W>F flag and
    requires external variants; without a usable fragment nothing is called; the graphs are returned only when they are to be saved"""
    path, qualname, props = CVP, 'call_peptide_circ_rna', ('C04', 'C05', 'C07')
    assumptions = ('havoc: ThreeFrameCVG / PeptideVariantGraph (not under contract); get_circ_rna_sequence (C17) and filter_variants (C06) are their own contracts',)

    def setup(self, I):
        e = I.e
        st = types.SimpleNamespace(log=[], frag_appends=[], feats=[], renamed=[])
        zz = lambda i: i if is_z3(i) else z3.IntVal(i)
        st.nf = e.int('n_fragments')
        e.assume(st.nf >= 1)
        st.fs, st.fe = z3.Function('fragment_start', I_, I_), z3.Function('fragment_end', I_, I_)
        st.some_long_fragment = e.bool('some_fragment_longer_than_three_bases')

        class Frags(View):
            sorted_ = False

            def length(s_):
                return st.nf

            def get(s_, i):
                i = zz(i)
                return SymObj('Frag7b', i=i, chrom=SymObj('FragChrom7b', i=i), attributes=SymObj('FragAttrs7b', i=i),
                              location=SymObj('Loc7b', seqname=None, start=st.fs(i), end=st.fe(i)))

            def sym_method(s_, I2, name, a, k):
                if name == 'sort' and not (a or k):
                    st.log.append(('sort-fragments', [], {}))
                    return None
                raise Unsupported(f'fragments.{name}')
        st.frags = Frags()
        st.nloc = e.int('n_locations')
        e.assume(st.nloc >= 0)
        st.gene_id, st.rec_id, st.tx_id = SymObj('GeneId7b'), SymObj('CircId7b'), SymObj('CircTx7b')
        st.record = SymObj('CircRNAModel', gene_id=st.gene_id, id=st.rec_id, transcript_id=st.tx_id, fragments=st.frags)
        st.gene_seq = SymObj('GeneSeq7b')
        st.gene_seqs = types.SimpleNamespace(sym_getitem=lambda I2, key: st.gene_seq if key is st.gene_id else SymObj('OtherGeneSeq7b'))
        st.pool, st.params, st.deny = SymObj('Pool7bc'), SymObj('Params7b'), SymObj('Denylist7b')
        st.mnv, st.bso, st.w2f, st.save = e.int('max_adjacent_as_mnv'), e.bool('backsplicing_only'), e.bool('w2f'), e.bool('save_graph')
        st.args = []
        st.kwargs = dict(record=st.record, variant_pool=st.pool, gene_seqs=st.gene_seqs, cleavage_params=st.params, max_adjacent_as_mnv=st.mnv,
                         backsplicing_only=st.bso, w2f_reassignment=st.w2f, denylist=st.deny, save_graph=st.save)
        self._cur = st
        return st

    @property
    def models(self):
        c = self

        def inst(reg):
            S = lambda: c._cur
            zz = lambda i: i if is_z3(i) else z3.IntVal(i)
            reg.protocol_('Frag7b', '__len__', lambda I, o: o.fields['location'].fields['end'] - o.fields['location'].fields['start'])

            def circ_seq(I, o, a, k):
                st = S()
                I.e.prove('C04/circ-unit/circular-sequence-from-the-sequence-of-the-gene-of-the-record-after-sorting-the-fragments',
                          len(a) == 1 and a[0] is st.gene_seq and [x[0] for x in st.log] == ['sort-fragments'])
                st.cseq = SymObj('CircSeq7b', locations=FnView(st.nloc, lambda i: SymObj('MLoc7b', i=zz(i), ref=SymObj('RefLoc7b', i=zz(i), seqname=None)), tag='locations'))
                return st.cseq
            reg.method_('CircRNAModel', 'get_circ_rna_sequence', circ_seq)
            reg._setattr[('RefLoc7b', 'seqname')] = lambda I, o, v: S().renamed.append((o.fields['i'], v))

            def feat(I, a, k):
                f = SymObj('SeqFeature', **k)
                S().feats.append(f)
                return f
            reg.ctor_('SeqFeature', feat)
            reg.ctor_('FeatureLocation', lambda I, a, k: SymObj('FeatureLocation', **k))

            def filt(I, o, a, k):
                st = S()
                st.log.append(('filter_variants', list(a), dict(k)))
                st.vrecs = SymObj('FilteredVariants7b')
                return st.vrecs
            reg.method_('Pool7bc', 'filter_variants', filt)

            def cvg(I, a, k):
                st = S()
                I.e.prove('C04/circ-unit/graph-built-from-the-circular-sequence-the-record-and-the-run-parameters-in-gene-coordinates',
                          len(a) == 1 and a[0] is st.cseq and k.get('_id') is st.rec_id and k.get('circ_record') is st.record and k.get('cleavage_params') is st.params
                          and k.get('max_adjacent_as_mnv') is st.mnv and k.get('coordinate_feature_type') == 'gene' and k.get('coordinate_feature_id') is st.gene_id)
                st.cgraph = SymObj('CGraph7b')
                return st.cgraph
            reg.ext_('svgraph.ThreeFrameCVG', cvg)
            reg.ctor_('ThreeFrameCVG', cvg)

            def log(name):
                def h(I, o, a, k):
                    st = S()
                    st.log.append((name, list(a), dict(k)))
                    if name == 'translate':
                        st.pgraph = SymObj('PGraph7bc')
                        return st.pgraph
                    if name == 'call_variant_peptides':
                        st.result = SymObj('CircPeptides7b')
                        return st.result
                    return None
                return h
            for nm in ('init_three_frames', 'create_variant_circ_graph', 'extend_loop', 'truncate_three_frames', 'fit_into_codons', 'translate'):
                reg.method_('CGraph7b', nm, log(nm))
            for nm in ('create_cleavage_graph', 'call_variant_peptides'):
                reg.method_('PGraph7bc', nm, log(nm))
        return (inst,)

    # loop 0: rename the locations; loop 1: the fragments
    def head0(self, I, env, k):
        self._cur.m0 = len(self._cur.renamed)

    def step0(self, I, env, k):
        st = self._cur
        new = st.renamed[st.m0:]
        return [('location-k-renamed-to-the-record-id', z3.And(new[0][0] == k) if len(new) == 1 and new[0][1] is st.rec_id else False)]

    def havoc1(self, I, env, k):
        env['fragments'] = _FragList7b(self)
        self._cur.fraglist = env['fragments']

    def head1(self, I, env, k):
        st = self._cur
        st.m1 = (len(st.frag_appends), len(st.feats))

    def step1(self, I, env, k):
        st = self._cur
        app, feats = st.frag_appends[st.m1[0]:], st.feats[st.m1[1]:]
        long_ = st.fe(k) - st.fs(k) > 3
        if not app:
            return [('a-fragment-is-left-out-only-if-it-has-at-most-three-bases', z3.Not(long_))]
        f = app[0]
        ok = len(app) == 1 and isinstance(f, SymObj) and f.cls == 'SeqFeature' and isinstance(f.fields.get('location'), SymObj) and isinstance(f.fields.get('chrom'), SymObj) \
            and f.fields['chrom'].cls == 'FragChrom7b' and isinstance(f.fields.get('attributes'), SymObj) and f.fields['attributes'].cls == 'FragAttrs7b'
        if not ok:
            return [('a-longer-fragment-is-kept-once-without-its-first-three-bases', False)]
        loc = f.fields['location']
        return [('a-longer-fragment-is-kept-once-without-its-first-three-bases',
                 z3.And(long_, loc.fields['start'] == st.fs(k) + 3, loc.fields['end'] == st.fe(k), f.fields['chrom'].fields['i'] == k, f.fields['attributes'].fields['i'] == k))]

    @property
    def loops(self):
        T = lambda I, env, k: []
        brk = lambda what: (lambda I, env, k: [(what, False)])
        U = dict(target_after='unknown')
        return {0: LoopSpec(inv=T, havoc=lambda I, env, k: None, on_head=self.head0, step=self.step0, on_break=brk('every-location-is-renamed'),
                            on_exit=lambda I, env, n: [('all-locations-were-visited', n == self._cur.nloc)], **U),
                1: LoopSpec(inv=T, havoc=self.havoc1, on_head=self.head1, step=self.step1, on_break=brk('every-fragment-is-visited'),
                            on_exit=lambda I, env, n: [('all-fragments-were-visited', n == self._cur.nf)], **U)}

    def post_return(self, I, st, ret):
        e = I.e
        ok = isinstance(ret, tuple) and len(ret) == 3
        e.prove('C04/circ-unit/returns-peptides-and-the-two-graphs', ok)
        if not ok:
            return
        names = [x[0] for x in st.log]
        if 'call_variant_peptides' not in names:
            e.prove('C05/circ-unit/nothing-called-only-without-a-fragment-longer-than-three-bases',
                    z3.Not(st.some_long_fragment) if isinstance(ret[0], dict) and not ret[0] and ret[1] is None and ret[2] is None and names == ['sort-fragments'] else False)
            return
        e.prove('C05/circ-unit/called-when-some-fragment-is-longer-than-three-bases', st.some_long_fragment)
        e.prove('C04/circ-unit/graph-steps-in-order-before-the-one-call',
                names == ['sort-fragments', 'filter_variants', 'init_three_frames', 'create_variant_circ_graph', 'extend_loop', 'truncate_three_frames', 'fit_into_codons', 'translate',
                          'create_cleavage_graph', 'call_variant_peptides'])
        fk = st.log[names.index('filter_variants')]
        k = fk[2]
        tx = k.get('tx_ids')
        e.prove('C05/circ-unit/variants-of-the-transcript-of-the-record-inside-the-kept-fragments-without-splicing-and-intronic-records',
                not fk[1] and isinstance(tx, list) and len(tx) == 1 and tx[0] is st.tx_id and sorted(k.get('exclude_type') or []) == ['Deletion', 'Insertion', 'Substitution']
                and k.get('intron') is False and k.get('segments') is getattr(st, 'fraglist', None))
        vg = st.log[names.index('create_variant_circ_graph')]
        e.prove('C05/circ-unit/variant-graph-gets-exactly-the-filtered-variants', len(vg[1]) == 1 and vg[1][0] is st.vrecs and not vg[2])
        ck = st.log[names.index('call_variant_peptides')]
        e.prove('C04/circ-unit/the-call-gets-the-denylist-the-record-the-backsplicing-and-w2f-flags-and-requires-external-variants',
                not ck[1] and ck[2].get('denylist') is st.deny and ck[2].get('circ_rna') is st.record and ck[2].get('backsplicing_only') is st.bso and ck[2].get('w2f') is st.w2f
                and ck[2].get('check_external_variants') is True)
        e.prove('C04/circ-unit/returns-what-the-call-returned', ret[0] is st.result)
        if ret[1] is None and ret[2] is None:
            e.prove('C07/circ-unit/graphs-dropped-only-when-not-saved', z3.Not(st.save))
        else:
            e.prove('C07/circ-unit/graphs-returned-are-the-ones-built-when-saved', z3.And(st.save) if ret[1] is st.cgraph and ret[2] is st.pgraph else False)


NATIVE = []
