"""Shared model of a tab-separated text table read line by line (used by the contracts of the tool-output parsers).

A data line k is a row of NCOL columns, none of them empty (assumed and stated by every contract that uses this model), so `rstrip()` removes the line
break only and `split('\\t')` gives the NCOL columns.  A column is an opaque text; int() / float() of it is "the number written there"; split(sep) gives
its parts (symbolic count >= 1).  Nothing is known about the content of a column beyond identity - which is all the table parsers may rely on."""
from __future__ import annotations
import z3
from pyvc.core import Unsupported
from pyvc.values import *

I_, B_ = z3.IntSort(), z3.BoolSort()


def zz(i):
    return i if is_z3(i) else z3.IntVal(i)


def same(a, b):
    return z3.eq(z3.simplify(zz(a)), z3.simplify(zz(b)))


class TNumber:
    def __init__(self, kind, k, col, part=None):
        self.kind, self.k, self.col, self.part = kind, k, col, part

    def is_(self, kind, k, col):
        return self.kind == kind and self.col == col and self.part is None and same(self.k, k)

    def sym_int(self, I):
        if self.kind == 'int':
            return self
        raise Unsupported('int() of a float column')


class TField:
    """column `col` of line k, after the text operations `ops` (strip / replace: content-preserving clean-up recorded, not interpreted)"""
    def __init__(self, tab, k, col, ops=()):
        self.tab, self.k, self.col, self.ops = tab, k, col, tuple(ops)

    def sym_method(self, I, name, a, kw):
        if name == 'split' and len(a) == 1 and isinstance(a[0], str):
            return TParts(self.tab, self.k, self.col, a[0], self.ops)
        if name == 'isdigit' and not a and not self.ops:
            # digits only: a number without a sign (every such column holds a number; a column holding a number may carry a minus sign)
            d = z3.Function('column_is_digits_only', I_, I_, B_)(zz(self.k), z3.IntVal(self.col))
            I.e.assume(z3.Implies(d, self.tab.is_number(zz(self.k), z3.IntVal(self.col))))
            return d
        if name in ('strip', 'replace', 'lstrip', 'rstrip') and all(isinstance(x, str) for x in a):
            return TField(self.tab, self.k, self.col, self.ops + ((name,) + tuple(a),))
        raise Unsupported(f'table column.{name}')

    def sym_int(self, I):
        if self.ops:
            raise Unsupported('int() of a cleaned-up column')
        if self.col in getattr(self.tab, 'maybe_not_a_number', ()):
            if not I.e.branch(self.tab.is_number(zz(self.k), z3.IntVal(self.col)), f'column {self.col + 1} holds a number'):
                I.raise_('ValueError', 'invalid literal for int()')
        return TNumber('int', self.k, self.col)

    def sym_float(self, I):
        if self.ops:
            raise Unsupported('float() of a cleaned-up column')
        return TNumber('float', self.k, self.col)

    def sym_str(self, I):
        return self

    def sym_eq(self, I, other):
        if isinstance(other, str) and not self.ops:
            return z3.Function('table_column_is_text', I_, I_, z3.StringSort(), B_)(zz(self.k), z3.IntVal(self.col), z3.StringVal(other))
        if isinstance(other, TField):
            return True if (other.col, other.ops) == (self.col, self.ops) and same(self.k, other.k) else I.e.bool('columns_equal')
        raise Unsupported('table column compared with another kind of value')

    def is_(self, k, col, ops=()):
        return self.col == col and same(self.k, k) and self.ops == tuple(ops)


class TPart:
    def __init__(self, tab, k, col, sep, j, ops=()):
        self.tab, self.k, self.col, self.sep, self.j, self.ops = tab, k, col, sep, j, tuple(ops)

    def sym_int(self, I):
        return TNumber('int', self.k, self.col, part=(self.sep, self.j))

    def sym_str(self, I):
        return self

    def sym_method(self, I, name, a, kw):
        if name == 'split' and len(a) == 1 and isinstance(a[0], str):
            return TSubParts(self, a[0])
        raise Unsupported(f'part of a column.{name}')

    def sym_len(self, I):
        n = z3.Function('length_of_part', I_, I_, I_, I_)(zz(self.k), z3.IntVal(self.col), zz(self.j))
        I.e.assume(n >= 0)
        return n

    def sym_getitem(self, I, idx):
        if isinstance(idx, int) and idx >= 0:
            if not I.e.branch(self.sym_len(I) > idx, f'the part has more than {idx} characters'):
                I.raise_('IndexError', 'string index out of range')
            return TChar(self, idx)
        raise Unsupported('index into a part of a column')


class TChar:
    """character idx of a part of a column"""
    def __init__(self, part, idx):
        self.part, self.idx = part, idx

    def of(self, k, col, sep, j, idx):
        p = self.part
        return self.idx == idx and p.col == col and p.sep == sep and same(p.k, k) and not isinstance(p.j, str) and same(p.j, j)


class TSubParts:
    """parts of a part (REDItools: ENST-transcript)"""
    def __init__(self, part, sep):
        self.part, self.sep = part, sep

    def sym_iter_concrete(self, I):
        raise Unsupported('concrete iteration over the parts of a part')


class TParts:
    """the parts of a column split at `sep`, in order"""
    def __init__(self, tab, k, col, sep, ops=()):
        self.tab, self.k, self.col, self.sep, self.ops = tab, k, col, sep, tuple(ops)

    def count(self):
        return z3.Function('parts_in_column', I_, I_, I_)(zz(self.k), z3.IntVal(self.col))

    def sym_view(self, I):
        n = self.count()
        I.e.assume(n >= 1)
        v = FnView(n, lambda j: TPart(self.tab, self.k, self.col, self.sep, zz(j), self.ops), tag='parts of a column')
        v.parts = self
        return v

    def sym_getitem(self, I, idx):
        if isinstance(idx, int):
            return TPart(self.tab, self.k, self.col, self.sep, 'last' if idx == -1 else idx, self.ops)
        raise Unsupported('symbolic index into the parts of a column')

    def sym_len(self, I):
        n = self.count()
        I.e.assume(n >= 1)
        return n

    def is_(self, k, col, sep, ops=()):
        return self.col == col and self.sep == sep and same(self.k, k) and self.ops == tuple(ops)


class TLine:
    def __init__(self, tab, k, stripped=False, trimmed=False):
        self.tab, self.k, self.stripped, self.trimmed = tab, k, stripped, trimmed

    def sym_truth(self, I):
        # a line read behind the end of the file is None
        return zz(self.k) < self.tab.n

    def sym_method(self, I, name, a, kw):
        if name == 'startswith' and a == ['#']:
            return self.tab.comment(zz(self.k))
        if name == 'rstrip' and not a:
            return TLine(self.tab, self.k, True)
        if name == 'split' and a == ['\t']:
            if not self.stripped:
                raise Unsupported('the line is split with its line break still attached')
            last = self.tab.ncol - 1
            return [TField(self.tab, self.k, c, (('trailing-separator-removed',),) if (self.trimmed and c == last) else ()) for c in range(self.tab.ncol)]
        raise Unsupported(f'table line.{name}')


class TFile:
    """an open text file: iteration gives the lines from the cursor on; next(handle, None) gives the line at the cursor (None behind the end) and moves on"""
    def __init__(self, tab):
        self.tab = tab
        self.pos = 0

    def sym_method(self, I, name, a, kw):
        if name == '__enter__':
            return self
        if name in ('__exit__', 'close'):
            return None
        raise Unsupported(f'file.{name}')

    def sym_next(self, I, default):
        if not (default and default[0] is None):
            raise Unsupported('next(handle) without the None default')
        ln = TLine(self.tab, self.pos)
        self.pos = self.pos + 1
        return ln

    def sym_view(self, I):
        if not isinstance(self.pos, int):
            raise Unsupported('iteration over a file from a symbolic position')
        p = self.pos
        if p == 0:
            return FnView(self.tab.n, lambda i: TLine(self.tab, zz(i)), tag='lines of the table')
        return FnView(z3.If(self.tab.n >= p, self.tab.n - p, z3.IntVal(0)), lambda i: TLine(self.tab, zz(i) + p), tag='lines of the table')


class Table:
    def __init__(self, I, ncol, name='table'):
        self.n = I.e.int(f'n_lines_of_the_{name}')
        I.e.assume(self.n >= 0)
        self.ncol = ncol
        self.comment = z3.Function('line_is_a_comment', I_, B_)
        self.is_number = z3.Function('column_holds_a_number', I_, I_, B_)
        self.maybe_not_a_number = ()
        self.file = TFile(self)


def check_value(v, k, col, kind):
    """does value v denote column col of line k read as `kind` (text | int | float | ('parts', sep[, ops]) | ('last', sep))"""
    if kind == 'text':
        return isinstance(v, TField) and v.is_(k, col)
    if kind in ('int', 'float'):
        return isinstance(v, TNumber) and v.is_(kind, k, col)
    if kind[0] == 'parts':
        return isinstance(v, TParts) and v.is_(k, col, kind[1], kind[2] if len(kind) > 2 else ())
    if kind[0] == 'last':
        return isinstance(v, TPart) and v.col == col and v.sep == kind[1] and v.j == 'last' and same(v.k, k) and not v.ops
    return False


def first_loop_kind(I, path, qualname):
    """'for' or 'while': the form of the first loop of the function (the table readers are written either as `for line in handle` or as
    `while line: ... line = next(handle, None)`); a contract that follows one form answers Unsupported on the other instead of misreading it"""
    import ast
    fn = I.repo.function_node(path, qualname)[2]
    loops = [n for n in ast.walk(fn) if isinstance(n, (ast.For, ast.While))]
    if not loops:
        raise Unsupported(f'{qualname}: no loop over the lines of the table')
    first = min(loops, key=lambda n: (n.lineno, n.col_offset))
    return 'while' if isinstance(first, ast.While) else 'for'
