"""C12 — index directory: pool registration / lookup by parameter equality, faithful files,
version validation.  Abstract view: pools = sequence of (index, key6) + fs: index -> content.
WF: indices >= 1 and distinct, file name = fname(index), keys distinct.
Every operation preserves WF, hence all histories (induction over the operation sequence)."""
from __future__ import annotations
import types
import z3
from pyvc.contract import Contract, Lemma, register
from pyvc.core import Unsupported, as_bool, Engine
from pyvc.interp import LoopSpec, PyRaise
from pyvc.values import *

IDX = 'moPepGen/index.py'
VER = 'moPepGen/version.py'
I_, B_ = z3.IntSort(), z3.BoolSort()
S_ = Engine.StrSort
R_ = z3.RealSort()
KEYS = ('enzyme', 'exception', 'miscleavage', 'min_mw', 'min_length', 'max_length')
SORTS = dict(enzyme=S_, exception=S_, miscleavage=I_, min_mw=R_, min_length=I_, max_length=I_)
C_ = z3.DeclareSort('Content')


def wrapv(k, t):
    return SymStr(t) if SORTS[k] == S_ else t


def unwrapv(I, k, v):
    if SORTS[k] == S_:
        if v is None:
            return I.e.strlit('<None>')
        if isinstance(v, str):
            return I.e.strlit(v)
        return v.term
    if isinstance(v, (int, float)):
        return z3.RealVal(v) if SORTS[k] == R_ else z3.IntVal(v)
    if SORTS[k] == R_ and is_z3(v) and v.is_int():
        return z3.ToReal(v)
    return v


class PoolList(View):
    """self.metadata.canonical_pools"""
    def __init__(self, I, name='pools', fresh=True):
        e = I.e
        self.I, self.name = I, name
        self.m = e.int(f'{name}_m')
        self.idx = z3.Array(e.fresh_name(f'{name}_idx'), I_, I_)
        self.fnidx = z3.Array(e.fresh_name(f'{name}_fnidx'), I_, I_)
        self.key = {k: z3.Array(e.fresh_name(f'{name}_{k}'), I_, SORTS[k]) for k in KEYS}
        self.cache = {}

    def snapshot(self):
        return types.SimpleNamespace(m=self.m, idx=self.idx, fnidx=self.fnidx, key=dict(self.key))

    def length(self):
        return self.m

    def sym_len(self, I):
        return self.m

    def sym_truth(self, I):
        return self.m != 0

    def get(self, j):
        jz = j if is_z3(j) else z3.IntVal(j)
        cp = SymObj('CleavageParams', **{k: wrapv(k, self.key[k][jz]) for k in KEYS},
                    max_variants_per_node=7, additional_variants_per_misc=2, min_nodes_to_collapse=30, naa_to_collapse=5)
        return SymObj('CanonicalPoolMetadata', filename=FileName(self.fnidx[jz]), index=self.idx[jz], cleavage_params=cp, pos=jz)

    def sym_method(self, I, name, args, kwargs):
        if name == 'append':
            p = args[0]
            fn = p.fields['filename']
            if not isinstance(fn, FileName):
                raise Unsupported('pool file name is not canonical_peptides_<index:03>.pkl')
            self.idx = z3.Store(self.idx, self.m, p.fields['index'])
            self.fnidx = z3.Store(self.fnidx, self.m, fn.index)
            cp = p.fields['cleavage_params']
            for k in KEYS:
                self.key[k] = z3.Store(self.key[k], self.m, unwrapv(I, k, cp.fields[k]))
            self.m = self.m + 1
            return None
        if name == 'remove' and isinstance(args[0], SymObj) and args[0].cls == 'CanonicalPoolMetadata' and 'pos' in args[0].fields:
            # list.remove of an entry of this list (entries are pairwise distinct: WF): everything behind it moves up
            r = args[0].fields['pos']
            j = z3.Int(I.e.fresh_name('rmj'))
            shift = lambda arr: z3.Lambda([j], z3.If(j < r, arr[j], arr[j + 1]))
            self.idx, self.fnidx = shift(self.idx), shift(self.fnidx)
            for k in KEYS:
                self.key[k] = shift(self.key[k])
            self.m = self.m - 1
            return None
        raise Unsupported(f'canonical_pools.{name}')


class FileName:
    """canonical_peptides_{index:03}.pkl — injective in index (':03' pads, never truncates)"""
    def __init__(self, index):
        self.index = index


def keyeq(pl, j, cp_terms):
    return z3.And(*[pl.key[k][j] == cp_terms[k] for k in KEYS])


def wf(pl, tag='w'):
    a, b = z3.Ints(f'{tag}_a {tag}_b')
    inr = lambda x: z3.And(0 <= x, x < pl.m)
    return [pl.m >= 0,
            z3.ForAll([a], z3.Implies(inr(a), z3.And(pl.idx[a] >= 1, pl.fnidx[a] == pl.idx[a]))),
            z3.ForAll([a, b], z3.Implies(z3.And(inr(a), inr(b), a != b), pl.idx[a] != pl.idx[b])),
            z3.ForAll([a, b], z3.Implies(z3.And(inr(a), inr(b), a != b),
                                         z3.Not(z3.And(*[pl.key[k][a] == pl.key[k][b] for k in KEYS]))))]


def same_prefix(pl, snap, tag='f'):
    """frame: the first snap.m entries are unchanged"""
    a = z3.Int(f'{tag}_a')
    return z3.ForAll([a], z3.Implies(z3.And(0 <= a, a < snap.m),
                                     z3.And(pl.idx[a] == snap.idx[a], pl.fnidx[a] == snap.fnidx[a],
                                            *[pl.key[k][a] == snap.key[k][a] for k in KEYS])))


def mk_params(I, name='p'):
    e = I.e
    terms = {k: z3.Const(f'{name}_{k}', SORTS[k]) for k in KEYS}
    cp = SymObj('CleavageParams', **{k: wrapv(k, terms[k]) for k in KEYS},
                max_variants_per_node=7, additional_variants_per_misc=2, min_nodes_to_collapse=30, naa_to_collapse=5)
    return cp, terms


def install_path_models(reg):
    """file system of the index directory: fs maps a pool-file index to its content (SSA)"""
    def truediv(I, o, other):
        if isinstance(other, FileName):
            return SymObj('PoolFile', index=other.index)
        return SymObj('OtherFile', name=other)
    reg.protocol_('PathStub', '__truediv__', truediv)


class _Meta(Contract):
    props = ('C12',)

    def mk_meta(self, I):
        pl = PoolList(I)
        for a in wf(pl):
            I.e.assume(a)
        meta = SymObj('IndexMetadata', version=SymObj('MetaVersion'), canonical_pools=pl, source=None)
        return meta, pl


@register
class GetCanonicalPool(_Meta):
    path, qualname = IDX, 'IndexMetadata.get_canonical_pool'
    props = ('C12', 'C10', 'C06')   # C06: index directory vs raw files give the same canonical pool; C10: the pool served from an index directory is the one digested with exactly the run's parameters

    def setup(self, I):
        st = types.SimpleNamespace()
        st.meta, st.pl = self.mk_meta(I)
        st.cp, st.terms = mk_params(I)
        st.args = [st.meta, st.cp]
        self._cur = st
        return st

    def inv(self, I, env, k):
        st = self._cur
        j = z3.Int('gj')
        return [('no-earlier-pool-has-these-parameters',
                 z3.ForAll([j], z3.Implies(z3.And(0 <= j, j < k), z3.Not(keyeq(st.pl, j, st.terms)))))]

    @property
    def loops(self):
        return {0: LoopSpec(inv=self.inv)}

    def post_return(self, I, st, ret):
        j = z3.Int('rj')
        if ret is None:
            I.e.prove('C12/get/none-iff-no-pool-with-these-parameters',
                      z3.ForAll([j], z3.Implies(z3.And(0 <= j, j < st.pl.m), z3.Not(keyeq(st.pl, j, st.terms)))))
        else:
            r = ret.fields['pos']
            I.e.prove('C12/get/returns-the-pool-with-exactly-these-parameters',
                      z3.And(0 <= r, r < st.pl.m, keyeq(st.pl, r, st.terms)))

    def summary(self, I, args, kwargs):
        meta, cp = args[0], args[1]
        pl = meta.fields['canonical_pools']
        terms = {k: unwrapv(I, k, cp.fields[k]) for k in KEYS}
        e = I.e
        j = z3.Int(e.fresh_name('sj'))
        exists = z3.Exists([j], z3.And(0 <= j, j < pl.m, keyeq(pl, j, terms)))
        if e.branch(exists, 'pool registered'):
            r = e.int('found')
            e.assume(z3.And(0 <= r, r < pl.m, keyeq(pl, r, terms)))
            return pl.get(r)
        return None


@register
class RegisterCanonicalPool(_Meta):
    props = ('C12', 'C06')          # C06: the pool read back from an index directory is the one saved for these parameters
    path, qualname = IDX, 'IndexMetadata.register_canonical_pool'
    assumptions = ("assumed: f'canonical_peptides_{index:03}.pkl' is injective in index (':03' pads, never truncates)",)

    def setup(self, I):
        st = types.SimpleNamespace()
        st.meta, st.pl = self.mk_meta(I)
        st.snap = st.pl.snapshot()
        st.cp, st.terms = mk_params(I)
        st.args = [st.meta, st.cp]
        self._cur = st
        return st

    @property
    def models(self):
        return (self.install_models,)

    def install_models(self, reg):
        orig = None
        def joined(I, o, a, k):
            return None
        # the f-string for the file name evaluates to OpaqueStr([... ('fmt', index, '03') ...]): recognise it
        def ctor(I, a, k):
            fn = k.get('filename', a[0] if a else None)
            if isinstance(fn, OpaqueStr) and len(fn.parts) == 3 and fn.parts[0] == 'canonical_peptides_' \
                    and isinstance(fn.parts[1], tuple) and fn.parts[1][0] == 'fmt' and fn.parts[1][2] == '03' and fn.parts[2] == '.pkl':
                fn = FileName(fn.parts[1][1])
            return SymObj('CanonicalPoolMetadata', filename=fn, index=k.get('index', a[1] if len(a) > 1 else None),
                          cleavage_params=k.get('cleavage_params', a[2] if len(a) > 2 else None))
        reg.ctor_('CanonicalPoolMetadata', ctor)

    def post_return(self, I, st, ret):
        e = I.e
        pl, snap = st.pl, st.snap
        j = z3.Int('pj')
        e.prove('C12/register/only-when-absent', z3.ForAll([j], z3.Implies(z3.And(0 <= j, j < snap.m), z3.Not(keyeq(types.SimpleNamespace(key=snap.key), j, st.terms)))))
        e.prove('C12/register/appends-one-entry', pl.m == snap.m + 1)
        e.prove('C12/register/existing-entries-unchanged', same_prefix(pl, snap))
        e.prove('C12/register/new-entry-has-the-parameters', keyeq(pl, snap.m, st.terms))
        e.prove('C12/register/file-name-is-fname(index)', z3.And(pl.fnidx[snap.m] == pl.idx[snap.m], isinstance(ret.fields['filename'], FileName)))
        for n, g in enumerate(wf(pl, 'post')):
            e.prove(f'C12/register/WF-preserved/{n}', g)

    def post_raise(self, I, st, exc):
        j = z3.Int('xj')
        I.e.prove('C12/register/raises-iff-already-registered',
                  z3.And(exc.cls == 'ValueError', z3.Exists([j], z3.And(0 <= j, j < st.snap.m, keyeq(types.SimpleNamespace(key=st.snap.key), j, st.terms)))))
        I.e.prove('C12/register/raise-changes-nothing', z3.And(st.pl.m == st.snap.m, z3.eq(st.pl.idx, st.snap.idx)))

    def summary(self, I, args, kwargs):
        meta, cp = args[0], args[1]
        pl = meta.fields['canonical_pools']
        terms = {k: unwrapv(I, k, cp.fields[k]) for k in KEYS}
        e = I.e
        j = z3.Int(e.fresh_name('rj'))
        if e.branch(z3.Exists([j], z3.And(0 <= j, j < pl.m, keyeq(pl, j, terms))), 'already registered'):
            I.raise_('ValueError', 'Canonical peptide pool already exists with the parameters.')
        snap = pl.snapshot()
        new_idx = e.int('new_index')
        a = z3.Int(e.fresh_name('ra'))
        e.assume(new_idx >= 1)
        e.assume(z3.ForAll([a], z3.Implies(z3.And(0 <= a, a < snap.m), snap.idx[a] != new_idx)))
        pl.idx = z3.Store(pl.idx, pl.m, new_idx)
        pl.fnidx = z3.Store(pl.fnidx, pl.m, new_idx)
        for k in KEYS:
            pl.key[k] = z3.Store(pl.key[k], pl.m, terms[k])
        pl.m = pl.m + 1
        return pl.get(snap.m)


class _Dir(_Meta):
    def mk_dir(self, I):
        st = types.SimpleNamespace()
        st.meta, st.pl = self.mk_meta(I)
        st.fs = z3.Function('fs0', I_, C_)
        st.fs0 = st.fs
        st.dir = SymObj('IndexDir', path=SymObj('PathStub'), metadata=st.meta)
        st.writes = []
        st.removed = []
        return st

    @property
    def models(self):
        return (install_path_models, self.install_fs)

    def install_fs(self, reg):
        c = self
        reg.ext_('open', lambda I, a, k: SymObj('Handle', file=a[0], mode=a[1] if len(a) > 1 else 'r'))

        def dump(I, a, k):
            st = c._cur
            h = a[1]
            f = h.fields['file']
            if f.cls != 'PoolFile':
                raise Unsupported('pickle.dump to a non-pool file')
            I.e.prove('C12/fs/written-through-a-write-handle', h.fields['mode'] == 'wb')
            old = st.fs
            new = z3.Function(I.e.fresh_name('fs'), I_, C_)
            x = z3.Int(I.e.fresh_name('fx'))
            I.e.assume(z3.ForAll([x], new(x) == z3.If(x == f.fields['index'], a[0].fields['content'], old(x))))
            st.fs = new
            st.writes.append(f.fields['index'])
        reg.ext_('pickle.dump', dump)

        def load(I, a, k):
            st = c._cur
            f = a[0].fields['file']
            if f.cls != 'PoolFile':
                raise Unsupported('pickle.load of a non-pool file')
            return SymObj('Seqs', content=st.fs(f.fields['index']))
        reg.ext_('pickle.load', load)
        reg.ext_('os.remove', lambda I, a, k: c._cur.removed.append(a[0]))
        reg.method_('PoolFile', 'exists', lambda I, o, a, k: z3.Function('pool_file_exists', I_, z3.BoolSort())(o.fields['index']))
        reg.method_('PoolFile', 'unlink', lambda I, o, a, k: c._cur.removed.append(o))


@register
class SaveCanonicalPeptides(_Dir):
    props = ('C12', 'C06')          # C06: the pool read back from an index directory is the one saved for these parameters
    path, qualname = IDX, 'IndexDir.save_canonical_peptides'

    def setup(self, I):
        st = self.mk_dir(I)
        st.snap = st.pl.snapshot()
        st.cp, st.terms = mk_params(I)
        st.seqs = SymObj('Seqs', content=z3.Const('new_content', C_))
        st.override = I.e.bool('override')
        st.args = [st.dir, st.seqs, st.cp]
        st.kwargs = dict(override=st.override)
        self._cur = st
        return st

    def post_return(self, I, st, ret):
        e = I.e
        pl, snap = st.pl, st.snap
        j, x = z3.Ints('sj sx')
        existed = z3.Exists([j], z3.And(0 <= j, j < snap.m, keyeq(types.SimpleNamespace(key=snap.key), j, st.terms)))
        e.prove('C12/save/existing-pool-overwritten-only-with-override', z3.Implies(existed, st.override))
        e.prove('C12/save/exactly-one-file-written', len(st.writes) == 1)
        if len(st.writes) == 1:
            w = st.writes[0]
            r = z3.Int('sr')
            e.prove('C12/save/the-file-written-is-the-file-registered-for-these-parameters',
                    z3.Exists([r], z3.And(0 <= r, r < pl.m, keyeq(pl, r, st.terms), pl.idx[r] == w)))
            e.prove('C12/save/content-stored', st.fs(w) == st.seqs.fields['content'])
            e.prove('C12/save/every-other-file-unchanged', z3.ForAll([x], z3.Implies(x != w, st.fs(x) == st.fs0(x))))
        e.prove('C12/save/existing-entries-unchanged', same_prefix(pl, snap))
        e.prove('C12/save/at-most-one-new-entry', z3.If(existed, pl.m == snap.m, pl.m == snap.m + 1))
        for n, g in enumerate(wf(pl, 'post')):
            e.prove(f'C12/save/WF-preserved/{n}', g)

    def post_raise(self, I, st, exc):
        j = z3.Int('sj')
        existed = z3.Exists([j], z3.And(0 <= j, j < st.snap.m, keyeq(types.SimpleNamespace(key=st.snap.key), j, st.terms)))
        I.e.prove('C12/save/raises-iff-present-and-no-override', z3.And(exc.cls == 'ValueError', existed, z3.Not(st.override)))
        I.e.prove('C12/save/raise-writes-nothing', len(st.writes) == 0 and z3.is_true(z3.simplify(st.pl.m == st.snap.m)))


@register
class LoadCanonicalPeptides(_Dir):
    props = ('C12', 'C06')          # C06: the pool read back from an index directory is the one saved for these parameters
    path, qualname = IDX, 'IndexDir.load_canonical_peptides'

    def setup(self, I):
        st = self.mk_dir(I)
        st.cp, st.terms = mk_params(I)
        st.args = [st.dir, st.cp]
        self._cur = st
        return st

    def post_return(self, I, st, ret):
        r = z3.Int('lr')
        I.e.prove('C12/load/returns-the-content-of-the-pool-registered-for-exactly-these-parameters',
                  z3.Exists([r], z3.And(0 <= r, r < st.pl.m, keyeq(st.pl, r, st.terms),
                                        ret.fields['content'] == st.fs(st.pl.idx[r]))))
        I.e.prove('C12/load/reads-only', len(st.writes) == 0)

    def post_raise(self, I, st, exc):
        j = z3.Int('lj')
        I.e.prove('C12/load/rejects-iff-no-pool-for-these-parameters',
                  z3.And(exc.cls == 'ValueError',
                         z3.ForAll([j], z3.Implies(z3.And(0 <= j, j < st.pl.m), z3.Not(keyeq(st.pl, j, st.terms))))))


@register
class WipeCanonicalPeptides(_Dir):
    path, qualname = IDX, 'IndexDir.wipe_canonical_peptides'

    def setup(self, I):
        st = self.mk_dir(I)
        st.args = [st.dir]
        self._cur = st
        return st

    def on_head(self, I, env, k):
        self._cur.r0 = len(self._cur.removed)

    def step(self, I, env, k):
        st = self._cur
        new = st.removed[st.r0:]
        if not new:
            return [('a-pool-file-is-left-only-if-it-does-not-exist', z3.Not(z3.Function('pool_file_exists', I_, z3.BoolSort())(st.pl.fnidx[k])))]
        return [('removes-exactly-this-pool-file',
                 len(new) == 1 and isinstance(new[0], SymObj) and new[0].cls == 'PoolFile'
                 and z3.is_true(z3.simplify(new[0].fields['index'] == st.pl.fnidx[k])))]

    @property
    def loops(self):
        return {0: LoopSpec(inv=lambda I, env, k: [], on_head=self.on_head, step=self.step)}

    def post_return(self, I, st, ret):
        pools = st.meta.fields['canonical_pools']
        I.e.prove('C12/wipe/no-pool-registered-afterwards', isinstance(pools, list) and len(pools) == 0)


# ---------------------------------------------------------------------------- versions
class VerStr:
    """a moPepGen version string  <major>.<minor>.<patch>[-suffix]"""
    def __init__(self, major, minor, patch, has_suffix, stage=0):
        self.major, self.minor, self.patch, self.has_suffix, self.stage = major, minor, patch, has_suffix, stage

    def sym_method(self, I, name, args, kwargs):
        if name == 'split' and args == ['-'] and self.stage == 0:
            core = VerStr(self.major, self.minor, self.patch, False, 1)
            return [core, OpaqueStr(['suffix'])] if I.e.branch(self.has_suffix, 'version has suffix') else [core]
        if name == 'split' and args == ['.'] and self.stage == 1:
            return [IntStr(self.major), IntStr(self.minor), IntStr(self.patch)]
        raise Unsupported(f'version string .{name}{args}')


class IntStr:
    def __init__(self, v):
        self.v = v

    def sym_int(self, I):
        return self.v


@register
class VersionIsValid(Contract):
    path, qualname, props = VER, 'MetaVersion.is_valid', ('C12',)
    assumptions = ('assumed: version strings have the form <major>.<minor>.<patch>[-suffix] with non-negative integers',)

    def setup(self, I):
        e = I.e
        st = types.SimpleNamespace()
        S = lambda n: SymStr(z3.Const(n, S_))
        st.cur = SymObj('MetaVersion', python=S('cur_python'), biopython=S('cur_bio'), mopepgen=OpaqueStr(['current']))
        st.mj, st.mn, st.pt = e.int('major'), e.int('minor'), e.int('patch')
        for v in (st.mj, st.mn, st.pt):
            e.assume(v >= 0)
        st.idx = SymObj('MetaVersion', python=S('idx_python'), biopython=S('idx_bio'),
                        mopepgen=VerStr(st.mj, st.mn, st.pt, e.bool('has_suffix')))
        st.args = [st.cur, st.idx]
        self._cur = st
        return st

    def post_return(self, I, st, ret):
        min_ok = z3.Or(st.mj > 1, z3.And(st.mj == 1, z3.Or(st.mn > 3, z3.And(st.mn == 3, st.pt >= 0))))
        want = z3.And(st.cur.fields['python'].term == st.idx.fields['python'].term,
                      st.cur.fields['biopython'].term == st.idx.fields['biopython'].term, min_ok)
        I.e.prove('C12/version/valid-iff-same-python-and-biopython-and-mopepgen>=1.3.0', as_bool(I.truth(ret)) == want)


@register
class ValidateMetadata(_Dir):
    path, qualname = IDX, 'IndexDir.validate_metadata'

    def setup(self, I):
        st = self.mk_dir(I)
        st.valid = I.e.bool('version_is_valid')
        st.args = [st.dir]
        self._cur = st
        return st

    @property
    def models(self):
        c = self
        def inst(reg):
            reg.ctor_('MetaVersion', lambda I, a, k: SymObj('MetaVersionCur'))
            def is_valid(I, o, a, k):
                I.e.prove('C12/validate/checks-the-recorded-version', a[0] is c._cur.meta.fields['version'])
                return c._cur.valid
            reg.method_('MetaVersionCur', 'is_valid', is_valid)
        return (inst,)

    def post_return(self, I, st, ret):
        I.e.prove('C12/validate/accepts-only-valid-versions', st.valid)

    def post_raise(self, I, st, exc):
        I.e.prove('C12/validate/rejects-with-InvalidIndexError-iff-invalid', z3.And(exc.cls == 'InvalidIndexError', z3.Not(st.valid)))


# ----------------------------------------------------------------------------
# Native side: operation histories on a real index directory against a dictionary model
# ----------------------------------------------------------------------------
# metadata.json round trip: what save_metadata writes is what load_metadata reads back
# ----------------------------------------------------------------------------
PAR = 'moPepGen/params.py'


@register
class CleavageParamsInit(Contract):
    """the six cleavage fields are stored as given; exception 'auto' is resolved and never stored"""
    path, qualname, props = PAR, 'CleavageParams.__init__', ('C12', 'C10')

    def setup(self, I):
        cp, terms = mk_params(I, 'arg')
        st = types.SimpleNamespace(terms=terms, obj=SymObj('CleavageParams'))
        st.args = [st.obj]
        st.kwargs = {k: cp.fields[k] for k in KEYS}
        return st

    def post_return(self, I, st, ret):
        e = I.e
        o, t = st.obj, st.terms
        for k in KEYS:
            if k == 'exception':
                continue
            e.prove(f'C12/params-init/{k}-stored-as-given', as_bool(I.eq(o.fields[k], wrapv(k, t[k]))))
        auto, tryp = e.strlit('auto'), e.strlit('trypsin')
        exc = unwrapv(I, 'exception', o.fields['exception'])
        e.prove('C12/params-init/exception-resolved',
                exc == z3.If(t['exception'] == auto, z3.If(t['enzyme'] == tryp, e.strlit('trypsin_exception'), e.strlit('<None>')),
                             t['exception']))
        e.prove('C12/params-init/auto-is-never-stored', exc != auto)


class GhostPools:
    def __init__(self, owner):
        self.owner = owner

    def sym_method(self, I, name, args, kwargs):
        if name != 'append':
            raise Unsupported(f'canonical_pools.{name}')
        self.owner.on_append(I, args[0])


@register
class JsonfyMetadata(_Meta):
    """IndexMetadata.jsonfy lists, per registered pool and in order, its file name, index and the six parameters"""
    path, qualname = IDX, 'IndexMetadata.jsonfy'

    @property
    def models(self):
        return (lambda reg: reg.method_('MetaVersion', 'jsonfy', lambda I, o, a, k: {'python': 'p', 'biopython': 'b', 'mopepgen': 'm'}),)

    def setup(self, I):
        meta, pl = self.mk_meta(I)
        meta.fields['source'] = 'GENCODE'
        self._cur = types.SimpleNamespace(args=[meta], pl=pl)
        return self._cur

    def post_return(self, I, st, ret):
        e = I.e
        pl = st.pl
        pools = ret['canonical_pools'] if isinstance(ret, dict) else None
        ok = isinstance(ret, dict) and set(ret) == {'version', 'canonical_pools', 'source'} and isinstance(pools, View)
        e.prove('C12/jsonfy/top-level-keys', ok)
        if not ok:
            return
        e.prove('C12/jsonfy/one-entry-per-pool', pools.length() == pl.m)
        j = z3.Int('j_json')
        item = pools.get(j)
        shape = isinstance(item, dict) and set(item) == {'filename', 'index', 'cleavage_params'} and \
            isinstance(item['cleavage_params'], dict) and set(item['cleavage_params']) == set(KEYS) and isinstance(item['filename'], FileName)
        e.prove('C12/jsonfy/entry-keys', shape)
        if shape:
            cp = item['cleavage_params']
            e.prove('C12/jsonfy/entry-j=pool-j',
                    z3.Implies(z3.And(0 <= j, j < pl.m),
                               z3.And(item['filename'].index == pl.fnidx[j], item['index'] == pl.idx[j],
                                      *[unwrapv(I, k, cp[k]) == pl.key[k][j] for k in KEYS])))


@register
class LoadMetadata(_Meta):
    """load_metadata on the data written by save_metadata (= jsonfy of the metadata, proved above; json.dump/json.load
    assumed to round-trip dicts, lists, strings, numbers and None) rebuilds every pool with the same file name, index and
    six parameters, in order."""
    path, qualname = IDX, 'IndexDir.load_metadata'
    assumptions = ('assumed: json.load(json.dump(x)) = x for dicts/lists of str, int, float, None',
                   'assumed (proved by CleavageParams.__init__): a stored exception is never "auto"')

    def setup(self, I):
        e = I.e
        pl = PoolList(I, 'stored')
        for a in wf(pl):
            e.assume(a)
        j = z3.Int('j_st')
        e.assume(z3.ForAll([j], z3.Implies(z3.And(0 <= j, j < pl.m), pl.key['exception'][j] != e.strlit('auto'))))

        def entry(k):
            kz = k if is_z3(k) else z3.IntVal(k)
            return {'filename': FileName(pl.fnidx[kz]), 'index': pl.idx[kz],
                    'cleavage_params': {q: wrapv(q, pl.key[q][kz]) for q in KEYS}}
        data = {'version': {'python': 'p', 'biopython': 'b', 'mopepgen': 'm'},
                'canonical_pools': FnView(pl.m, entry, tag='stored pools'), 'source': 'GENCODE'}
        st = types.SimpleNamespace(pl=pl, data=data, appended=[], k=None)
        d = SymObj('IndexDir', path=SymObj('PathStub'), metadata_file=SymObj('OtherFile', name='metadata.json'))
        st.args = [d]
        self._cur = st
        return st

    @property
    def models(self):
        c = self

        def inst(reg):
            reg.ext_('open', lambda I, a, k: SymObj('File', path=a[0]))
            reg.ext_('json.load', lambda I, a, k: c._cur.data)
        return (inst,)

    def on_append(self, I, pool):
        st = self._cur
        e = I.e
        k, pl = st.k, st.pl
        st.appended.append(pool)
        cp = pool.fields['cleavage_params']
        fn = pool.fields['filename']
        e.prove('C12/load_metadata/pool-k-has-the-stored-file-name-and-index',
                z3.And(fn.index == pl.fnidx[k], pool.fields['index'] == pl.idx[k]) if isinstance(fn, FileName) else False)
        for q in KEYS:
            e.prove(f'C12/load_metadata/pool-k-has-the-stored-{q}', unwrapv(I, q, cp.fields[q]) == pl.key[q][k])

    def havoc(self, I, env, k):
        env['canonical_pools'] = GhostPools(self)

    def on_head(self, I, env, k):
        self._cur.k = k
        self._cur.n0 = len(self._cur.appended)

    def step(self, I, env, k):
        return [('one-pool-per-stored-entry', len(self._cur.appended) == self._cur.n0 + 1)]

    @property
    def loops(self):
        return {0: LoopSpec(inv=lambda I, env, k: [], havoc=self.havoc, on_head=self.on_head, step=self.step)}

    def post_return(self, I, st, ret):
        pools = ret.fields['canonical_pools']
        I.e.prove('C12/load_metadata/returns-the-rebuilt-pool-list', isinstance(pools, (GhostPools, list)))
        I.e.prove('C12/load_metadata/source-restored', ret.fields['source'] == 'GENCODE')


# ----------------------------------------------------------------------------
from pyvc.native import NativeCheck
import itertools

PARAMS = [dict(cleavage_rule='trypsin', cleavage_exception='auto', miscleavage=2),
          dict(cleavage_rule='trypsin', cleavage_exception=None, miscleavage=2),
          dict(cleavage_rule='lysc', cleavage_exception='auto', miscleavage=1),
          dict(cleavage_rule='trypsin', cleavage_exception='trypsin_exception', miscleavage=2)]


class NativeIndexHistories(NativeCheck):
    name = 'index_histories'
    props = ('C12',)
    functions = (f'{IDX}:IndexMetadata.get_canonical_pool', f'{IDX}:IndexMetadata.register_canonical_pool',
                 f'{IDX}:IndexDir.save_canonical_peptides', f'{IDX}:IndexDir.load_canonical_peptides',
                 f'{IDX}:IndexDir.validate_metadata', f'{VER}:MetaVersion.is_valid')
    bounded_for = 'genome/annotation/proteome/coding-transcript data load back equal; whole-command histories on a real directory (json/pickle/file system are assumed in the proofs)'
    bound = ('demo reference; operation alphabet generate(p,force?) / update(p,force?) / load(p) over 4 parameter sets (two of them equal after resolving auto); '
             'quick: 25 random histories of length 4; thorough: all histories of length <= 3 starting with generate + 150 random of length 5; plus one version-mismatch history')
    quick_budget_s = 120
    thorough_budget_s = 900

    def cases(self, rng, tier):
        ops = [('G', p, f) for p in range(3) for f in (False, True)] + [('U', p, f) for p in range(4) for f in (False, True)] + [('L', p, False) for p in range(4)]
        yield dict(history=[['G', 0, False], ['V', 0, False], ['L', 0, False]])
        if tier == 'thorough':
            for n in (1, 2):
                for h in itertools.product(ops, repeat=n):
                    yield dict(history=[['G', 0, False]] + [list(x) for x in h])
            for _ in range(150):
                yield dict(history=[['G', rng.randrange(3), False]] + [list(rng.choice(ops)) for _ in range(4)])
        else:
            for _ in range(25):
                yield dict(history=[['G', rng.randrange(3), False]] + [list(rng.choice(ops)) for _ in range(3)])

    _pools = {}

    def expected_pool(self, p):
        from . import cv_run, pyspec
        key = self.key(p)
        if key not in self._pools:
            anno, genome, proteome = cv_run.demo_reference()
            nf = {t for t in proteome if t in anno.transcripts and anno.transcripts[t].is_cds_start_nf()}
            self._pools[key] = pyspec.canonical_pool({t: str(x.seq) for t, x in proteome.items()}, key[0], key[1], key[2], cds_start_nf=nf)
        return self._pools[key]

    def key(self, p):
        from . import pyspec
        d = PARAMS[p]
        return (d['cleavage_rule'], pyspec.resolve_exception(d['cleavage_rule'], d['cleavage_exception']), d['miscleavage'])

    def check(self, inp):
        import tempfile, shutil, json, os
        from pathlib import Path
        from . import cv_run
        from moPepGen import cli, params
        from moPepGen.index import IndexDir
        from moPepGen.err import InvalidIndexError
        tmp = tempfile.mkdtemp(prefix='pyvc_c12_')
        model = None      # dict key -> expected pool ; None = directory does not exist yet
        try:
            d = Path(tmp) / 'index'
            for step, (op, p, force) in enumerate(inp['history']):
                if op == 'V':
                    mf = d / 'metadata.json'
                    data = json.load(open(mf))
                    data['version']['biopython'] = '0.0.1'
                    json.dump(data, open(mf, 'w'))
                    try:
                        IndexDir(d).validate_metadata()
                        return dict(observed='index with a foreign biopython version accepted', expected='InvalidIndexError', step=step)
                    except InvalidIndexError:
                        pass
                    try:
                        a = cv_run.base_args(index_dir=d, genome_fasta=None, annotation_gtf=None, proteome_fasta=None, **PARAMS[p])
                        from moPepGen.cli import common
                        cp = params.CleavageParams(enzyme=PARAMS[p]['cleavage_rule'], exception=PARAMS[p]['cleavage_exception'], miscleavage=PARAMS[p]['miscleavage'])
                        common.load_references(a, cleavage_params=cp)
                        return dict(observed='load_references used an index with mismatching versions', expected='InvalidIndexError', step=step)
                    except InvalidIndexError:
                        return None
                kw = dict(PARAMS[p])
                kw['miscleavage'] = str(kw['miscleavage'])
                key = self.key(p)
                if op == 'G':
                    a = cv_run.base_args(command='generateIndex', output_dir=d, force=force, gtf_symlink=False, **kw)
                    exists = model is not None
                    try:
                        cli.generate_index(a)
                        ok = True
                    except SystemExit:
                        ok = False
                    if exists and not force:
                        if ok:
                            return dict(observed='generateIndex overwrote an existing directory without --force', expected='exit 1', step=step)
                    else:
                        if not ok:
                            return dict(observed='generateIndex refused', expected='index generated', step=step)
                        model = {key: self.expected_pool(p)}
                elif op == 'U':
                    a = cv_run.base_args(command='updateIndex', index_dir=d, force=force, **kw)
                    try:
                        cli.update_index(a)
                        ok = True
                    except SystemExit:
                        ok = False
                    if key in model and not force:
                        if ok:
                            return dict(observed='updateIndex replaced an existing pool without --force', expected='exit 1', step=step)
                    else:
                        if not ok:
                            return dict(observed='updateIndex refused', expected='pool added', step=step)
                        model[key] = self.expected_pool(p)
                # after every step: every registered pool loads back exactly; unregistered ones are rejected
                idx = IndexDir(d)
                for q in range(len(PARAMS)):
                    cp = params.CleavageParams(enzyme=PARAMS[q]['cleavage_rule'], exception=PARAMS[q]['cleavage_exception'],
                                               miscleavage=PARAMS[q]['miscleavage'], min_mw=500., min_length=7, max_length=25)
                    k2 = self.key(q)
                    try:
                        got = set(idx.load_canonical_peptides(cp))
                    except ValueError:
                        got = None
                    exp = model.get(k2)
                    if (got is None) != (exp is None) or (got is not None and got != exp):
                        return dict(observed=dict(step=step, params=PARAMS[q], loaded=None if got is None else len(got),
                                                  diff=None if got is None or exp is None else sorted(got ^ exp)[:4]),
                                    expected=dict(registered=exp is not None, n=None if exp is None else len(exp)))
                names = [x.filename for x in idx.metadata.canonical_pools]
                if len(set(names)) != len(names) or len(names) != len(model):
                    return dict(observed=dict(step=step, pool_files=names), expected=f'{len(model)} distinct pool files')
            # reference data load back equal to what was saved
            idx = IndexDir(d)
            anno, genome, proteome = cv_run.demo_reference()
            g2, p2, ct = idx.load_genome(), idx.load_proteome(), idx.load_coding_tx()
            if {k: str(v.seq) for k, v in g2.items()} != {k: str(v.seq) for k, v in genome.items()}:
                return dict(observed='genome differs after load', expected='equal')
            if {k: str(v.seq) for k, v in p2.items()} != {k: str(v.seq) for k, v in proteome.items()}:
                return dict(observed='proteome differs after load', expected='equal')
            a2 = idx.load_annotation()
            if set(a2.transcripts.keys()) != set(anno.transcripts.keys()) or \
                    ct != {t for t in anno.transcripts if anno.transcripts[t].is_protein_coding}:
                return dict(observed='annotation / coding transcripts differ after load', expected='equal')
            return None
        finally:
            shutil.rmtree(tmp, ignore_errors=True)


class NativeMetadataRoundTrip(NativeCheck):
    name = 'metadata_roundtrip'
    props = ('C12',)
    functions = (f'{IDX}:IndexDir.load_metadata', f'{IDX}:IndexMetadata.jsonfy', f'{PAR}:CleavageParams.__init__')
    bounded_for = ''
    bound = ('CPython cross-check of the proved metadata round trip: 1-4 pools with random (non-default) parameter sets registered, '
             'saved with save_metadata and read back by a fresh IndexDir; includes json itself, which the proof assumes')
    quick_budget_s = 5
    thorough_budget_s = 30

    def cases(self, rng, tier):
        for _ in range(40 if tier != 'thorough' else 600):
            n = rng.randint(1, 4)
            ps = []
            while len(ps) < n:
                p_ = dict(enzyme=rng.choice(['trypsin', 'lysc', 'lysn']), exception=rng.choice(['auto', None, 'trypsin_exception']),
                          miscleavage=rng.choice([0, 1, 2, 3]), min_mw=rng.choice([0., 500., 750.5, 1200.]),
                          min_length=rng.choice([5, 7, 9]), max_length=rng.choice([20, 25, 40]))
                if p_ not in ps:
                    ps.append(p_)
            yield dict(params=ps)

    def from_model(self, model):
        return dict(params=[dict(enzyme='trypsin', exception=None, miscleavage=3, min_mw=1200., min_length=9, max_length=40)])

    def check(self, inp):
        import tempfile, shutil
        from pathlib import Path
        from moPepGen.index import IndexDir
        from moPepGen.params import CleavageParams
        d = tempfile.mkdtemp(prefix='verif_c12_')
        try:
            idx = IndexDir(Path(d))
            seen = []
            for p_ in inp['params']:
                cp = CleavageParams(**p_)
                if cp.jsonfy() in seen:
                    continue
                seen.append(cp.jsonfy())
                idx.metadata.register_canonical_pool(cp)
            idx.save_metadata()
            before = idx.metadata.jsonfy()
            again = IndexDir(Path(d))
            after = again.metadata.jsonfy()
            if before != after:
                return dict(call='IndexDir(path) after save_metadata()', observed=str(after['canonical_pools'])[:400],
                            expected=str(before['canonical_pools'])[:400], signature='metadata-not-restored')
            for p_ in inp['params']:
                if again.metadata.get_canonical_pool(CleavageParams(**p_)) is None:
                    return dict(call=f'get_canonical_pool({p_}) after reopening', observed='None', expected='the registered pool',
                                signature='registered-pool-not-found-after-reopen')
        finally:
            shutil.rmtree(d, ignore_errors=True)
        return None


NATIVE = [NativeIndexHistories(), NativeMetadataRoundTrip()]
