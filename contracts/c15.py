"""C15 — fusion parsers yield the fusion transcript defined by the breakpoints (DESIGN.md §3 C15)."""
from __future__ import annotations
import types
import z3
from pyvc.contract import Contract, Lemma, register, induction
from pyvc.core import Unsupported, as_bool
from pyvc.interp import LoopSpec, PyRaise
from pyvc.symlist import SymList
from pyvc.values import *
from pyvc.pstr import PStr, cmpl
from .lib import *
from .c11 import g2gene_val, gene2g_val, mk_tx_tagged, mk_gene_tagged, find_gene
from .c14 import IntStr

GA = 'moPepGen/gtf/GenomicAnnotation.py'
TAM = 'moPepGen/gtf/TranscriptAnnotationModel.py'
VR = 'moPepGen/seqvar/VariantRecord.py'
I_, B_ = z3.IntSort(), z3.BoolSort()
PARSERS = {
    'star': ('moPepGen/parser/STARFusionParser.py', 'STARFusionRecord'),
    'arriba': ('moPepGen/parser/ArribaParser.py', 'ArribaRecord'),
    'fc': ('moPepGen/parser/FusionCatcherParser.py', 'FusionCatcherRecord'),
}


# ----------------------------------------------------------------------------
# a gene with an arbitrary number of transcripts, each known through its span and "has exons"
# ----------------------------------------------------------------------------
class TxId:
    def __init__(self, gene, i):
        self.gene, self.i = gene, i

    def sym_str(self, I):
        return self


class ExonFlag:
    def __init__(self, nonempty):
        self.nonempty = nonempty

    def sym_truth(self, I):
        return self.nonempty


class GeneWorld:
    """gene `name`: span [start,end), strand, n transcripts with spans ts(i), te(i) and has_exons(i)"""
    def __init__(self, I, name, gene_id):
        e = I.e
        self.name, self.id = name, gene_id
        self.gn = mk_gene_tagged(I, name=f'gene{name}', gene_id=gene_id)
        self.n = e.int(f'n_tx_{name}')
        self.ts = z3.Function(f'tx_start_{name}', I_, I_)
        self.te = z3.Function(f'tx_end_{name}', I_, I_)
        self.has_exons = z3.Function(f'tx_has_exons_{name}', I_, B_)
        self.cache = {}
        e.assume(z3.And(self.n >= 0, self.gn.start < self.gn.end, strand_pm(self.gn.strand)))
        self.gn.obj.fields['transcripts'] = FnView(self.n, lambda i: TxId(self, i if is_z3(i) else z3.IntVal(i)), tag=f'transcripts of {name}')
        self.gn.obj.fields['attributes']['gene_name'] = OpaqueStr(['symbol', name])

    def tx(self, i):
        key = z3.simplify(i).sexpr()
        if key not in self.cache:
            tid = TxId(self, i)
            loc = SymObj('FeatureLocation', start=self.ts(i), end=self.te(i), strand=self.gn.strand, seqname='chr1',
                         reading_frame_index=None, start_offset=0, end_offset=0, ref=None, ref_db=None)
            tr = SymObj('GTFSeqFeature', location=loc, chrom='chr1', attributes={'transcript_id': tid, 'gene_id': self.id},
                        type='transcript', id=tid, qualifiers={}, source='GENCODE', frame=None)
            self.cache[key] = SymObj('TranscriptAnnotationModel', transcript=tr, exon=ExonFlag(self.has_exons(i)), cds=[], utr=[],
                                     five_utr=[], three_utr=[], start_codon=[], stop_codon=[], selenocysteine=[],
                                     is_protein_coding=True, _seq=None, transcript_id=tid, gene_id=self.id, protein_id=None,
                                     gene_name=None, gene_type=None, idx=i, world=self)
        return self.cache[key]

    def eligible(self, i, pos):
        return z3.And(0 <= i, i < self.n, self.has_exons(i), self.ts(i) <= pos, pos < self.te(i))


class TxTable15:
    def sym_getitem(self, I, key):
        if not isinstance(key, TxId):
            raise Unsupported('transcript lookup with a foreign key')
        return key.gene.tx(key.i)


class GenesTable15:
    """anno.genes: the two genes of the record may or may not be annotated"""
    def __init__(self, I, worlds):
        self.worlds = {w.id: w for w in worlds}
        self.known = {w.id: I.e.bool(f'gene_{w.name}_annotated') for w in worlds}

    def __getitem__(self, key):
        return self.worlds[key].gn.obj

    def sym_getitem(self, I, key):
        if key not in self.worlds:
            raise Unsupported('gene lookup with a foreign key')
        if not I.e.branch(self.known[key], f'{key} annotated'):
            I.raise_('KeyError', key)
        return self.worlds[key].gn.obj


def mk_anno15(I, worlds):
    return SymObj('GenomicAnnotation', genes=GenesTable15(I, worlds), transcripts=TxTable15(), source='GENCODE',
                  gene_id_version_mapper=None, version=None, _cached_tx_seqs=[])


def txlist(I, world, name):
    return SymList(I, name, z3.IntSort(), wrap=lambda t: world.tx(t), unwrap=lambda v: v.fields['idx'])


@register
class TranscriptsWithPosition(Contract):
    """the transcripts of the gene that have exons and whose span contains the position, in annotation order"""
    path, qualname, props = GA, 'GenomicAnnotation.get_transcripts_with_position', ('C15',)
    declared_raises = ['KeyError']

    def setup(self, I):
        w = GeneWorld(I, 'D', 'ENSG_D')
        anno = mk_anno15(I, [w])
        pos = I.e.int('pos')
        st = types.SimpleNamespace(args=[anno, w.id, pos], w=w, pos=pos, anno=anno)
        st.cnt, ax = self.mk_cnt(I.e, w, pos)
        for a in ax:
            I.e.assume(a)
        self._cur = st
        return st

    @staticmethod
    def mk_cnt(e, w, pos, name='cnt_tx'):
        cnt = z3.Function(e.fresh_name(name), I_, I_)
        q, a, b = z3.Ints('q_tx a_tx b_tx')
        ok = w.eligible(q, pos)
        return cnt, [cnt(0) == 0,
                     z3.ForAll([q], z3.Implies(q >= 0, cnt(q + 1) == cnt(q) + z3.If(z3.And(ok, q < w.n), 1, 0)), patterns=[cnt(q + 1)]),
                     z3.ForAll([a, b], z3.Implies(z3.And(0 <= a, a <= b), z3.And(cnt(a) <= cnt(b), cnt(b) - cnt(a) <= b - a)),
                               patterns=[z3.MultiPattern(cnt(a), cnt(b))])]

    def havoc(self, I, env, k):
        env['transcripts'] = txlist(I, self._cur.w, 'transcripts')

    def inv(self, I, env, k):
        st = self._cur
        ts = env['transcripts']
        if isinstance(ts, list):
            return [('empty-at-entry', len(ts) == 0 and k == 0)]
        q = z3.Int('q_inv')
        return [('len=count-of-eligible', ts.length == st.cnt(k)),
                ('eligible-in-order', z3.ForAll([q], z3.Implies(z3.And(0 <= q, q < k, st.w.eligible(q, st.pos)), ts.arr[st.cnt(q)] == q)))]

    @property
    def loops(self):
        return {0: LoopSpec(inv=self.inv, havoc=self.havoc)}

    def post_return(self, I, st, ret):
        q = z3.Int('q_post')
        if isinstance(ret, list):
            I.e.prove('C15/tx-with-position/none-only-if-none-eligible',
                      z3.And(len(ret) == 0, z3.ForAll([q], z3.Not(st.w.eligible(q, st.pos)))))
            return
        I.e.prove('C15/tx-with-position/returned=eligible-transcripts-in-order',
                  z3.And(ret.length == st.cnt(st.w.n),
                         z3.ForAll([q], z3.Implies(st.w.eligible(q, st.pos), ret.arr[st.cnt(q)] == q))))

    def post_raise(self, I, st, exc):
        I.e.prove('C15/tx-with-position/raise/only-unknown-gene', z3.Not(st.anno.fields['genes'].known[st.w.id]))

    def summary(self, I, args, kwargs):
        anno, gid, pos = args[0], args[1], args[2]
        genes = anno.fields['genes']
        w = genes.worlds[gid]
        e = I.e
        if not e.branch(genes.known[gid], f'{gid} annotated'):
            I.raise_('KeyError', gid)
        cnt, ax = self.mk_cnt(e, w, pos, f'cnt_call_{w.name}')
        for a in ax:
            e.assume(a)
        out = txlist(I, w, f'txs_{w.name}')
        q, t = z3.Ints('q_s t_s')
        e.assume(out.length == cnt(w.n))
        e.assume(z3.ForAll([q], z3.Implies(w.eligible(q, pos), out.arr[cnt(q)] == q)))
        e.assume(z3.ForAll([t], z3.Implies(z3.And(0 <= t, t < out.length), w.eligible(out.arr[t], pos)), patterns=[out.arr[t]]))
        e.assume(z3.And(out.length >= 0, out.length <= w.n))
        return out


# ----------------------------------------------------------------------------
# the three tool records -> Fusion variant records
# ----------------------------------------------------------------------------
class BreakStr:
    """'chr:pos[:strand]' column"""
    def __init__(self, pos):
        self.pos = pos

    def sym_method(self, I, name, a, kw):
        if name == 'split' and a == [':']:
            return [OpaqueStr(['chrom']), IntStr(self.pos), OpaqueStr(['strand'])]
        raise Unsupported(f'breakpoint.{name}')


class ProductView(FnView):
    """itertools.product(xs, ys) as a sequence of pairs (assumed: every pair (x, y) occurs exactly once)"""
    def __init__(self, I, xs, ys):
        e = I.e
        self.xs, self.ys = xs, ys
        self.n = e.int('n_pairs')
        self.p = z3.Function(e.fresh_name('pair_left'), I_, I_)
        self.q = z3.Function(e.fresh_name('pair_right'), I_, I_)
        t = z3.Int('t_pair')
        e.assume(z3.And(self.n >= 0, z3.Implies(z3.Or(xs.length == 0, ys.length == 0), self.n == 0)))
        e.assume(z3.ForAll([t], z3.Implies(z3.And(0 <= t, t < self.n),
                                           z3.And(0 <= self.p(t), self.p(t) < xs.length, 0 <= self.q(t), self.q(t) < ys.length)),
                           patterns=[self.p(t)]))
        super().__init__(self.n, lambda i: (xs.wrap(xs.arr[self.p(i)]), ys.wrap(ys.arr[self.q(i)])), tag='product')


class GhostRecords15:
    def __init__(self, owner):
        self.owner = owner

    def sym_method(self, I, name, args, kwargs):
        if name != 'append':
            raise Unsupported(f'records.{name}')
        self.owner.on_append(I, args[0])


class _FusionConvert(Contract):
    props = ('C15',)
    tool = 'star'
    declared_raises = ['GeneNotFoundError', 'ValueError']
    assumptions = ('assumed: breakpoint columns are chr:pos(:strand) with a decimal 1-based position; itertools.product enumerates every '
                   '(donor transcript, acceptor transcript) pair once; gene ids of the record are Ensembl ids with version (FusionCatcher); '
                   'the donor gene ends at least two bases before the end of its chromosome',
                   'the REF base of a Fusion record is informational and not constrained here')

    @property
    def path(self):
        return PARSERS[self.tool][0]

    @property
    def qualname(self):
        return PARSERS[self.tool][1] + '.convert_to_variant_records'

    def mk_record(self, I, st):
        lb, rb = BreakStr(st.lb), BreakStr(st.rb)
        D, A = st.D.id, st.A.id
        if self.tool == 'star':
            return SymObj('STARFusionRecord', left_gene=D, right_gene=A, left_breakpoint=lb, right_breakpoint=rb, est_j=I.e.real('est_j'))
        if self.tool == 'arriba':
            return SymObj('ArribaRecord', gene_id1=D, gene_id2=A, breakpoint1=lb, breakpoint2=rb)
        return SymObj('FusionCatcherRecord', five_end_gene_id=D, three_end_gene_id=A, five_end_breakpoint=lb, three_end_breakpoint=rb)

    def setup(self, I):
        e = I.e
        st = types.SimpleNamespace(appended=[], k=None)
        st.D, st.A = GeneWorld(I, 'D', 'ENSG_D.1'), GeneWorld(I, 'A', 'ENSG_A.1')
        st.lb, st.rb = e.int('left_breakpoint'), e.int('right_breakpoint')
        st.Lc = e.int('chrom_len')
        # the donor gene does not end within the last two bases of its chromosome (the REF base is read one or two bases
        # after the breakpoint)
        e.assume(z3.And(st.D.gn.end + 2 <= st.Lc, st.A.gn.end <= st.Lc, st.D.gn.start >= 0, st.A.gn.start >= 0))
        st.anno = mk_anno15(I, [st.D, st.A])
        chrom = SymObj('DNASeqRecord', seq=PStr.sym(e, 'chrom', st.Lc), id='chr1', name='chr1', description='chr1')
        genome = SymObj('GenomeStub', chrom=chrom)
        st.args = [self.mk_record(I, st), st.anno, genome]
        self._cur = st
        return st

    @property
    def models(self):
        c = self

        def inst(reg):
            reg.protocol_('GenomeStub', '__getitem__', lambda I, o, key: o.fields['chrom'])

            def product(I, a, k):
                c._cur.pairs = ProductView(I, a[0], a[1])
                return c._cur.pairs
            reg.ext_('itertools.product', product)

            class Pat:
                def sym_method(s_, I, name, a, k):
                    return True          # ids carry a version suffix (assumed)
            reg.ext_('re.compile', lambda I, a, k: Pat())
        return (inst,)

    def havoc(self, I, env, k):
        env['records'] = GhostRecords15(self)

    def on_head(self, I, env, k):
        self._cur.k = k
        self._cur.n0 = len(self._cur.appended)

    def step(self, I, env, k):
        return [('one-record-per-transcript-pair', len(self._cur.appended) == self._cur.n0 + 1)]

    @property
    def loops(self):
        return {0: LoopSpec(inv=lambda I, env, k: [], havoc=self.havoc, on_head=self.on_head, step=self.step)}

    def on_append(self, I, rec):
        e = I.e
        st = self._cur
        st.appended.append(rec)
        D, A, k = st.D, st.A, st.k
        pv = st.pairs
        di, ai = pv.xs.arr[pv.p(k)], pv.ys.arr[pv.q(k)]
        loc, attrs = rec.fields['location'], rec.fields['attrs']
        dpos = g2gene_val(D.gn, st.lb - 1) + 1
        apos = g2gene_val(A.gn, st.rb - 1)
        e.prove('C15/convert/location=gene-index-of-the-first-donor-base-not-retained',
                z3.And(D.gn.start <= st.lb - 1, st.lb - 1 < D.gn.end, loc.fields['start'] == dpos, loc.fields['end'] == dpos + 1,
                       loc.fields['seqname'] == D.id))
        e.prove('C15/convert/accepter-position=gene-index-of-the-first-retained-accepter-base',
                z3.And(A.gn.start <= st.rb - 1, st.rb - 1 < A.gn.end, attrs['ACCEPTER_POSITION'] == apos, attrs['ACCEPTER_GENE_ID'] == A.id))
        dt, at = attrs['TRANSCRIPT_ID'], attrs['ACCEPTER_TRANSCRIPT_ID']
        okid = isinstance(dt, TxId) and isinstance(at, TxId) and dt.gene is D and at.gene is A
        e.prove('C15/convert/transcript-ids-are-the-pair', z3.And(dt.i == di, at.i == ai) if okid else False)
        e.prove('C15/convert/pair-is-eligible (has exons, span contains the breakpoint)',
                z3.And(D.eligible(di, st.lb - 1), A.eligible(ai, st.rb - 1)))
        e.prove('C15/convert/type-and-alt', rec.fields['type'] == 'Fusion' and rec.fields['alt'] == '<FUSION>')
        idp = rec.fields['id']
        okp = isinstance(idp, OpaqueStr) and len(idp.parts) == 8 and idp.parts[0] == 'FUSION-' and idp.parts[1] is dt \
            and idp.parts[2] == ':' and idp.parts[4] == '-' and idp.parts[5] is at and idp.parts[6] == ':'
        e.prove('C15/convert/id=FUSION-donor:pos-accepter:pos', z3.And(idp.parts[3] == dpos, idp.parts[7] == apos) if okp else False)

    def post_return(self, I, st, ret):
        I.e.prove('C15/convert/returns-the-record-list', isinstance(ret, (GhostRecords15, list)))
        if isinstance(ret, list):
            I.e.prove('C15/convert/no-records-only-without-eligible-pair', len(ret) == 0)

    def post_raise(self, I, st, exc):
        known = st.anno.fields['genes'].known
        if exc.cls == 'GeneNotFoundError':
            I.e.prove('C15/convert/raise/GeneNotFound-iff-a-gene-is-not-annotated', z3.Not(z3.And(known[st.D.id], known[st.A.id])))
        else:
            in_d = z3.And(st.D.gn.start <= st.lb - 1, st.lb - 1 < st.D.gn.end)
            in_a = z3.And(st.A.gn.start <= st.rb - 1, st.rb - 1 < st.A.gn.end)
            I.e.prove('C15/convert/raise/ValueError-only-for-a-breakpoint-outside-its-gene',
                      z3.And(known[st.D.id], z3.Or(z3.Not(in_d), z3.And(known[st.A.id], z3.Not(in_a)))))


@register
class StarConvert(_FusionConvert):
    tool = 'star'


@register
class ArribaConvert(_FusionConvert):
    tool = 'arriba'


@register
class FusionCatcherConvert(_FusionConvert):
    tool = 'fc'



# ----------------------------------------------------------------------------
# L3: exon lookups
# ----------------------------------------------------------------------------
def in_intron(h, q, pos):
    return z3.And(0 <= q, q < h.n - 1, h.e[q] <= pos, pos < h.s[q + 1])


@register
class IsExonic(Contract):
    path, qualname, props = TAM, 'TranscriptAnnotationModel.is_exonic', ('C15', 'C14')
    models = (install_exon_identity,)

    def setup(self, I):
        h = mk_tx_tagged(I)
        pos = I.e.int('pos')
        for a in h.axioms:
            I.e.assume(a)
        self._cur = types.SimpleNamespace(args=[h.obj, pos], h=h, pos=pos)
        return self._cur

    def inv(self, I, env, k):
        st = self._cur
        j = z3.Int('j_ie')
        return [('not-in-earlier-exons', z3.ForAll([j], z3.Implies(z3.And(0 <= j, j < k), z3.Not(in_exon(st.h, j, st.pos)))))]

    @property
    def loops(self):
        return {0: LoopSpec(inv=self.inv)}

    def post_return(self, I, st, ret):
        I.e.prove('C15/is_exonic/iff-some-exon-contains-the-position', as_bool(ret) == z3.Not(no_exon(st.h, st.pos, 'q_ie')))

    def summary(self, I, args, kwargs):
        h = args[0].tag
        return z3.Not(no_exon(h, args[1], 'q' + I.e.fresh_name('ie')))


class _ExonEdge(Contract):
    """for an intronic position inside the transcript span: the closest exon boundary up-/downstream in transcript direction"""
    props = ('C15',)
    models = (install_exon_identity,)
    declared_raises = ['ValueError']
    upstream = True

    def setup(self, I):
        h = mk_tx_tagged(I)
        pos, q = I.e.int('pos'), I.e.int('intron_q')
        for a in h.axioms + [strand_pm(h.strand), in_intron(h, q, pos)]:
            I.e.assume(a)
        self._cur = types.SimpleNamespace(args=[h.obj, pos], h=h, pos=pos, q=q)
        return self._cur

    def want(self, h, q):
        if self.upstream:
            return z3.If(h.strand == 1, h.e[q] - 1, h.s[q + 1])
        return z3.If(h.strand == 1, h.s[q + 1], h.e[q] - 1)

    def inv_fwd(self, I, env, k):
        st = self._cur
        h, q = st.h, st.q
        if self.upstream:
            # ind = end - 1 of the last exon seen; all seen exons end at or before pos
            items = [('seen-exons-are-upstream', k <= q + 1)]
            if env.has('ind'):       # `ind` is first bound inside the loop
                items.append(('ind=last-base-of-previous-exon', z3.Implies(k >= 1, as_bool(I.eq(env['ind'], h.e[k - 1] - 1)))))
            return items
        return [('seen-exons-start-before-pos', k <= q + 1), ('not-found-yet', as_bool(I.eq(env['ind'], -1)))]

    def inv_bwd(self, I, env, k):
        st = self._cur
        h, q = st.h, st.q
        if self.upstream:
            items = [('seen-exons-are-upstream', h.n - k >= q + 1)]
            if env.has('ind'):
                items.append(('ind=first-genomic-base-of-previous-exon', z3.Implies(k >= 1, as_bool(I.eq(env['ind'], h.s[h.n - k])))))
            return items
        return [('seen-exons-end-after-pos', h.n - k >= q + 1), ('not-found-yet', as_bool(I.eq(env['ind'], -1)))]

    @property
    def loops(self):
        kw = {}
        if self.upstream:
            kw = dict(carried={'ind': lambda I, env: I.e.int('ind')})
        return {0: LoopSpec(inv=self.inv_fwd, **kw), 1: LoopSpec(inv=self.inv_bwd, **kw)}

    def post_return(self, I, st, ret):
        I.e.prove(f'C15/{"upstream-exon-end" if self.upstream else "downstream-exon-start"}/closest-exon-boundary',
                  ret == self.want(st.h, st.q))

    def post_raise(self, I, st, exc):
        I.e.prove('C15/exon-edge/raise/never-for-an-intronic-position', False)

    def summary(self, I, args, kwargs):
        h = args[0].tag
        pos = args[1] if len(args) > 1 else kwargs['pos']
        e = I.e
        q = e.int('intron_of_pos')
        e.prove(f'C15/exon-edge/call/requires-intronic-position-inside-the-transcript',
                z3.And(h.s[0] <= pos, pos < h.e[h.n - 1], no_exon(h, pos, 'q' + e.fresh_name('ee'))))
        e.assume(in_intron(h, q, pos))
        return self.want(h, q)


@register
class UpstreamExonEnd(_ExonEdge):
    path, qualname = TAM, 'TranscriptAnnotationModel.get_upstream_exon_end'
    upstream = True


@register
class DownstreamExonStart(_ExonEdge):
    path, qualname = TAM, 'TranscriptAnnotationModel.get_downstream_exon_start'
    upstream = False


@register
class IntronExists(Lemma):
    """a position inside the transcript span that no exon contains lies in exactly one intron (used by the exon-edge summaries)"""
    qualname, props = 'non_exonic_position_lies_in_an_intron', ('C15',)

    def obligations(self, e):
        from .c11 import _H
        h = _H('X')
        pos, b = z3.Ints('pos b')
        j = z3.Int('jx')
        hy = wf_exons(h)
        # induction on b: if pos >= s[0], pos < e[b'] for some... phrased as: for every b, either pos < s[b] is decided earlier
        P = lambda b_: z3.Implies(z3.And(h.s[0] <= pos, pos < h.e[b_], b_ < h.n, no_exon(h, pos, 'qx')),
                                  z3.Exists([j], z3.And(0 <= j, j < b_, h.e[j] <= pos, pos < h.s[j + 1])))
        return [('base', hy, P(z3.IntVal(0))),
                ('step', hy + [b >= 0, b + 1 < h.n, P(b)], P(b + 1))]



# ----------------------------------------------------------------------------
# intronic breakpoints are moved to the nearest exon, the skipped intronic bases become insertions
# ----------------------------------------------------------------------------
def two_gene_world(I):
    e = I.e
    D = mk_gene_tagged(I, name='geneD', gene_id='ENSG_D')
    A = mk_gene_tagged(I, name='geneA', gene_id='ENSG_A')
    hd = mk_tx_tagged(I, name='txD', tx_id='ENST_D', gene_id='ENSG_D', strand=D.strand)
    ha = mk_tx_tagged(I, name='txA', tx_id='ENST_A', gene_id='ENSG_A', strand=A.strand)
    anno = mk_anno(I, genes=[D, A], txs=[hd, ha])
    for a in hd.axioms + ha.axioms + [strand_pm(D.strand), strand_pm(A.strand), D.start <= hd.s[0], hd.e[hd.n - 1] <= D.end,
                                      A.start <= ha.s[0], ha.e[ha.n - 1] <= A.end, D.start >= 0, A.start >= 0]:
        e.assume(a)
    return D, A, hd, ha, anno


def last_retained_genomic(D, dstart):
    """genomic position of the last donor base kept (gene index dstart - 1)"""
    return gene2g_val(D, dstart - 1)


@register
class ShiftBreakpoint(Contract):
    path, qualname, props = VR, 'VariantRecord.shift_breakpoint_to_closest_exon', ('C15',)
    declared_raises = ['ValueError']
    models = (install_exon_identity,)
    uses_lemmas = ('non_exonic_position_lies_in_an_intron', 'cum_monotone')
    assumptions = ('requires (established by the converters): the donor/acceptor transcript spans contain the respective breakpoint',)

    def setup(self, I):
        e = I.e
        D, A, hd, ha, anno = two_gene_world(I)
        st = types.SimpleNamespace(D=D, A=A, hd=hd, ha=ha)
        st.dstart, st.apos = e.int('fusion_start'), e.int('accepter_position')
        lb = last_retained_genomic(D, st.dstart)
        rb = gene2g_val(A, st.apos)
        e.assume(z3.And(1 <= st.dstart, st.dstart <= D.end - D.start, 0 <= st.apos, st.apos < A.end - A.start,
                        hd.s[0] <= lb, lb < hd.e[hd.n - 1], ha.s[0] <= rb, rb < ha.e[ha.n - 1]))
        loc = SymObj('FeatureLocation', start=st.dstart, end=st.dstart + 1, strand=None, seqname='ENSG_D', reading_frame_index=None,
                     start_offset=0, end_offset=0, ref=None, ref_db=None)
        st.attrs = {'TRANSCRIPT_ID': 'ENST_D', 'ACCEPTER_GENE_ID': 'ENSG_A', 'ACCEPTER_TRANSCRIPT_ID': 'ENST_A',
                    'ACCEPTER_POSITION': st.apos, 'GENE_SYMBOL': 'D', 'ACCEPTER_SYMBOL': 'A'}
        st.rec = SymObj('VariantRecord', location=loc, ref='A', alt='<FUSION>', type='Fusion', id=OpaqueStr(['FUSION-id']), attrs=st.attrs,
                        is_real_fusion=True)
        st.lb, st.rb = lb, rb
        st.args = [st.rec, anno]
        self._cur = st
        return st

    def post_return(self, I, st, ret):
        e = I.e
        D, A, hd, ha = st.D, st.A, st.hd, st.ha
        loc, at = st.rec.fields['location'], st.rec.fields['attrs']
        q = z3.Int('q_sb')
        exonic_l = z3.Not(no_exon(hd, st.lb, 'q_l'))
        exonic_r = z3.Not(no_exon(ha, st.rb, 'q_r'))
        lis, lie, ris, rie = (at.get(k) for k in ('LEFT_INSERTION_START', 'LEFT_INSERTION_END', 'RIGHT_INSERTION_START', 'RIGHT_INSERTION_END'))
        none = lambda v: v is None
        # left side
        if none(lis):
            e.prove('C15/shift/left/untouched-iff-exonic', z3.And(exonic_l, none(lie), loc.fields['start'] == st.dstart, loc.fields['end'] == st.dstart + 1))
        else:
            up = lambda q_: z3.If(D.strand == 1, hd.e[q_] - 1, hd.s[q_ + 1])          # last base of the upstream exon (genomic)
            u = lambda q_: g2gene_val(D, up(q_))                                        # its gene index
            e.prove('C15/shift/left/intronic: location=[u+1,u+2), LEFT_INSERTION=[u+1, old start)',
                    z3.And(z3.Not(exonic_l),
                           z3.Exists([q], z3.And(in_intron(hd, q, st.lb), loc.fields['start'] == u(q) + 1, loc.fields['end'] == u(q) + 2,
                                                 lis == u(q) + 1, lie == st.dstart, u(q) + 1 < st.dstart)),
                           loc.fields['seqname'] == 'ENSG_D'))
        # right side
        if none(ris):
            e.prove('C15/shift/right/untouched-iff-exonic', z3.And(exonic_r, none(rie), at['ACCEPTER_POSITION'] == st.apos))
        else:
            dn = lambda q_: z3.If(A.strand == 1, ha.s[q_ + 1], ha.e[q_] - 1)          # first base of the downstream exon (genomic)
            d = lambda q_: g2gene_val(A, dn(q_))
            e.prove('C15/shift/right/intronic: RIGHT_INSERTION=[old position, d), ACCEPTER_POSITION=d',
                    z3.And(z3.Not(exonic_r),
                           z3.Exists([q], z3.And(in_intron(ha, q, st.rb), ris == st.apos, rie == d(q), at['ACCEPTER_POSITION'] == d(q),
                                                 st.apos < d(q)))))
        e.prove('C15/shift/other-attributes-unchanged',
                all(at.get(k) is st.attrs.get(k) or at.get(k) == st.attrs.get(k) for k in ('TRANSCRIPT_ID', 'ACCEPTER_GENE_ID', 'ACCEPTER_TRANSCRIPT_ID'))
                and st.rec.fields['type'] == 'Fusion')

    def post_raise(self, I, st, exc):
        I.e.prove('C15/shift/raise/never-under-the-converters-postcondition', False)


@register
class DenotedFusionSequence(Lemma):
    """Over the contracts of the converters, shift_breakpoint_to_closest_exon, G2T/T2G and get_transcript_sequence: the sequence a
    Fusion record denotes under the GVF semantics - donor transcript up to transcript index gene2tx(start - 1) + 1, then the gene
    slices LEFT_INSERTION and RIGHT_INSERTION, then the acceptor transcript from gene2tx(ACCEPTER_POSITION) - is, base by base:
    the donor's exonic bases up to and including the left breakpoint base, the intronic donor bases between the closest upstream exon
    and the breakpoint, the intronic acceptor bases from the right breakpoint to the closest downstream exon, and the acceptor's
    exonic bases from there on (all in transcript orientation).  Stated on gene coordinates for one side at a time."""
    qualname, props = 'fusion_record_denotes_breakpoint_defined_sequence', ('C15',)

    def obligations(self, e):
        from .c11 import _H
        obs = []
        # ---- donor side: kept gene indices are exactly the exonic ones <= b (b = breakpoint base) plus the intronic ones in (u, b]
        h = _H('Dn')
        gs, ge, st_ = z3.Ints('gs ge strand')
        gn = types.SimpleNamespace(start=gs, end=ge, strand=st_)
        cum, ax = mk_cum(e, h)
        hy = wf_exons(h) + ax + cum_monotone_stmt(h, cum) + [strand_pm(st_), h.strand == st_, gs <= h.s[0], h.e[h.n - 1] <= ge]
        b, x, q, start, lis, lie = z3.Ints('b x q start lis lie')      # gene indices
        gen = lambda i: gene2g_val(gn, i)                               # gene index -> genomic
        exonic = lambda i: z3.Not(no_exon(h, gen(i), 'qd'))
        # shifted record for an intronic breakpoint b in intron q (contract of ShiftBreakpoint):
        up = z3.If(st_ == 1, h.e[q] - 1, h.s[q + 1])
        u = g2gene_val(gn, up)
        shifted = [in_intron(h, q, gen(b)), start == u + 1, lis == u + 1, lie == b + 1, 0 <= b, b < ge - gs]
        # kept(x): x is a gene index whose base is part of the denoted donor part
        in_tx_prefix = z3.And(exonic(x), x <= start - 1)        # donor_tx[: gene2tx(start-1)+1]  (G2T is monotone in transcript direction)
        in_left_ins = z3.And(lis <= x, x < lie)
        obs.append(('donor/intronic-breakpoint: kept = exonic bases up to the upstream exon end + intronic bases up to the breakpoint',
                    hy + shifted + [0 <= x, x < ge - gs],
                    z3.Or(in_tx_prefix, in_left_ins) == z3.Or(z3.And(exonic(x), x <= b), z3.And(u < x, x <= b))))
        obs.append(('donor/intronic-breakpoint: the anchor start-1 is the last base of the upstream exon (exonic)',
                    hy + shifted, z3.And(exonic(start - 1), start - 1 == u, u < b)))
        obs.append(('donor/intronic-breakpoint: no exonic base lies between the upstream exon end and the breakpoint',
                    hy + shifted + [u < x, x <= b], z3.Not(exonic(x))))
        # ---- acceptor side
        a, d, ris, rie, apos = z3.Ints('a d ris rie apos')
        dn = z3.If(st_ == 1, h.s[q + 1], h.e[q] - 1)
        dg = g2gene_val(gn, dn)
        shifted_r = [in_intron(h, q, gen(a)), ris == a, rie == dg, apos == dg, 0 <= a, a < ge - gs]
        obs.append(('acceptor/intronic-breakpoint: kept = intronic bases from the breakpoint to the downstream exon + exonic bases from there',
                    hy + shifted_r + [0 <= x, x < ge - gs],
                    z3.Or(z3.And(ris <= x, x < rie), z3.And(exonic(x), x >= apos)) == z3.Or(z3.And(a <= x, x < dg), z3.And(exonic(x), x >= a))))
        obs.append(('acceptor/intronic-breakpoint: the new position is the first base of the downstream exon (exonic)',
                    hy + shifted_r, z3.And(exonic(apos), a < apos)))
        return obs



# ----------------------------------------------------------------------------
# the three commands: thresholds, unknown genes, --skip-failed, tally
# ----------------------------------------------------------------------------
CLIS = {
    'star': dict(path='moPepGen/cli/parse_star_fusion.py', func='parse_star_fusion', mod='moPepGen.cli.parse_star_fusion',
                 sub='add_subparser_parse_star_fusion', parse=('moPepGen/parser/STARFusionParser.py', 'parse')),
    'arriba': dict(path='moPepGen/cli/parse_arriba.py', func='parse_arriba', mod='moPepGen.cli.parse_arriba',
                   sub='add_subparser_parse_arriba', parse=('moPepGen/parser/ArribaParser.py', 'parse')),
    'fc': dict(path='moPepGen/cli/parse_fusion_catcher.py', func='parse_fusion_catcher', mod='moPepGen.cli.parse_fusion_catcher',
               sub='add_subparser_parse_fusion_catcher', parse=('moPepGen/parser/FusionCatcherParser.py', 'parse')),
}
CATS = ('invalid_gene_id', 'invalid_position', 'insufficient_evidence', 'antisense_strand')


class GhostVariants:
    def __init__(self, owner):
        self.owner = owner

    def sym_method(self, I, name, args, kwargs):
        if name == 'extend':
            self.owner._cur.extended.append(args[0])
            return None
        raise Unsupported(f'variants.{name}')

    def sym_truth(self, I):
        return I.e.bool('any_variant_collected')


class GenesKnown:
    """`x in anno.genes`"""
    def __init__(self, owner):
        self.owner = owner

    def sym_contains(self, I, item):
        st = self.owner._cur
        return st.gene_known(item.fields['side'], item.fields['idx'])


class _FusionCLI(Contract):
    props = ('C15', 'C07')
    tool = 'star'
    assumptions = ('havoc: record.convert_to_variant_records returns a list or raises GeneNotFoundError / anything else (its own contract is '
                   'proved separately); the tool parser yields N >= 0 records; load_references, generate_metadata, seqvar.io.write, sorted are external',)

    @property
    def path(self):
        return CLIS[self.tool]['path']

    @property
    def qualname(self):
        return CLIS[self.tool]['func']

    def setup(self, I):
        e = I.e
        cfg = CLIS[self.tool]
        st = types.SimpleNamespace(extended=[], calls=[], writes=[], outcome=None)
        st.N = e.int('n_records')
        e.assume(st.N >= 0)
        st.skip_failed = e.bool('skip_failed')
        st.gene_known = z3.Function('gene_annotated', I_, I_, B_)
        # per-record evidence values and the thresholds of the command
        st.ev = {n: z3.Function(n, I_, z3.RealSort()) for n in ('est_j', 'common_mapping', 'spanning_unique')}
        st.valid = z3.Function('arriba_record_is_valid', I_, B_)
        st.antisense = z3.Function('arriba_transcript_on_antisense_strand', I_, B_)
        st.th = dict(min_est_j=e.real('min_est_j'), max_common_mapping=e.real('max_common_mapping'), min_spanning_unique=e.real('min_spanning_unique'),
                     min_split_read1=SymObj('Opt', n='r1'), min_split_read2=SymObj('Opt', n='r2'), min_confidence=SymObj('Opt', n='conf'))
        dests = parser_dests(cfg['mod'], cfg['sub'])
        known = dict(input_path=OpaqueStr(['in']), output_path=OpaqueStr(['out']), skip_failed=st.skip_failed, source='Fusion')
        known.update({k: v for k, v in st.th.items() if k in dests})
        st.args_obj = real_namespace(dests, known)
        st.anno = SymObj('AnnoStub15', genes=GenesKnown(self))
        st.genome = SymObj('GenomeStub15')
        st.args = [st.args_obj]
        self._cur = st
        return st

    def rec_at(self, i):
        st = self._cur
        iz = i if is_z3(i) else z3.IntVal(i)
        gid = lambda side: SymObj('GeneIdStub', side=side, idx=iz)
        # the other read counts of a record are values of their own: a threshold compared with one of them is a different test
        other = lambda nm: z3.Function(f'record_{nm}', I_, z3.RealSort())(iz)
        return SymObj('FusionRecStub', idx=iz, est_j=st.ev['est_j'](iz), counts_of_common_mapping_reads=st.ev['common_mapping'](iz),
                      spanning_unique_reads=st.ev['spanning_unique'](iz), gene_id1=gid(1), gene_id2=gid(2),
                      spanning_pairs=other('spanning_pairs'), longest_anchor_found=other('longest_anchor_found'), est_s=other('est_s'),
                      junction_read_count=other('junction_read_count'), spanning_frag_count=other('spanning_frag_count'), ffpm=other('ffpm'),
                      split_reads1=other('split_reads1'), split_reads2=other('split_reads2'), discordant_mates=other('discordant_mates'))

    @property
    def models(self):
        return (self.install_models,)

    def install_models(self, reg):
        c = self
        cfg = CLIS[self.tool]
        noop = lambda I, a, k: None
        reg.func_('moPepGen/cli/common.py', 'validate_file_format', noop)
        reg.func_('moPepGen/cli/common.py', 'print_start_message', noop)
        reg.func_('moPepGen/cli/common.py', 'load_references', lambda I, a, k: (c._cur.genome, c._cur.anno, None, None))
        reg.func_('moPepGen/cli/common.py', 'generate_metadata', lambda I, a, k: SymObj('Metadata'))
        reg.ext_('open', lambda I, a, k: SymObj('File'))
        reg.func_(cfg['parse'][0], cfg['parse'][1], lambda I, a, k: FnView(c._cur.N, c.rec_at, tag='records'))
        reg.strict_attr_classes = {'Namespace'}

        def is_valid(I, o, a, k):
            st = c._cur
            want = [st.th['min_split_read1'], st.th['min_split_read2'], st.th['min_confidence']]
            I.e.prove('C15/cli/arriba/is_valid-gets-the-thresholds-of-the-command', len(a) == 3 and all(x is y for x, y in zip(a, want)))
            st.calls.append(('is_valid', o.fields['idx']))
            return st.valid(o.fields['idx'])
        reg.method_('FusionRecStub', 'is_valid', is_valid)
        reg.method_('FusionRecStub', 'transcript_on_antisense_strand', lambda I, o, a, k: c._cur.antisense(o.fields['idx']))

        def convert(I, o, a, k):
            st = c._cur
            I.e.prove('C15/cli/convert-gets-annotation-and-genome', len(a) == 2 and a[0] is st.anno and a[1] is st.genome)
            st.calls.append(('convert', o.fields['idx']))
            ch = I.e.choose(3, 'convert outcome')
            st.outcome = ch
            if ch == 1:
                raise PyRaise(SymExc('GeneNotFoundError', ['g']))
            if ch == 2:
                raise PyRaise(SymExc('<any>', ['failure']))
            st.result = SymObj('RecordList', idx=o.fields['idx'])
            return st.result
        reg.method_('FusionRecStub', 'convert_to_variant_records', convert)
        reg.method_('AnnoStub15', 'get_genes_rank', lambda I, o, a, k: SymObj('Rank'))
        reg.sorted_hooks.append(lambda I, items, kw: items if isinstance(items, GhostVariants) else None)

        def write(I, a, k):
            c._cur.writes.append(a[0])
        reg.func_('moPepGen/seqvar/io.py', 'write', write)
        reg.ext_('seqvar.io.write', write)

        def stale(I, obj, attr):
            I.e.prove('C15/cli/skipped-record-contributes-nothing (no result of an earlier record reused)', False)
        reg.on_stale_use = stale

    # ---- loop
    def tally(self, env):
        t = env['tally']
        return t, t.fields['skipped']

    def havoc(self, I, env, k):
        e = I.e
        t, sk = self.tally(env)
        t.fields['total'], t.fields['succeed'] = e.int('t_total'), e.int('t_succeed')
        for c_ in CATS + ('total',):
            if c_ in sk.fields:
                sk.fields[c_] = e.int(f't_skipped_{c_}')
        env['variants'] = GhostVariants(self)

    def inv(self, I, env, k):
        t, sk = self.tally(env)
        cats = [sk.fields[c_] for c_ in CATS if c_ in sk.fields]
        return [('total=records-read', t.fields['total'] == k),
                ('skipped=sum-of-its-categories', sk.fields['total'] == sum(cats[1:], cats[0])),
                ('read=succeeded+skipped', k == t.fields['succeed'] + sk.fields['total']),
                ('counters-nonnegative', z3.And(t.fields['succeed'] >= 0, *[x >= 0 for x in cats]))]

    def on_head(self, I, env, k):
        st = self._cur
        t, sk = self.tally(env)
        st.pre = dict(succeed=t.fields['succeed'], n_ext=len(st.extended), n_calls=len(st.calls),
                      **{c_: sk.fields[c_] for c_ in CATS if c_ in sk.fields})
        st.outcome = None

    def below(self, k):
        """the evidence rule of the command, from the property statement (records failing the thresholds are skipped)"""
        st = self._cur
        if self.tool == 'star':
            return st.ev['est_j'](k) < st.th['min_est_j']
        if self.tool == 'fc':
            return z3.Or(st.ev['common_mapping'](k) > st.th['max_common_mapping'], st.ev['spanning_unique'](k) < st.th['min_spanning_unique'])
        return z3.Not(st.valid(k))

    def step(self, I, env, k):
        st = self._cur
        t, sk = self.tally(env)
        delta = {c_: z3.simplify(sk.fields[c_] - st.pre[c_]) for c_ in CATS if c_ in sk.fields}
        d_succ = z3.simplify(t.fields['succeed'] - st.pre['succeed'])
        ext = st.extended[st.pre['n_ext']:]
        conv = [x for x in st.calls[st.pre['n_calls']:] if x[0] == 'convert']
        only = lambda cat: all(z3.is_true(z3.simplify(v == (1 if c_ == cat else 0))) for c_, v in delta.items()) and z3.is_true(z3.simplify(d_succ == (1 if cat is None else 0)))
        unknown_gene = z3.Or(z3.Not(st.gene_known(1, k)), z3.Not(st.gene_known(2, k))) if self.tool == 'arriba' else z3.BoolVal(False)
        items = []
        if not conv:
            # skipped before conversion: unknown gene (arriba pre-check), evidence, antisense (arriba)
            cond = {'invalid_gene_id': unknown_gene, 'insufficient_evidence': z3.And(z3.Not(unknown_gene), self.below(k)),
                    'antisense_strand': z3.And(z3.Not(unknown_gene), z3.Not(self.below(k)), st.antisense(k)) if self.tool == 'arriba' else z3.BoolVal(False)}
            which = [c_ for c_ in cond if only(c_)]
            items.append(('skipped-before-conversion: exactly-one-category-counted-and-nothing-stored', len(which) == 1 and not ext))
            if len(which) == 1:
                items.append((f'skipped-as-{which[0]}-only-for-that-reason', cond[which[0]]))
        else:
            items.append(('converted-only-if-evidence-suffices', z3.And(z3.Not(unknown_gene), z3.Not(self.below(k)),
                                                                        z3.Not(st.antisense(k)) if self.tool == 'arriba' else True)))
            if st.outcome == 0:
                items.append(('converted-records-stored-once-and-counted', only(None) and len(ext) == 1 and ext[0] is st.result))
            elif st.outcome == 1:
                items.append(('unknown-gene: counted-as-invalid-gene-id-and-nothing-stored', only('invalid_gene_id') and not ext))
            else:
                items.append(('other-failure-with---skip-failed: counted-as-invalid-position-and-nothing-stored',
                              z3.And(st.skip_failed, only('invalid_position') and not ext)))
        return items

    @property
    def loops(self):
        return {0: LoopSpec(inv=self.inv, havoc=self.havoc, on_head=self.on_head, step=self.step)}

    def post_return(self, I, st, ret):
        I.e.prove('C15/cli/exit/at-most-one-write-of-the-collected-variants',
                  len(st.writes) <= 1 and all(isinstance(w, GhostVariants) for w in st.writes))

    def post_raise(self, I, st, exc):
        I.e.prove('C15/cli/raise/only-an-unexpected-failure-without---skip-failed-propagates',
                  z3.And(exc.cls == '<any>' and st.outcome == 2, z3.Not(st.skip_failed)))
        if exc.cls == 'AttributeError':
            I.e.prove(f'C15/cli/every-option-read-is-defined-by-the-parser:{exc.msg}', False)


@register
class StarCLI(_FusionCLI):
    tool = 'star'


@register
class ArribaCLI(_FusionCLI):
    tool = 'arriba'


@register
class FusionCatcherCLI(_FusionCLI):
    tool = 'fc'



@register
class ArribaIsValid(Contract):
    """accepted iff both split-read counts reach their minimum and the confidence level is at least the requested one
    (the 3 x 3 confidence combinations are enumerated: complete, the class has three levels)"""
    path, qualname, props = PARSERS['arriba'][0], 'ArribaRecord.is_valid', ('C15',)
    LEVELS = ('low', 'medium', 'high')

    def setup(self, I):
        e = I.e
        st = types.SimpleNamespace()
        st.conf = self.LEVELS[e.choose(3, 'record confidence')]
        st.min_conf = self.LEVELS[e.choose(3, 'requested confidence')]
        st.r1, st.r2, st.m1, st.m2 = e.int('split_reads1'), e.int('split_reads2'), e.int('min_split_reads1'), e.int('min_split_reads2')
        rec = SymObj('ArribaRecord', split_reads1=st.r1, split_reads2=st.r2, confidence=SymObj('ArribaConfidence', data=st.conf))
        st.args = [rec, st.m1, st.m2, st.min_conf]
        return st

    def post_return(self, I, st, ret):
        lv = self.LEVELS.index
        I.e.prove('C15/arriba/is_valid/iff-reads-and-confidence-reach-the-thresholds',
                  as_bool(I.truth(ret)) == z3.And(st.r1 >= st.m1, st.r2 >= st.m2, lv(st.conf) >= lv(st.min_conf)))


# ----------------------------------------------------------------------------
# Native side
# ----------------------------------------------------------------------------
from pyvc.native import NativeCheck
from . import realobj
from .c14 import _rc


def _mk_tool_record(tool, bpL, bpR):
    if tool == 'star':
        from moPepGen.parser.STARFusionParser import STARFusionRecord
        return STARFusionRecord('f', 10, 10, 10., 10., 'x', 'G1.1', f'chr1:{bpL}:+', 'G2.1', f'chr1:{bpR}:+', [], [], 'Y', 1., 'GT', 1., 'AG', 1., [])
    if tool == 'arriba':
        from moPepGen.parser.ArribaParser import ArribaRecord, ArribaConfidence
        return ArribaRecord('g1', 'g2', '+/+', '+/+', f'chr1:{bpL}', f'chr1:{bpR}', 's', 's', 't', 5, 5, 1, 10, 10, ArribaConfidence('high'), 'in-frame',
                            '', '', '.', '.', 'G1.1', 'G2.1', 'T', 'T', 'downstream', 'upstream', [], '', '', [])
    from moPepGen.parser.FusionCatcherParser import FusionCatcherRecord
    return FusionCatcherRecord('g1', 'g2', [], 0, 5, 5, 30, ['x'], f'chr1:{bpL}:+', f'chr1:{bpR}:+', 'G1.1', 'G2.1', 'e1', 'e2', ('A', 'C'), 'in-frame')


class NativeFusion(NativeCheck):
    name = 'fusion_denoted_sequence'
    props = ('C15',)
    functions = tuple(f'{p_}:{c_}.convert_to_variant_records' for p_, c_ in PARSERS.values()) + (
        f'{VR}:VariantRecord.shift_breakpoint_to_closest_exon', f'{GA}:GenomicAnnotation.get_transcripts_with_position',
        f'{TAM}:TranscriptAnnotationModel.get_upstream_exon_end', f'{TAM}:TranscriptAnnotationModel.get_downstream_exon_start',
        f'{TAM}:TranscriptAnnotationModel.is_exonic')
    bounded_for = 'the denoted fusion sequence through the real to_transcript_variant / get_transcript_sequence (the lemma is over contracts; this runs the real chain)'
    bound = ('random 160-nt chromosome, two genes with 1-2 transcripts (<= 3 exons) each, all four strand combinations, the three tool record '
             'classes, every left breakpoint inside the donor span x 3 sampled right breakpoints; quick 25 gene pairs, thorough 400')
    quick_budget_s = 20
    thorough_budget_s = 200

    def cases(self, rng, tier):
        for i in range(25 if tier != 'thorough' else 400):
            yield dict(seed=rng.randrange(10 ** 9), tool=('star', 'arriba', 'fc')[i % 3])

    def from_model(self, model):
        return dict(seed=7, tool='star')

    def check(self, inp):
        import random
        rng = random.Random(inp['seed'])
        chrom = ''.join(rng.choice('ACGT') for _ in range(160))
        s1, s2 = rng.choice([1, -1]), rng.choice([1, -1])
        spans = {1: (12, 68), 2: (92, 148)}
        genes, txs, exons = [], [], {}
        for g, strand in ((1, s1), (2, s2)):
            ids = []
            for t in range(rng.randint(1, 2)):
                ex = realobj.random_exons(rng, spans[g][0], spans[g][1], 3)
                tid = f'T{g}{t}'
                exons[tid] = ex
                ids.append(tid)
                txs.append(dict(id=tid, gene=f'G{g}.1', strand=strand, exons=ex))
            lo = min(exons[t][0][0] for t in ids) - 2
            hi = max(exons[t][-1][1] for t in ids) + 2
            genes.append(dict(id=f'G{g}.1', start=lo, end=hi, strand=strand, transcripts=ids))
        anno = realobj.anno_from(genes, txs)
        genome = realobj.genome_from({'chr1': chrom})
        base = lambda g, strand: chrom[g] if strand == 1 else _rc(chrom[g])
        d_ids, a_ids = genes[0]['transcripts'], genes[1]['transcripts']
        lo1 = min(exons[t][0][0] for t in d_ids)
        hi1 = max(exons[t][-1][1] for t in d_ids)
        lo2 = min(exons[t][0][0] for t in a_ids)
        hi2 = max(exons[t][-1][1] for t in a_ids)
        gene_seq = {g['id']: anno.genes[g['id']].get_gene_sequence(genome['chr1']).seq for g in genes}
        for bpL in range(lo1 + 1, hi1 + 1):
            for bpR in rng.sample(range(lo2 + 1, hi2 + 1), min(3, hi2 - lo2)):
                gl, gr = bpL - 1, bpR - 1
                rec = _mk_tool_record(inp['tool'], bpL, bpR)
                call = f"{inp['tool']} record {bpL}/{bpR} strands {s1}/{s2}"
                try:
                    vs = rec.convert_to_variant_records(anno, genome)
                except Exception as ex:
                    return dict(call=call, observed=f'{type(ex).__name__}: {ex}', expected='records', signature='convert-raises')
                want_pairs = {(d, a) for d in d_ids for a in a_ids
                              if exons[d][0][0] <= gl < exons[d][-1][1] and exons[a][0][0] <= gr < exons[a][-1][1]}
                got_pairs = [(v.attrs['TRANSCRIPT_ID'], v.attrs['ACCEPTER_TRANSCRIPT_ID']) for v in vs]
                if set(got_pairs) != want_pairs or len(got_pairs) != len(want_pairs):
                    return dict(call=call, observed=str(sorted(got_pairs)), expected=str(sorted(want_pairs)), signature='transcript-pairs')
                for v in vs:
                    d, a = v.attrs['TRANSCRIPT_ID'], v.attrs['ACCEPTER_TRANSCRIPT_ID']
                    P1 = [g for x, y in exons[d] for g in range(x, y)]
                    P2 = [g for x, y in exons[a] for g in range(x, y)]
                    if s1 == 1:
                        up = [g for g in P1 if g <= gl]
                        intr = [] if gl in P1 else list(range(up[-1] + 1, gl + 1))
                    else:
                        up = [g for g in reversed(P1) if g >= gl]
                        intr = [] if gl in P1 else list(range(up[-1] - 1, gl - 1, -1))
                    if s2 == 1:
                        down = [g for g in P2 if g >= gr]
                        intr2 = [] if gr in P2 else list(range(gr, down[0]))
                    else:
                        down = [g for g in reversed(P2) if g <= gr]
                        intr2 = [] if gr in P2 else list(range(gr, down[0], -1))
                    expected = ''.join(base(g, s1) for g in up + intr) + ''.join(base(g, s2) for g in intr2 + down)
                    try:
                        v.shift_breakpoint_to_closest_exon(anno)
                        tv = v.to_transcript_variant(anno, genome, d)
                        t1 = anno.transcripts[d].get_transcript_sequence(genome['chr1']).seq
                        t2 = anno.transcripts[a].get_transcript_sequence(genome['chr1']).seq
                        at = tv.attrs
                        got = str(t1[:int(tv.location.start)])
                        if at['LEFT_INSERTION_START'] is not None:
                            got += str(gene_seq['G1.1'][at['LEFT_INSERTION_START']:at['LEFT_INSERTION_END']])
                        if at['RIGHT_INSERTION_START'] is not None:
                            got += str(gene_seq['G2.1'][at['RIGHT_INSERTION_START']:at['RIGHT_INSERTION_END']])
                        got += str(t2[anno.coordinate_gene_to_transcript(int(at['ACCEPTER_POSITION']), 'G2.1', a):])
                    except Exception as ex:
                        return dict(call=call + f' pair {d}/{a}', observed=f'{type(ex).__name__}: {ex}', expected='a denoted sequence',
                                    signature='shift-or-projection-raises')
                    if got != expected:
                        return dict(call=call + f' pair {d}/{a}', observed=got, expected=expected, signature='denoted-sequence-differs')
        return None

    def nontrivial(self, inp):
        return (inp['seed'], inp['tool'])


@register
class ArribaAntisense(Contract):
    """Arriba reports each partner as <gene strand>/<strand of the fusion transcript>; a call is antisense - and skipped by parseArriba - iff
    the transcript strand of the donor or of the accepter (the part behind the slash, '.' = undetermined) differs from the strand of that
    partner's gene in the annotation"""
    path, qualname, props = 'moPepGen/parser/ArribaParser.py', 'ArribaRecord.transcript_on_antisense_strand', ('C15',)
    declared_raises = ['ValueError']

    def setup(self, I):
        e = I.e
        st = types.SimpleNamespace()
        syms = ['+', '-', '.']
        st.g = [syms[e.choose(2, f'gene strand {i} as reported')] for i in (1, 2)]
        st.t = [syms[e.choose(3, f'transcript strand {i}')] for i in (1, 2)]
        st.anno_strand = [e.int('annotated_strand_gene1'), e.int('annotated_strand_gene2')]
        for x in st.anno_strand:
            e.assume(z3.Or(x == 1, x == -1))
        genes = {'G1': SymObj('GeneStub15a', strand=st.anno_strand[0]), 'G2': SymObj('GeneStub15a', strand=st.anno_strand[1])}
        st.args = [SymObj('ArribaRecord', strand1=f'{st.g[0]}/{st.t[0]}', strand2=f'{st.g[1]}/{st.t[1]}', gene_id1='G1', gene_id2='G2'), SymObj('AnnoStub15a', genes=genes)]
        self._cur = st
        return st

    def post_return(self, I, st, ret):
        val = {'+': 1, '-': -1, '.': 0}
        want = z3.Or(z3.IntVal(val[st.t[0]]) != st.anno_strand[0], z3.IntVal(val[st.t[1]]) != st.anno_strand[1])
        from pyvc.core import as_bool
        r = ret if isinstance(ret, bool) else as_bool(I.truth(ret))
        I.e.prove('C15/arriba/antisense-iff-a-transcript-strand-differs-from-the-annotated-strand-of-its-gene', (z3.BoolVal(r) if isinstance(r, bool) else r) == want)

    def post_raise(self, I, st, exc):
        I.e.prove('C15/arriba/antisense/raise/never-for-the-strand-symbols-arriba-writes', False)


class NativeArribaConfidence(NativeCheck):
    name = 'arriba_confidence_order'
    props = ('C15',)
    functions = (f"{PARSERS['arriba'][0]}:ArribaRecord.is_valid",)
    bounded_for = ''
    bound = 'all 3 x 3 pairs of Arriba confidence levels on the real class (complete for this finite domain): a >= b iff level(a) >= level(b)'
    quick_budget_s = 2
    thorough_budget_s = 2

    def cases(self, rng, tier):
        for a in ('low', 'medium', 'high'):
            for b in ('low', 'medium', 'high'):
                yield dict(a=a, b=b)

    def check(self, inp):
        from moPepGen.parser.ArribaParser import ArribaConfidence
        lv = ('low', 'medium', 'high').index
        got = ArribaConfidence(inp['a']) >= ArribaConfidence(inp['b'])
        if bool(got) != (lv(inp['a']) >= lv(inp['b'])):
            return dict(call=f"ArribaConfidence({inp['a']}) >= ArribaConfidence({inp['b']})", observed=str(got),
                        expected=str(lv(inp['a']) >= lv(inp['b'])), signature='confidence-order')
        return None


NATIVE = [NativeFusion(), NativeArribaConfidence()]
