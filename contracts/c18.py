"""C18 — database bookkeeping conserves peptides: split, merge, encode (DESIGN.md §3 C18)."""
from __future__ import annotations
import types
import z3
from pyvc.contract import Contract, Lemma, register
from pyvc.core import Unsupported, as_bool
from pyvc.interp import LoopSpec, PyRaise
from pyvc.values import *
from pyvc.pstr import PStr
from pyvc import sstr
from pyvc.sstr import Tok
from .lib import *

ENC = 'moPepGen/cli/encode_fasta.py'
MRG = 'moPepGen/cli/merge_fasta.py'
SPL = 'moPepGen/aa/PeptidePoolSplitter.py'
I_, B_ = z3.IntSort(), z3.BoolSort()


def seq_eq(a, b):
    """extensional equality of two PStr as a formula with a free index (validity = for all indices)"""
    i = z3.Int('i_ext')
    la, lb = a.length(), b.length()
    la = la if is_z3(la) else z3.IntVal(la)
    lb = lb if is_z3(lb) else z3.IntVal(lb)
    return z3.And(la == lb, z3.Implies(z3.And(0 <= i, i < la), a.get(i) == b.get(i)))


# ----------------------------------------------------------------------------
# encodeFasta: decoy marker handling and the identifier dictionary
# ----------------------------------------------------------------------------
@register
class EncodeDecoyHelpers(Contract):
    """for a header carrying the decoy string at the requested side: it is recognised, the real header is what remains, and the decoy
    form of an identifier carries the same string at the same side - so identifier + dictionary restore the original header exactly"""
    path, qualname, props = ENC, 'get_real_header', ('C18',)
    assumptions = ('requires: the decoy string is not empty (with an empty suffix header[:-0] would be the empty string)',)

    def setup(self, I):
        e = I.e
        st = types.SimpleNamespace()
        st.H, st.D, st.X = PStr.sym(e, 'header'), PStr.sym(e, 'decoy'), PStr.sym(e, 'identifier')
        e.assume(st.D.length() >= 1)
        st.pos = ('prefix', 'suffix')[e.choose(2, 'decoy position')]
        st.full = st.D.concat(st.H) if st.pos == 'prefix' else st.H.concat(st.D)
        mod = I.repo.modules[ENC]
        fn = lambda name: RepoFunc(mod, [n for n in mod.tree.body if getattr(n, 'name', None) == name][0])
        st.is_decoy = I.call(fn('is_decoy_sequence'), [st.full, st.D, st.pos], {})
        st.decoyed = I.call(fn('get_decoy_header'), [st.X, st.D, st.pos], {})
        st.args = [st.full, st.D, st.pos]
        return st

    def post_return(self, I, st, ret):
        e = I.e
        e.prove('C18/encode/decoy-header-is-recognised', as_bool(st.is_decoy))
        e.prove('C18/encode/real-header=header-without-the-decoy-string', seq_eq(ret, st.H))
        want = st.D.concat(st.X) if st.pos == 'prefix' else st.X.concat(st.D)
        e.prove('C18/encode/decoy-identifier-carries-the-string-at-the-same-side', seq_eq(st.decoyed, want))


class HeaderOf:
    """record.description of input record k"""
    def __init__(self, k, decoy=False, real=None):
        self.k, self.decoy, self.real = k, decoy, real


@register
class EncodeLoop(Contract):
    """every record is written once with its description replaced by an identifier; equal (real) headers get the same identifier, a new
    header gets a fresh one that is written once to the dictionary together with the header; decoy records get the decoy form"""
    path, qualname, props = ENC, 'encode_fasta', ('C18',)
    assumptions = ('assumed: uuid.uuid4() is fresh; SeqIO.parse yields the records; FastaWriter.write_record writes description and sequence; '
                   'is_decoy_sequence / get_real_header / get_decoy_header are their proved contracts (uninterpreted here)',)

    def setup(self, I):
        e = I.e
        st = types.SimpleNamespace(dict_writes=[], written=[], uuids=[])
        st.N = e.int('n_records')
        e.assume(st.N >= 0)
        st.is_decoy = z3.Function('is_decoy', I_, B_)
        st.hid = z3.Function('real_header_code', I_, I_)       # equal real headers <=> equal codes
        st.args_obj = SymObj('Namespace', input_path=SymObj('PathStub18', n='in'), output_path=SymObj('PathStub18', n='out'),
                             decoy_string=Tok('decoy'), decoy_string_position='prefix')
        st.args = [st.args_obj]
        self._cur = st
        return st

    @property
    def models(self):
        c = self

        def inst(reg):
            sstr.install(reg)
            noop = lambda I, a, k: None
            reg.func_('moPepGen/cli/common.py', 'validate_file_format', noop)
            reg.func_('moPepGen/cli/common.py', 'print_start_message', noop)
            reg.method_('PathStub18', 'with_suffix', lambda I, o, a, k: SymObj('PathStub18', n='dict'))
            reg.attr_('PathStub18', 'suffix', lambda I, o: '.fasta')
            reg.ext_('open', lambda I, a, k: SymObj('File18', path=a[0]))
            reg.method_('File18', 'write', lambda I, o, a, k: c._cur.dict_writes.append((o.fields['path'].fields['n'], a[0])))
            reg.ext_('FastaIO.FastaWriter', lambda I, a, k: SymObj('Writer18'))
            reg.ext_('Bio.SeqIO.FastaIO.FastaWriter', lambda I, a, k: SymObj('Writer18'))
            reg.method_('Writer18', 'write_record', lambda I, o, a, k: c._cur.written.append((a[0], a[0].fields['description'])))
            rec = lambda i: SymObj('SeqRecord', description=HeaderOf(i if is_z3(i) else z3.IntVal(i)), seq=SymObj('SeqOf', k=i), k=i if is_z3(i) else z3.IntVal(i))
            reg.ext_('SeqIO.parse', lambda I, a, k: FnView(c._cur.N, rec, tag='records'))
            reg.ext_('Bio.SeqIO.parse', lambda I, a, k: FnView(c._cur.N, rec, tag='records'))
            reg.func_(ENC, 'is_decoy_sequence', lambda I, a, k: c._cur.is_decoy(a[0].k))
            reg.func_(ENC, 'get_real_header', lambda I, a, k: HeaderOf(a[0].k, real=True))
            reg.func_(ENC, 'get_decoy_header', lambda I, a, k: SymObj('DecoyOf', index=a[0]))

            def uuid4(I, a, k):
                u = Tok(f'uuid{len(c._cur.uuids)}')
                c._cur.uuids.append(u)
                return u
            reg.ext_('uuid.uuid4', uuid4)
        return (inst,)

    def havoc(self, I, env, k):
        st = self._cur
        st.known = z3.Function(I.e.fresh_name('header_has_identifier'), I_, B_)
        st.idx_of = {}

        class Mapper:
            def sym_contains(s_, I2, item):
                return st.known(st.hid(item.k))

            def sym_getitem(s_, I2, item):
                t = SymObj('StoredIndex', code=st.hid(item.k))
                return t

            def sym_setitem(s_, I2, key, v):
                st.idx_of[id(key)] = (key, v)
        env['id_mapper'] = Mapper()

    def on_head(self, I, env, k):
        st = self._cur
        st.pre = dict(nd=len(st.dict_writes), nw=len(st.written), nu=len(st.uuids), nm=len(st.idx_of))

    def step(self, I, env, k):
        st = self._cur
        dw = [w for w in st.dict_writes[st.pre['nd']:] if w[0] == 'dict']
        wr = st.written[st.pre['nw']:]
        new_uuid = st.uuids[st.pre['nu']:]
        items = [('record-written-once', len(wr) == 1 and z3.is_true(z3.simplify(wr[0][0].fields['k'] == k)))]
        if len(wr) != 1:
            return items
        desc = wr[0][1]
        decoy_form = isinstance(desc, SymObj) and desc.cls == 'DecoyOf'
        index = desc.fields['index'] if decoy_form else desc
        if new_uuid:
            line_ok = False
            if len(dw) == 1:
                toks = sstr.merge(sstr.flat(dw[0][1]))
                import os
                if os.environ.get('DBG'):
                    print('TOKS', toks)
                line_ok = len(toks) == 4 and toks[0] is new_uuid[0] and toks[1] == '\t' and isinstance(toks[2], HeaderOf) and toks[3] == '\n' \
                    and z3.is_true(z3.simplify(toks[2].k == k))
            items += [('new-header: fresh-identifier-written-once-to-the-dictionary-with-the-real-header', len(new_uuid) == 1 and line_ok),
                      ('new-header: only-if-not-yet-known', z3.Not(st.known(st.hid(k)))),
                      ('new-header: identifier-remembered', len(st.idx_of) == st.pre['nm'] + 1),
                      ('record-gets-this-identifier', index is new_uuid[0])]
        else:
            items += [('known-header: nothing-written-to-the-dictionary', len(dw) == 0),
                      ('known-header: only-if-known', st.known(st.hid(k))),
                      ('record-gets-the-stored-identifier-of-its-header', isinstance(index, SymObj) and index.cls == 'StoredIndex'
                       and z3.is_true(z3.simplify(index.fields['code'] == st.hid(k))))]
        items.append(('decoy-form-iff-decoy-record', z3.If(st.is_decoy(k), decoy_form, not decoy_form)))
        return items

    @property
    def loops(self):
        return {0: LoopSpec(inv=lambda I, env, k: [], havoc=self.havoc, on_head=self.on_head, step=self.step)}


# ----------------------------------------------------------------------------
# mergeFasta
# ----------------------------------------------------------------------------
@register
class MergeLoop(Contract):
    """the first file becomes the pool; every peptide of every later file is merged into it exactly once, unfiltered (skip_checking) -
    with the proved contract of VariantPeptidePool.add_peptide: union of sequences, labels appended to an existing entry"""
    path, qualname, props = MRG, 'merge_fasta', ('C18',)
    assumptions = ('assumed: VariantPeptidePool.load returns the records of one file; remove_redundant_headers / write are external',)

    def setup(self, I):
        e = I.e
        st = types.SimpleNamespace(loads=[], adds=[], writes=[])
        st.F = e.int('n_files')
        e.assume(st.F >= 1)
        st.npep = z3.Function('n_peptides_of_file', I_, I_)
        files = FnView(st.F, lambda i: SymObj('FileStub', i=i if is_z3(i) else z3.IntVal(i)), tag='input files')
        st.args_obj = SymObj('Namespace', input_path=files, output_path=OpaqueStr(['out']), dedup_header=e.bool('dedup_header'))
        st.args = [st.args_obj]
        self._cur = st
        return st

    @property
    def models(self):
        c = self

        def inst(reg):
            reg.func_('moPepGen/cli/common.py', 'validate_file_format', lambda I, a, k: None)
            reg.ext_('open', lambda I, a, k: SymObj('Handle18', i=a[0].fields['i']))

            def load(I, o, a, k):
                st = c._cur
                i = a[0].fields['i']
                st.loads.append(i)
                n = st.npep(i)
                I.e.assume(n >= 0)
                peps = FnView(n, lambda j: SymObj('Pep18', file=i, j=j if is_z3(j) else z3.IntVal(j)), tag='peptides')
                return SymObj('Pool18', peptides=peps, file=i)
            reg.method_('VariantPeptidePool', 'load', load)

            def add(I, o, a, k):
                st = c._cur
                I.e.prove('C18/merge/added-unfiltered-to-the-pool-of-the-first-file',
                          z3.And(k.get('skip_checking') is True, not a, isinstance(k.get('canonical_peptides'), set) and not k.get('canonical_peptides'),
                                 o.fields['file'] == 0))
                st.adds.append(k.get('peptide'))
                return True
            reg.method_('Pool18', 'add_peptide', add)
            reg.method_('Pool18', 'remove_redundant_headers', lambda I, o, a, k: None)
            reg.method_('Pool18', 'write', lambda I, o, a, k: c._cur.writes.append(o))
        return (inst,)

    def havoc0(self, I, env, k):
        pass

    def havoc1(self, I, env, k):
        # at an arbitrary later iteration the pool is the one loaded from the first file
        env['pool'] = None if I.e.branch(k == 0, 'first file') else SymObj('Pool18', peptides=None, file=z3.IntVal(0))

    def head1(self, I, env, k):
        self._cur.pre = dict(nl=len(self._cur.loads), na=len(self._cur.adds))

    def step1(self, I, env, k):
        st = self._cur
        loads = st.loads[st.pre['nl']:]
        pool = env['pool']
        items = [('each-file-loaded-once', len(loads) == 1 and z3.is_true(z3.simplify(loads[0] == k))),
                 ('pool-is-the-first-file', (pool.fields['file'] == 0) if isinstance(pool, SymObj) else False)]
        return items

    def head2(self, I, env, k):
        self._cur.na = len(self._cur.adds)

    def step2(self, I, env, k):
        st = self._cur
        new = st.adds[st.na:]
        return [('every-peptide-of-a-later-file-merged-once', len(new) == 1 and z3.is_true(z3.simplify(new[0].fields['j'] == k)))]

    @property
    def loops(self):
        T = lambda I, env, k: []
        return {0: LoopSpec(inv=T), 1: LoopSpec(inv=T, havoc=self.havoc1, on_head=self.head1, step=self.step1),
                2: LoopSpec(inv=T, on_head=self.head2, step=self.step2)}

    def post_return(self, I, st, ret):
        I.e.prove('C18/merge/exit/the-merged-pool-is-written-once', (st.writes[0].fields['file'] == 0) if len(st.writes) == 1 else False)


# ----------------------------------------------------------------------------
# splitFasta
# ----------------------------------------------------------------------------
@register
class AddPeptideToDatabase(Contract):
    """the peptide is added to the database of the given key (created if missing); no other database is touched"""
    path, qualname, props = SPL, 'PeptidePoolSplitter.add_peptide_to_database', ('C18',)

    def setup(self, I):
        e = I.e
        st = types.SimpleNamespace(log=[])
        st.exists = e.bool('database_exists')

        class Dbs:
            def sym_contains(s_, I2, key):
                st.log.append(('in', key))
                return st.exists

            def sym_setitem(s_, I2, key, v):
                st.log.append(('create', key, v))
                st.created = v

            def sym_getitem(s_, I2, key):
                st.log.append(('get', key))
                return getattr(st, 'created', None) or st.old

            def sym_method(s_, I2, name, a, k):
                if name == 'setdefault':
                    if not I2.test(s_.sym_contains(I2, a[0]), 'database exists'):
                        s_.sym_setitem(I2, a[0], a[1])
                    return s_.sym_getitem(I2, a[0])
                raise Unsupported(f'databases.{name}')
        st.key, st.pep = Tok('database_key'), SymObj('Pep18', j=0)
        adds = []

        class PepSet:
            def __init__(s_, tag):
                s_.tag = tag

            def sym_method(s_, I2, name, a, k):
                if name == 'add':
                    st.log.append(('add', s_.tag, a[0]))
                    return None
                raise Unsupported(name)
        st.old = SymObj('VariantPeptidePool', peptides=PepSet('existing'), peptide_delimeter=' ')
        st.PepSet = PepSet
        st.args = [SymObj('PeptidePoolSplitter', databases=Dbs()), st.key, st.pep]
        self._cur = st
        return st

    @property
    def models(self):
        c = self
        return (lambda reg: reg.ctor_('VariantPeptidePool', lambda I, a, k: SymObj('VariantPeptidePool', peptides=c._cur.PepSet('new'), peptide_delimeter=' ')),)

    def post_return(self, I, st, ret):
        adds = [x for x in st.log if x[0] == 'add']
        creates = [x for x in st.log if x[0] == 'create']
        I.e.prove('C18/split/add/peptide-added-exactly-once-to-the-database-of-the-key',
                  len(adds) == 1 and adds[0][2] is st.pep and all(x[1] is st.key for x in st.log if x[0] in ('in', 'create', 'get')))
        I.e.prove('C18/split/add/database-created-iff-missing',
                  z3.If(st.exists, len(creates) == 0 and bool(adds) and adds[0][1] == 'existing', len(creates) == 1 and bool(adds) and adds[0][1] == 'new'))


@register
class SplitLoop(Contract):
    """every peptide is assigned to exactly one database: the one of the highest-priority source set of its header entries if that set
    has at most max_groups sources, else the first additional-split set contained in it, else 'Remaining'; the sequence is not touched;
    the header is rewritten as the join of all its entries"""
    path, qualname, props = SPL, 'PeptidePoolSplitter.split', ('C18',)
    assumptions = ('assumed: VariantPeptideInfo.from_variant_peptide parses every header entry; after sort() the first entry is the one with the '
                   'highest-priority source set (VariantSourceSet order); str(entry) prints an entry (parser/printer round trip: bounded native check)',)

    def setup(self, I):
        e = I.e
        st = types.SimpleNamespace(db_calls=[], attr_writes=[])
        st.N, st.A = e.int('n_peptides'), e.int('n_additional')
        e.assume(z3.And(st.N >= 0, st.A >= 0))
        st.max_groups = e.int('max_groups')
        st.nsrc = z3.Function('n_sources_of_top_set', I_, I_)
        st.sub = z3.Function('additional_set_is_subset', I_, I_, B_)
        peps = FnView(st.N, lambda i: SymObj('Pep18s', k=i if is_z3(i) else z3.IntVal(i), seq=SymObj('SeqOf', k=i), description=Tok('header'),
                                            id=Tok('id'), name=Tok('name')), tag='peptides')
        st.splitter = SymObj('PeptidePoolSplitter', peptides=SymObj('VariantPeptidePool', peptides=peps), databases={}, label_map=SymObj('LabelMap'),
                             group_map={}, order={}, sources=set())
        adds = FnView(st.A, lambda j: SymObj('RawSet', j=j if is_z3(j) else z3.IntVal(j)), tag='additional_split')
        st.args = [st.splitter, st.max_groups, adds, SymObj('Tx2Gene'), SymObj('CodingTx')]
        self._cur = st
        return st

    @property
    def models(self):
        c = self

        def inst(reg):
            reg.method_('PeptidePoolSplitter', 'append_order_internal_sources', lambda I, o, a, k: None)
            reg.method_('PeptidePoolSplitter', 'create_wildcard_map', lambda I, o, a, k: SymObj('WildcardMap'))
            reg.method_('VariantSourceSet', 'set_levels', lambda I, o, a, k: None)
            reg.ctor_('VariantSourceSet', lambda I, a, k: SymObj('AddSet', j=a[0].fields['j']))
            reg.method_('AddSet', 'issubset', lambda I, o, a, k: c._cur.sub(o.fields['j'], a[0].fields['k']))
            reg.str_hooks.append(lambda v: (lambda I, v: Tok(f'str({v.cls})') if False else v) if isinstance(v, SymObj) and v.cls in ('TopSources', 'AddSet', 'Entry18') else None)

            class Infos:
                def __init__(s_, k):
                    s_.k, s_.sorted = k, False

                def sym_method(s_, I2, name, a, kw):
                    if name == 'sort':
                        I2.e.prove('C18/split/entries-sorted-by-their-own-order', not a and not kw)
                        s_.sorted = True
                        return None
                    raise Unsupported(name)

                def sym_getitem(s_, I2, idx):
                    I2.e.prove('C18/split/top-entry-taken-after-sorting', s_.sorted and idx == 0)
                    return SymObj('Info18', sources=SymObj('TopSources', k=s_.k))

                def sym_view(s_, I2):
                    n = I2.e.int('n_entries')
                    I2.e.assume(n >= 1)
                    return FnView(n, lambda t: SymObj('Entry18', k=s_.k, t=t), tag='entries')

            def from_pep(I, o, a, k):
                st = c._cur
                pep = k.get('peptide')
                I.e.prove('C18/split/header-parsed-with-the-splitter-maps',
                          k.get('label_map') is st.splitter.fields['label_map'] and k.get('group_map') is st.splitter.fields['group_map'])
                st.infos = Infos(pep.fields['k'])
                return st.infos
            reg.method_('VariantPeptideInfo', 'from_variant_peptide', from_pep)
            reg.func_('moPepGen/aa/VariantPeptideLabel.py', 'VariantPeptideInfo.from_variant_peptide', lambda I, a, k: from_pep(I, None, a, k))
            reg.protocol_('TopSources', '__len__', lambda I, o: c._cur.nsrc(o.fields['k']))

            def add_db(I, o, a, k):
                c._cur.db_calls.append((a[0], a[1]))
            reg.method_('PeptidePoolSplitter', 'add_peptide_to_database', add_db)

            def setattr_hook(name):
                def h(I, o, v):
                    c._cur.attr_writes.append((name, o, v))
                    o.fields[name] = v
                return h
            for nm in ('description', 'id', 'name', 'seq'):
                reg._setattr[('Pep18s', nm)] = setattr_hook(nm)
        return (inst,)

    def on_head(self, I, env, k):
        st = self._cur
        st.pre = dict(nc=len(st.db_calls), nw=len(st.attr_writes))
        st.broke = False

    def inv_inner(self, I, env, k):
        st = self._cur
        j = z3.Int('j_add')
        pk = st.infos.k
        return [('no-earlier-additional-set-is-contained', z3.ForAll([j], z3.Implies(z3.And(0 <= j, j < k), z3.Not(st.sub(j, pk))))),
                ('nothing-assigned-yet', z3.Not(as_bool(I.truth(env['has_additional_splitting']))))]

    def step(self, I, env, k):
        st = self._cur
        calls = st.db_calls[st.pre['nc']:]
        writes = st.attr_writes[st.pre['nw']:]
        items = [('exactly-one-database-per-peptide', len(calls) == 1 and isinstance(calls[0][1], SymObj) and z3.is_true(z3.simplify(calls[0][1].fields['k'] == k))),
                 ('sequence-never-assigned', all(w[0] != 'seq' for w in writes))]
        if len(calls) != 1:
            return items
        key = calls[0][0]
        small = st.nsrc(k) <= st.max_groups
        j = z3.Int('j_any')
        none_sub = z3.ForAll([j], z3.Implies(z3.And(0 <= j, j < st.A), z3.Not(st.sub(j, k))))
        if isinstance(key, SymObj) and key.cls == 'TopSources':
            items.append(('own-source-set-database-iff-at-most-max-groups', z3.And(small, key.fields['k'] == k)))
        elif key == 'Remaining':
            items.append(('remaining-database-iff-too-many-sources-and-no-additional-set-fits', z3.And(z3.Not(small), none_sub)))
        else:
            toks = sstr.merge(sstr.flat(key))
            ok = len(toks) == 2 and isinstance(toks[0], SymObj) and toks[0].cls == 'AddSet' and isinstance(toks[1], str) and toks[1].endswith('additional')
            jj = toks[0].fields['j'] if ok else None
            items.append(('additional-database-of-the-first-contained-set',
                          z3.And(z3.Not(small), st.sub(jj, k), z3.ForAll([j], z3.Implies(z3.And(0 <= j, j < jj), z3.Not(st.sub(j, k))))) if ok else False))
        return items

    @property
    def loops(self):
        T = lambda I, env, k: []
        return {0: LoopSpec(inv=T, on_head=self.on_head, step=self.step), 1: LoopSpec(inv=self.inv_inner)}


# ----------------------------------------------------------------------------
# header entry -> source set  (VariantPeptideInfo.from_variant_peptide)
# ----------------------------------------------------------------------------
VPL = 'moPepGen/aa/VariantPeptideLabel.py'
VarS, GeneS, SrcS = z3.DeclareSort('VarId18'), z3.DeclareSort('GeneId18'), z3.DeclareSort('Source18')
TYPE = z3.Function('variant_type_prefix', VarS, I_)
SRC = z3.Function('gvf_source_of', GeneS, VarS, SrcS)
INTERNAL = z3.Function('internal_source', I_, SrcS)
TYCODES = {'SECT': 0, 'W2F': 1}
INTERNAL_CODES = {'NovelORF': 0, 'SECT': 1, 'CodonReassign': 2}


def src_of(g, v):
    """the source a variant named in a header entry contributes (property statement): selenocysteine termination and codon
    reassignment are internal sources recognised by the variant type prefix; any other variant has the source of the GVF
    that defines it for that gene"""
    return z3.If(TYPE(v) == TYCODES['SECT'], INTERNAL(INTERNAL_CODES['SECT']),
                 z3.If(TYPE(v) == TYCODES['W2F'], INTERNAL(INTERNAL_CODES['CodonReassign']), SRC(g, v)))


class GeneKey:
    def __init__(self, term):
        self.term = term

    def sym_eq(self, I, other):
        return self.term == other.term if isinstance(other, GeneKey) else False

    def __repr__(self):
        return f'Gene({self.term})'


class TxTok:
    def __init__(self, e, name):
        self.name, self.gene = name, GeneKey(e.const(f'gene_of_{name}', GeneS))

    def __repr__(self):
        return f'Tx({self.name})'


class TypeTag:
    def __init__(self, tok):
        self.tok = tok

    def sym_eq(self, I, other):
        if isinstance(other, str):
            return TYPE(self.tok.term) == TYCODES.setdefault(other, len(TYCODES))
        raise Unsupported('variant type prefix compared with a non-constant')


class FusionPart:
    """'<transcript>:<position>' inside a fusion id"""
    def __init__(self, tx):
        self.tx = tx

    def sym_method(self, I, name, a, k):
        if name == 'split' and list(a) == [':']:
            return [self.tx, OpaqueStr(['breakpoint'])]
        raise Unsupported(f'fusion part .{name}')


class TokParts:
    def __init__(self, tok, maxsplit):
        self.tok, self.maxsplit = tok, maxsplit

    def sym_getitem(self, I, idx):
        if idx == 0:
            return TypeTag(self.tok)
        if idx == 1 and self.maxsplit == 2 and self.tok.circ_tx is not None:
            return self.tok.circ_tx
        raise Unsupported(f'field {idx!r} of a variant id')

    def sym_unpack(self, I, n):
        if n == 3 and self.tok.fusion_txs is not None and self.maxsplit is None:
            return (TypeTag(self.tok), FusionPart(self.tok.fusion_txs[0]), FusionPart(self.tok.fusion_txs[1]))
        raise Unsupported('unpacking the fields of a variant id')


class VarTok:
    """a variant id named in a header entry"""
    def __init__(self, term, circ_tx=None, fusion_txs=None):
        self.term, self.circ_tx, self.fusion_txs = term, circ_tx, fusion_txs

    def sym_method(self, I, name, a, k):
        if name == 'split' and a and a[0] == '-':
            return TokParts(self, a[1] if len(a) > 1 else None)
        raise Unsupported(f'variant id .{name}')

    def __repr__(self):
        return f'Var({self.term})'


class VarList(View):
    """a list of variant ids seen only through membership: get(i) is some member; a for loop over it visits every member
    (the seen-set ghost of the loop contract); + is union of members, list(set(.)) keeps the members"""
    def __init__(self, e, name, parts=None, single=None):
        self.e, self.name, self.parts, self.single = e, name, parts, single
        if parts is None and single is None:
            self.mem = z3.Function(e.fresh_name(f'member_of_{name}'), VarS, B_)
        self._len = 1 if single is not None else e.int(f'len_{name}')
        if single is None:
            e.assume(self._len >= 0)

    def member(self, v):
        if self.single is not None:
            return v == self.single.term
        if self.parts is not None:
            return z3.Or(*[p.member(v) for p in self.parts]) if self.parts else z3.BoolVal(False)
        return self.mem(v)

    def length(self):
        return self._len

    def get(self, i):
        if self.single is not None:
            return self.single
        t = self.e.const(f'elt_of_{self.name}', VarS)
        self.e.assume(self.member(t))
        return VarTok(t)

    @staticmethod
    def lift(e, v):
        if isinstance(v, VarList):
            return [v]
        if isinstance(v, list) and all(isinstance(x, VarTok) for x in v):
            return [VarList(e, 'single', single=x) for x in v]
        raise Unsupported(f'variant list + {v!r}')

    def sym_binop(self, I, op, other, reflected):
        if op != '+':
            return NotImplemented
        a, b = VarList.lift(I.e, self), VarList.lift(I.e, other)
        parts = (b + a) if reflected else (a + b)
        out = VarList(I.e, 'concat', parts=parts)
        I.e.assume(out._len == sum([p._len for p in parts], z3.IntVal(0)))
        return out

    def __repr__(self):
        return f'<variants {self.name}>'


def _pred(e, name, sort):
    return z3.Function(e.fresh_name(name), sort, B_)


def _pred_with(e, old, elem, sort, name):
    new = _pred(e, name, sort)
    x = z3.Const(f'x_{name}', sort)
    e.assume(z3.ForAll([x], new(x) == z3.Or(old(x), x == elem)))
    return new


def _pred_empty(e, sort, name):
    p = _pred(e, name, sort)
    x = z3.Const(f'x_{name}', sort)
    e.assume(z3.ForAll([x], z3.Not(p(x))))
    return p


class SrcVal:
    def __init__(self, term):
        self.term = term


class GhostSources:
    """the VariantSourceSet of one header entry: the set of sources added so far, every add checked against the entry"""
    def __init__(self, owner, I):
        self.owner, self.entry = owner, owner._cur.current
        self.added = _pred_empty(I.e, SrcS, 'in_sources')
        self.frozen_at = None
        if self.entry is not None:
            self.entry.ghosts.append(self)

    def sym_method(self, I, name, a, k):
        st, e = self.owner._cur, I.e
        if name != 'add':
            raise Unsupported(f'sources.{name}')
        kind = self.entry.kind
        e.prove(f'C18/entry/{kind}/source-added-through-the-group-map', k.get('group_map') is st.group_map and len(a) == 1)
        el = a[0]
        if isinstance(el, str):
            if el not in INTERNAL_CODES:
                e.prove(f'C18/entry/{kind}/only-known-internal-sources', False)
                return None
            term = INTERNAL(INTERNAL_CODES[el])
        elif isinstance(el, SrcVal):
            term = el.term
        else:
            raise Unsupported(f'sources.add({el!r})')
        v = z3.Const('v_some', VarS)
        just = [z3.Exists([v], z3.And(c.member(v), term == src_of(g.term, v))) for g, c in self.entry.comps]
        if self.entry.orf:
            just.append(term == INTERNAL(INTERNAL_CODES['NovelORF']))
        e.prove(f'C18/entry/{kind}/every-source-comes-from-a-variant-the-entry-names', z3.Or(*just) if just else False)
        self.added = _pred_with(e, self.added, term, SrcS, 'in_sources')
        return None


class FrozenKey:
    def __init__(self, ghost):
        self.ghost, self.pred = ghost, ghost.added


class WildSources:
    def __init__(self, key):
        self.key = key


class WildcardMap18:
    def sym_getitem(self, I, key):
        if not isinstance(key, FrozenKey):
            raise Unsupported(f'wildcard_map[{key!r}]')
        if I.e.branch(I.e.bool('source_set_matches_a_wildcard_entry'), 'wildcard'):
            return WildSources(key)
        I.raise_('KeyError')


@register
class FromVariantPeptide(Contract):
    """every header entry gets the sources of exactly the variants it names, each looked up under the gene it belongs to (for a
    fusion: donor-side, fusion and peptide-level variants under the donor gene, acceptor-side variants under the acceptor gene, also
    when both are the same gene), plus NovelORF for an entry with an ORF id; the wildcard map is consulted with that complete set"""
    path, qualname, props = VPL, 'VariantPeptideInfo.from_variant_peptide', ('C18',)
    assumptions = ('assumed: parse_variant_peptide_id returns one identifier per header entry (parser/printer round trip: bounded native check); '
                   'the first/second transcript of a fusion id and the transcript of a circRNA id are fields of the id (the real first_tx_id / '
                   'second_tx_id properties run on that structure)',
                   'assumed: LabelSourceMapping.get_source(gene, variant) is a function of its arguments (the GVF the variant was read from)',
                   'iteration axiom: a for loop over a list runs its body once for every member (seen-set ghost; on exit every member was seen)',
                   'VariantSourceSet is replaced by a ghost set: validation against the level map and the group_map substitution inside '
                   'VariantSourceSet.add are not part of this contract (the group_map argument is checked to be passed on every add)')

    def setup(self, I):
        e = I.e
        st = types.SimpleNamespace(entries=[], current=None)
        st.group_map = SymObj('GroupMap18')
        st.label_map = SymObj('LabelSourceMapping')
        st.wild = WildcardMap18()
        kind = ['novel_orf', 'circ_rna', 'fusion', 'base'][e.choose(4, 'entry kind')]
        st.entries.append(self.mk_entry(I, st, kind, 0))
        st.entries.append(self.mk_entry(I, st, 'base', 1))
        st.pep = SymObj('AminoAcidSeqRecord', description=OpaqueStr(['header']))
        st.tx2gene = types.SimpleNamespace(sym_getitem=lambda I2, key: key.gene)
        st.args = []
        st.kwargs = dict(peptide=st.pep, tx2gene=st.tx2gene, coding_tx=SymObj('CodingTx'), label_map=st.label_map, group_map=st.group_map,
                         wildcard_map=st.wild)
        self._cur = st
        return st

    def mk_entry(self, I, st, kind, n):
        e = I.e
        en = types.SimpleNamespace(kind=kind, n=n, ghosts=[], label=OpaqueStr(['entry', n]))
        en.orf = I.e.branch(e.bool(f'entry{n}_has_orf_id'), 'orf id')
        orf = OpaqueStr(['ORF', n]) if en.orf else None
        idx = e.int(f'entry{n}_index')
        if kind == 'novel_orf':
            tx, g = TxTok(e, f'tx{n}'), GeneKey(e.const(f'header_gene{n}', GeneS))
            cr = VarList(e, f'codon_reassigns{n}')
            en.comps = [(g, cr)]
            en.obj = SymObj('NovelORFPeptideIdentifier', transcript_id=tx, gene_id=g, codon_reassigns=cr, is_protein_coding=False, orf_id=orf, index=idx)
        elif kind == 'circ_rna':
            tx = TxTok(e, f'circ_tx{n}')
            cid = VarTok(e.const(f'circ_id{n}', VarS), circ_tx=tx)
            vs = VarList(e, f'variant_ids{n}')
            en.comps = [(tx.gene, VarList(e, 'circ id', single=cid)), (tx.gene, vs)]
            en.obj = SymObj('CircRNAVariantPeptideIdentifier', circ_rna_id=cid, variant_ids=vs, orf_id=orf, index=idx)
        elif kind == 'fusion':
            t1, t2 = TxTok(e, f'donor_tx{n}'), TxTok(e, f'acceptor_tx{n}')
            fid = VarTok(e.const(f'fusion_id{n}', VarS), fusion_txs=(t1, t2))
            a, b, c = VarList(e, f'first_variants{n}'), VarList(e, f'second_variants{n}'), VarList(e, f'peptide_variants{n}')
            en.comps = [(t1.gene, a), (t1.gene, VarList(e, 'fusion id', single=fid)), (t1.gene, c), (t2.gene, b)]
            en.obj = SymObj('FusionVariantPeptideIdentifier', fusion_id=fid, first_variants=a, second_variants=b, peptide_variants=c, orf_id=orf, index=idx)
        else:
            tx = TxTok(e, f'tx{n}')
            vs = VarList(e, f'variant_ids{n}')
            en.comps = [(tx.gene, vs)]
            en.obj = SymObj('BaseVariantPeptideIdentifier', transcript_id=tx, variant_ids=vs, orf_id=orf, index=idx, gene_id=None)
        en.obj.fields['_entry'] = en
        return en

    @property
    def models(self):
        c = self

        def inst(reg):
            def parse(I, a, k):
                st = c._cur
                I.e.prove('C18/entry/header-of-this-peptide-parsed', a[0] is st.pep.fields['description'])
                return [en.obj for en in st.entries]
            reg.func_('moPepGen/aa/VariantPeptideIdentifier.py', 'parse_variant_peptide_id', parse)

            def to_str(v):
                if isinstance(v, SymObj) and '_entry' in v.fields:
                    def h(I, v):
                        # the entry whose label is printed is the one being processed from here on
                        c._cur.current = v.fields['_entry']
                        return v.fields['_entry'].label
                    return h
                return None
            reg.str_hooks.append(to_str)

            def ctor(I, a, k):
                if a and isinstance(a[0], WildSources):
                    return a[0]
                if a:
                    raise Unsupported(f'VariantSourceSet({a[0]!r})')
                return GhostSources(c, I)
            reg.ctor_('VariantSourceSet', ctor)
            reg.set_hooks.append(lambda v: (lambda I, v: v) if isinstance(v, VarList) else None)
            def freeze(I, g):
                g.frozen_at = g.added
                return FrozenKey(g)
            reg.set_hooks.append(lambda v: freeze if isinstance(v, GhostSources) else None)

            def get_source(I, o, a, k):
                I.e.prove('C18/entry/source-looked-up-in-the-given-label-map', o is c._cur.label_map)
                if not (isinstance(a[0], GeneKey) and isinstance(a[1], VarTok)):
                    raise Unsupported(f'get_source{tuple(a)!r}')
                return SrcVal(SRC(a[0].term, a[1].term))
            reg.method_('LabelSourceMapping', 'get_source', get_source)
        return (inst,)

    # ---- for var_id in _ids
    def _ghost(self, env):
        return env['info'].fields['sources']

    def on_init(self, I, env):
        st = self._cur
        st.at_entry = self._ghost(env).added
        st.seen = _pred_empty(I.e, VarS, 'seen')

    def havoc(self, I, env, k):
        st = self._cur
        self._ghost(env).added = _pred(I.e, 'in_sources', SrcS)
        st.seen = _pred(I.e, 'seen', VarS)

    def inv(self, I, env, k):
        st, gh, g = self._cur, self._ghost(env), env['gene_id']
        v, s = z3.Const('v_inv', VarS), z3.Const('s_inv', SrcS)
        return [('every-variant-seen-so-far-contributed-its-source', z3.ForAll([v], z3.Implies(st.seen(v), gh.added(src_of(g.term, v))))),
                ('sources-are-only-added', z3.ForAll([s], z3.Implies(st.at_entry(s), gh.added(s))))]

    def on_head(self, I, env, k):
        st, ids = self._cur, env['_ids']
        v = z3.Const('v_head', VarS)
        I.e.assume(z3.Implies(k == ids.length(), z3.ForAll([v], z3.Implies(ids.member(v), st.seen(v)))))

    def step(self, I, env, k):
        st = self._cur
        st.seen = _pred_with(I.e, st.seen, env['var_id'].term, VarS, 'seen')
        return []

    @property
    def loops(self):
        return {2: LoopSpec(inv=self.inv, havoc=self.havoc, on_init=self.on_init, on_head=self.on_head, step=self.step)}

    def post_return(self, I, st, ret):
        e = I.e
        ok = isinstance(ret, list) and len(ret) == len(st.entries)
        e.prove('C18/entry/one-record-per-header-entry', ok)
        if not ok:
            return
        for en, info in zip(st.entries, ret):
            kind = en.kind
            src = info.fields['sources']
            gh = src.key.ghost if isinstance(src, WildSources) else src
            good = isinstance(gh, GhostSources) and gh.entry is en and info.fields['original_label'] is en.label
            e.prove(f'C18/entry/{kind}/record-carries-the-label-and-sources-of-its-own-entry', good)
            if not good:
                continue
            v = z3.Const('v_post', VarS)
            for n, (g, comp) in enumerate(en.comps):
                e.prove(f'C18/entry/{kind}/every-variant-the-entry-names-contributes-its-source/{comp.name.rstrip("0123456789")}',
                        z3.ForAll([v], z3.Implies(comp.member(v), gh.added(src_of(g.term, v)))))
            if en.orf:
                e.prove(f'C18/entry/{kind}/orf-entry-has-the-NovelORF-source', gh.added(INTERNAL(INTERNAL_CODES['NovelORF'])))
            e.prove(f'C18/entry/{kind}/wildcard-map-consulted-with-the-complete-source-set', gh.frozen_at is gh.added)
            if isinstance(src, WildSources):
                e.prove(f'C18/entry/{kind}/wildcard-replacement-is-that-of-the-entrys-own-set', src.key.pred is gh.added)


GROUP = z3.Function('group_of_source', SrcS, SrcS)


@register
class SourceSetAdd(Contract):
    """VariantSourceSet.add stores the group of the source when the source is grouped, the source itself otherwise, and only a
    source that has a level; this is the add the header-entry contract (FromVariantPeptide) counts on"""
    path, qualname, props = VPL, 'VariantSourceSet.add', ('C18',)
    declared_raises = ['ValueError']

    def setup(self, I):
        e = I.e
        st = types.SimpleNamespace(stored=[])
        st.elem = e.const('source', SrcS)
        st.known = z3.Function('source_has_a_level', SrcS, B_)
        st.grouped = z3.Function('source_is_grouped', SrcS, B_)
        term = lambda x: x.term if isinstance(x, SrcVal) else None
        levels = types.SimpleNamespace(sym_contains=lambda I2, item: st.known(term(item)))
        gm = types.SimpleNamespace(sym_contains=lambda I2, item: st.grouped(term(item)),
                                   sym_getitem=lambda I2, item: SrcVal(GROUP(term(item))))
        st.with_map = e.branch(e.bool('group_map_given'), 'group map')
        st.self = SymObj('VariantSourceSet', levels_map=levels)
        st.args = [st.self, SrcVal(st.elem)]
        st.kwargs = dict(group_map=gm) if st.with_map else {}
        self._cur = st
        return st

    @property
    def models(self):
        c = self

        def inst(reg):
            def set_add(I, o, a, k):
                c._cur.stored.append(a[0])
            reg.method_('set', 'add', set_add)
        return (inst,)

    def want(self, st):
        return z3.If(st.grouped(st.elem), GROUP(st.elem), st.elem) if st.with_map else st.elem

    def post_return(self, I, st, ret):
        e = I.e
        ok = len(st.stored) == 1 and isinstance(st.stored[0], SrcVal)
        e.prove('C18/sources.add/exactly-one-element-stored', ok)
        if ok:
            e.prove('C18/sources.add/stores-the-group-of-a-grouped-source-else-the-source', st.stored[0].term == self.want(st))
            e.prove('C18/sources.add/stored-source-has-a-level', st.known(st.stored[0].term))

    def post_raise(self, I, st, exc):
        I.e.prove('C18/sources.add/rejected-only-without-a-level-and-nothing-stored', z3.And(z3.Not(st.known(self.want(st))), len(st.stored) == 0))


@register
class SourceSetGreater(Contract):
    """the order that ranks header entries: a source set is greater than another iff they differ and it has more level numbers, or
    equally many and the sorted level numbers are lexicographically greater (so the smallest set - fewest, highest-priority sources -
    sorts first and is the one split() takes)"""
    path, qualname, props = VPL, 'VariantSourceSet.__gt__', ('C18',)
    assumptions = ('to_int() returns the sorted level numbers of the set: its own contract (ToInt, contracts/c18c.py), used here as an uninterpreted result',)

    def setup(self, I):
        e = I.e
        st = types.SimpleNamespace()
        st.n, st.m = e.int('n_levels_self'), e.int('n_levels_other')
        e.assume(z3.And(st.n >= 0, st.m >= 0))
        st.A, st.B = e.array('levels_self'), e.array('levels_other')
        st.same = e.bool('sets_are_equal')
        st.self, st.other = SymObj('VariantSourceSet', which=0), SymObj('VariantSourceSet', which=1)
        st.args = [st.self, st.other]
        self._cur = st
        return st

    @property
    def models(self):
        c = self

        def inst(reg):
            def to_int(I, o, a, k):
                st = c._cur
                arr, n = (st.A, st.n) if o is st.self else (st.B, st.m)
                return FnView(n, lambda i: arr[i if is_z3(i) else z3.IntVal(i)], tag='levels')
            reg.method_('VariantSourceSet', 'to_int', to_int)
            reg.protocol_('VariantSourceSet', '__eq__', lambda I, a, b: c._cur.same)
        return (inst,)

    def inv(self, I, env, k):
        st = self._cur
        t = z3.Int('t_eq')
        return [('equal-so-far', z3.ForAll([t], z3.Implies(z3.And(0 <= t, t < k), st.A[t] == st.B[t])))]

    @property
    def loops(self):
        return {0: LoopSpec(inv=self.inv)}

    def post_return(self, I, st, ret):
        p, t = z3.Int('p_first_diff'), z3.Int('t_before')
        lex = z3.Exists([p], z3.And(0 <= p, p < st.n, st.A[p] > st.B[p],
                                    z3.ForAll([t], z3.Implies(z3.And(0 <= t, t < p), st.A[t] == st.B[t]))))
        want = z3.And(z3.Not(st.same), z3.Or(st.n > st.m, z3.And(st.n == st.m, lex)))
        I.e.prove('C18/order/greater-iff-more-levels-or-equally-many-and-lexicographically-greater', as_bool(I.truth(ret)) == want)


# ----------------------------------------------------------------------------
# Native side: the whole commands on the demo files
# ----------------------------------------------------------------------------
from pyvc.native import NativeCheck


def _read_fasta(path):
    out, cur = [], None
    with open(path) as fh:
        for line in fh:
            line = line.rstrip('\n')
            if line.startswith('>'):
                cur = [line[1:], '']
                out.append(cur)
            elif cur is not None:
                cur[1] += line
    return [(h, s_) for h, s_ in out]


def _entry_fields(header):
    """multiset of |-separated fields per header entry"""
    return sorted(tuple(sorted(e.split('|'))) for e in header.split(' '))


class NativeBookkeeping(NativeCheck):
    name = 'database_bookkeeping'
    props = ('C18',)
    functions = (f'{SPL}:PeptidePoolSplitter.split', f'{SPL}:PeptidePoolSplitter.add_peptide_to_database', f'{ENC}:encode_fasta',
                 f'{ENC}:get_real_header', f'{MRG}:merge_fasta')
    bounded_for = ('conservation through the real commands: every input peptide in exactly one split database with unchanged sequence and the '
                   'same header-entry fields (the header parser/printer round trip is not proved); summarizeFasta totals = number of peptides '
                   'and = split database sizes; merge = union; encode + dictionary restore every header')
    bound = ('demo peptide FASTAs (test/files/peptides: variant, novel ORF, alt translation) with the five demo GVFs; option lattice: '
             'max-source-groups 1-3 x order-source none/custom x group-source none/one group x additional-split none/one set; '
             'decoy prefix/suffix for encode; quick 8 configurations, thorough 36')
    quick_budget_s = 120
    thorough_budget_s = 600

    def cases(self, rng, tier):
        cfgs = []
        for mg in (1, 2, 3):
            for order in (None, 'gSNP,gINDEL,RNAEditingSite,Fusion,circRNA,NovelORF,SECT,CodonReassign'):
                for group in (None, ['Coding:gSNP,gINDEL']):
                    for add in (None, ['gSNP-gINDEL'], ['gSNP-RNAEditingSite']):
                        cfgs.append(dict(max_source_groups=mg, order_source=order if not group else None, group_source=group, additional_split=add))
        rng.shuffle(cfgs)
        for c_ in cfgs[:8 if tier != 'thorough' else 36]:
            yield c_

    def check(self, inp):
        import argparse, tempfile, shutil, os
        from pathlib import Path
        from moPepGen import cli
        data = Path(os.environ.get('PYVC_REPO', '/repo')) / 'test' / 'files'
        d = Path(tempfile.mkdtemp(prefix='verif_c18_'))
        try:
            gvfs = [data / 'vep/vep_gSNP.gvf', data / 'vep/vep_gINDEL.gvf', data / 'reditools/reditools.gvf', data / 'fusion/star_fusion.gvf',
                    data / 'circRNA/circ_rna.gvf']
            fastas = dict(variant_peptides=data / 'peptides/variant.fasta', novel_orf_peptides=data / 'peptides/novel_orf.fasta',
                          alt_translation_peptides=data / 'peptides/alt_translation.fasta')
            common = dict(gvf=gvfs, annotation_gtf=data / 'annotation.gtf', proteome_fasta=data / 'translate.fasta', reference_source=None,
                          index_dir=None, quiet=True, order_source=inp['order_source'], group_source=inp['group_source'], **fastas)
            args = argparse.Namespace(command='splitFasta', max_source_groups=inp['max_source_groups'], additional_split=inp['additional_split'],
                                      output_prefix=d / 'split' / 'db', **common)
            (d / 'split').mkdir()
            try:
                cli.split_fasta(args)
            except ValueError as ex:
                # an option set that names a source which was grouped away is rejected by the command itself
                return None if 'order' in str(ex).lower() or 'source' in str(ex).lower() or 'level' in str(ex).lower() else dict(call=f'splitFasta {inp}', observed=str(ex), expected='completes', signature='split-raises')
            inputs = {}
            for f in fastas.values():
                for h, s_ in _read_fasta(f):
                    inputs.setdefault(s_, []).append(h)
            seen = {}
            sizes = {}
            for f in sorted((d / 'split').glob('db_*.fasta')):
                recs = _read_fasta(f)
                sizes[f.name[3:-6]] = len(recs)
                for h, s_ in recs:
                    if s_ in seen:
                        return dict(call=f'splitFasta {inp}', observed=f'{s_} in {seen[s_]} and {f.name}', expected='exactly one database', signature='peptide-in-two-databases')
                    seen[s_] = f.name
                    if s_ not in inputs:
                        return dict(call=f'splitFasta {inp}', observed=f'{s_} in {f.name}', expected='an input sequence', signature='sequence-changed')
                    want = sorted(x for h0 in inputs[s_] for x in _entry_fields(h0))
                    if _entry_fields(h) != want:
                        return dict(call=f'splitFasta {inp}: header of {s_}', observed=h, expected=' '.join(inputs[s_]), signature='header-entries-changed')
            if set(seen) != set(inputs):
                return dict(call=f'splitFasta {inp}', observed=f'{len(seen)} peptides written', expected=f'{len(inputs)} input peptides', signature='peptides-lost')
            # summarize: totals add up and agree with the split databases (no additional split / max groups 1 comparable key space)
            sargs = argparse.Namespace(command='summarizeFasta', cleavage_rule='trypsin', output_path=d / 'summary.txt', output_image=None,
                                       ignore_missing_source=False, **common)
            cli.summarize_fasta(sargs)
            rows = [l.rstrip('\n').split('\t') for l in open(d / 'summary.txt') if l.strip()]
            head, body = rows[0], rows[1:]
            tot_col = [i for i, c_ in enumerate(head) if c_.lower() in ('n_total', 'total', 'n_peptides')]
            if tot_col:
                total = sum(int(r[tot_col[0]]) for r in body)
                if total != len(inputs):
                    return dict(call=f'summarizeFasta {inp}', observed=f'totals add up to {total}', expected=f'{len(inputs)} peptides', signature='summary-total')
                # per-source-set counts agree with the sizes of the split databases (same options, no additional split)
                if inp['additional_split'] is None:
                    remaining = 0
                    for r in body:
                        key, n_ = r[0], int(r[tot_col[0]])
                        if len(key.split('-')) <= inp['max_source_groups']:
                            if n_ != sizes.get(key, 0):
                                return dict(call=f'summarizeFasta vs splitFasta {inp}: {key}', observed=f'summary {n_}, database {sizes.get(key, 0)}',
                                            expected='equal', signature='summary-disagrees-with-split')
                        else:
                            remaining += n_
                    if remaining != sizes.get('Remaining', 0):
                        return dict(call=f'summarizeFasta vs splitFasta {inp}: Remaining', observed=f'summary {remaining}, database {sizes.get("Remaining", 0)}',
                                    expected='equal', signature='summary-disagrees-with-split')
            # merge = union
            margs = argparse.Namespace(command='mergeFasta', input_path=list(fastas.values()), output_path=d / 'merged.fasta', dedup_header=False, quiet=True)
            cli.merge_fasta(margs)
            merged = _read_fasta(d / 'merged.fasta')
            if sorted(s_ for _, s_ in merged) != sorted(inputs):
                return dict(call='mergeFasta', observed=f'{len(merged)} records', expected=f'union of {len(inputs)} sequences, each once', signature='merge-not-union')
            for h, s_ in merged:
                if sorted(h.split(' ')) != sorted(e for h0 in inputs[s_] for e in h0.split(' ')):
                    return dict(call=f'mergeFasta header of {s_}', observed=h, expected=' '.join(inputs[s_]), signature='merge-header')
            # merge of databases whose entries differ only by the trailing counter / share text: every entry is still kept
            syn = [[('ENST0001.1|SNV-100-A-T|12', 'MKPEPTIDER'), ('ENST0004.1|ENSG0004.1|ORF1|21', 'AAAPEPK')],
                   [('ENST0001.1|SNV-100-A-T|1', 'MKPEPTIDER'), ('ENST0004.1|ENSG0004.1|ORF1|2', 'AAAPEPK'), ('ENST0001.1|SNV-100-A-T|1', 'QQQR')],
                   [('ENST0001.1|SNV-100-A-T', 'MKPEPTIDER'), ('ENST0001.1|SNV-100-A-T|1', 'QQQR')]]
            spaths = []
            for i, recs in enumerate(syn):
                spaths.append(d / f'syn_{i}.fasta')
                with open(spaths[-1], 'w') as fh:
                    for h, s_ in recs:
                        fh.write(f'>{h}\n{s_}\n')
            cli.merge_fasta(argparse.Namespace(command='mergeFasta', input_path=spaths, output_path=d / 'syn_merged.fasta', dedup_header=False, quiet=True))
            want = {}
            for recs in syn:
                for h, s_ in recs:
                    want.setdefault(s_, []).append(h)
            got = dict((s_, h) for h, s_ in _read_fasta(d / 'syn_merged.fasta'))
            for s_, hs in want.items():
                if sorted(got.get(s_, '').split(' ')) != sorted(hs):
                    return dict(call=f'mergeFasta of {syn}: header of {s_}', observed=got.get(s_), expected=' '.join(hs), signature='merge-header-entry-dropped')
            # the same with --dedup-header: of the entries of a peptide the first with each text before the index stays, nothing else goes
            # (one label being contained in another, longer one must not matter)
            dsyn = [[('ENST0001.1|SNV-100-A-T|SNV-110-G-C|2', 'MKPEPTIDER'), ('FUSION-ENST0002.1:10-ENST0003.1:20|SNV-5-A-T|1', 'GGGK'), ('ENST0005.1|INDEL-20-A-AT|3', 'TTTK')],
                    [('ENST0001.1|SNV-100-A-T|5', 'MKPEPTIDER'), ('FUSION-ENST0002.1:10-ENST0003.1:20|4', 'GGGK'), ('ENST0005.1|INDEL-20-A-A|1', 'TTTK')],
                    [('ENST0001.1|SNV-100-A-T|7', 'MKPEPTIDER'), ('ENST0001.1|SNV-100-A-T|SNV-110-G-C|9', 'MKPEPTIDER')]]
            dpaths = []
            for i, recs in enumerate(dsyn):
                dpaths.append(d / f'dsyn_{i}.fasta')
                with open(dpaths[-1], 'w') as fh:
                    for h, s_ in recs:
                        fh.write(f'>{h}\n{s_}\n')
            cli.merge_fasta(argparse.Namespace(command='mergeFasta', input_path=dpaths, output_path=d / 'dsyn_merged.fasta', dedup_header=True, quiet=True))
            dwant = {}
            for recs in dsyn:
                for h, s_ in recs:
                    lst = dwant.setdefault(s_, [])
                    if h.rsplit('|', 1)[0] not in [x.rsplit('|', 1)[0] for x in lst]:
                        lst.append(h)
            dgot = dict((s_, h) for h, s_ in _read_fasta(d / 'dsyn_merged.fasta'))
            for s_, hs in dwant.items():
                if dgot.get(s_, '').split(' ') != hs:
                    return dict(call=f'mergeFasta --dedup-header of {dsyn}: header of {s_}', observed=dgot.get(s_), expected=' '.join(hs), signature='dedup-header-entry-dropped')
            # encode + dictionary restores every header (with a decoy copy of every record)
            for pos in ('prefix', 'suffix'):
                src = d / f'td_{pos}.fasta'
                with open(src, 'w') as fh:
                    for h, s_ in merged[:40]:
                        fh.write(f'>{h}\n{s_}\n')
                        dh = ('DECOY_' + h) if pos == 'prefix' else (h + '_DECOY')
                        fh.write(f'>{dh}\n{s_[::-1]}\n')
                eargs = argparse.Namespace(command='encodeFasta', input_path=src, output_path=d / f'enc_{pos}.fasta',
                                           decoy_string='DECOY_' if pos == 'prefix' else '_DECOY', decoy_string_position=pos, quiet=True)
                cli.encode_fasta(eargs)
                mp = dict(l.rstrip('\n').split('\t', 1) for l in open(str(d / f'enc_{pos}.fasta') + '.dict'))
                enc = _read_fasta(d / f'enc_{pos}.fasta')
                orig = _read_fasta(src)
                if len(enc) != len(orig):
                    return dict(call=f'encodeFasta {pos}', observed=len(enc), expected=len(orig), signature='encode-count')
                for (eh, es), (oh, os_) in zip(enc, orig):
                    ds = eargs.decoy_string
                    if pos == 'prefix':
                        rest = (ds + mp.get(eh[len(ds):], '?')) if eh.startswith(ds) else mp.get(eh, '?')
                    else:
                        rest = (mp.get(eh[:-len(ds)], '?') + ds) if eh.endswith(ds) else mp.get(eh, '?')
                    if rest != oh or es != os_:
                        return dict(call=f'encodeFasta {pos}: restoring {eh}', observed=rest, expected=oh, signature='encode-not-restored')
        finally:
            shutil.rmtree(d, ignore_errors=True)
        return None

    def nontrivial(self, inp):
        return str(inp)


# ----------------------------------------------------------------------------
# header text -> typed identifiers (parse_variant_peptide_id)
# ----------------------------------------------------------------------------
VPI = 'moPepGen/aa/VariantPeptideIdentifier.py'
PREFIXES = ['FUSION', 'CI', 'CIRC', 'ORF', '1-', '2-', 'W2F', 'SECT', 'SNV', 'INDEL', 'MNV', 'RES', 'SE', 'RI', 'A3SS', 'A5SS', 'MXE']
ALT_P, CTBV_P = ['W2F', 'SECT'], ['SNV', 'INDEL', 'MNV', 'RES', 'SE', 'RI', 'A3SS', 'A5SS', 'MXE', 'W2F', 'SECT']


class _Field:
    """the j-th '|'-separated field of a header entry"""
    def __init__(self, owner, j, rest_of=None):
        self.owner, self.j, self.rest_of = owner, j, rest_of

    def sym_method(self, I, name, a, k):
        st = self.owner._cur
        if name == 'startswith' and len(a) == 1 and isinstance(a[0], str):
            if a[0] not in PREFIXES:
                raise Unsupported(f'prefix {a[0]!r}')
            return st.PRE(self.j, PREFIXES.index(a[0]))
        if name == 'split' and list(a) == ['-', 1]:
            return (_Which(self.owner, self.j), _Field(self.owner, self.j, rest_of=self))
        raise Unsupported(f'field.{name}{tuple(a)!r}')

    def sym_int(self, I):
        st = self.owner._cur
        if not I.e.branch(st.is_num(self.j), 'numeric field'):
            I.raise_('ValueError', 'invalid literal for int()')
        return st.num(self.j)

    def sym_contains(self, I, item):
        raise Unsupported('substring test on a field')

    def __repr__(self):
        return f'Field({self.j}{"" if self.rest_of is None else ", rest"})'


class _Which:
    def __init__(self, owner, j):
        self.owner, self.j = owner, j

    def sym_int(self, I):
        st = self.owner._cur
        return z3.If(st.PRE(self.j, PREFIXES.index('1-')), 1, 2)


class _Fields:
    """it.split('|'): n fields; pop() removes the last one"""
    def __init__(self, owner):
        self.owner = owner
        self.popped = False

    def n(self):
        st = self.owner._cur
        return st.n - 1 if self.popped else st.n

    def sym_getitem(self, I, idx):
        st = self.owner._cur
        if idx == -1:
            return _Field(self.owner, self.n() - 1)
        if isinstance(idx, int) and idx >= 0:
            if not I.e.branch(self.n() > idx, 'index<len'):
                I.raise_('IndexError', 'list index out of range')
            return _Field(self.owner, z3.IntVal(idx))
        raise Unsupported(f'fields[{idx!r}]')

    def sym_method(self, I, name, a, k):
        if name == 'pop' and not a:
            self.popped = True
            return None
        raise Unsupported(f'fields.{name}')

    def sym_len(self, I):
        return self.n()

    def sym_view(self, I):
        return FnView(self.n(), lambda j: _Field(self.owner, j if is_z3(j) else z3.IntVal(j)), tag='fields')


class _GhostIds:
    """a list of variant ids: membership predicate over field positions; only appended to"""
    def __init__(self, I, name):
        self.name = name
        self.mem = z3.Function(I.e.fresh_name(f'in_{name}'), I_, B_)
        j = z3.Int('j_e')
        I.e.assume(z3.ForAll([j], z3.Not(self.mem(j))))

    def fresh(self, I):
        self.mem = z3.Function(I.e.fresh_name(f'in_{self.name}'), I_, B_)

    def add(self, I, j):
        new = z3.Function(I.e.fresh_name(f'in_{self.name}'), I_, B_)
        x = z3.Int('x_add')
        I.e.assume(z3.ForAll([x], new(x) == z3.Or(self.mem(x), x == j)))
        self.mem = new

    def sym_method(self, I, name, a, k):
        if name == 'append' and isinstance(a[0], _Field):
            self.add(I, a[0].j)
            return None
        raise Unsupported(f'{self.name}.{name}')

    def sym_binop(self, I, op, other, reflected):
        if op != '+':
            return NotImplemented
        parts = [self] + (other.parts if isinstance(other, _IdUnion) else [other] if isinstance(other, _GhostIds) else None if other != [] else [])
        return _IdUnion(parts[::-1] if reflected else parts)


class _IdUnion:
    def __init__(self, parts):
        self.parts = parts

    def sym_binop(self, I, op, other, reflected):
        if op != '+':
            return NotImplemented
        o = other.parts if isinstance(other, _IdUnion) else [other] if isinstance(other, _GhostIds) else [] if other == [] else None
        if o is None:
            return NotImplemented
        return _IdUnion(o + self.parts if reflected else self.parts + o)

    def mem(self, j):
        return z3.Or(*[p.mem(j) for p in self.parts]) if self.parts else z3.BoolVal(False)


class _VarIds:
    """var_ids: which side (0 = peptide level, 1, 2) -> list of ids"""
    def __init__(self, I):
        self.lists = {w: _GhostIds(I, f'var_ids_{w}') for w in (0, 1, 2)}
        self.present = {w: z3.BoolVal(False) for w in (0, 1, 2)}

    def havoc(self, I):
        for w in (0, 1, 2):
            self.lists[w].fresh(I)
            self.present[w] = I.e.bool(f'var_ids_has_{w}')

    def pick(self, I, key):
        if isinstance(key, int):
            return key
        for w in (0, 1):
            if I.e.branch(key == w, f'side=={w}'):
                return w
        I.e.assume(key == 2)
        return 2

    def sym_contains(self, I, key):
        return self.present[self.pick(I, key)]

    def sym_getitem(self, I, key):
        return self.lists[self.pick(I, key)]

    def sym_setitem(self, I, key, val):
        w = self.pick(I, key)
        if not (isinstance(val, list) and len(val) == 1 and isinstance(val[0], _Field)):
            raise Unsupported('var_ids[...] = something else than a one-element list')
        self.lists[w].fresh(I)
        x = z3.Int('x_set')
        I.e.assume(z3.ForAll([x], self.lists[w].mem(x) == (x == val[0].j)))
        self.present[w] = z3.BoolVal(True)

    def sym_truth(self, I):
        return z3.Or(*self.present.values())

    def sym_method(self, I, name, a, k):
        if name == 'get' and isinstance(a[0], int):
            return self.lists[a[0]]
        if name == 'values':
            return _IdUnion(list(self.lists.values()))
        raise Unsupported(f'var_ids.{name}')


@register
class ParseHeader(Contract):
    """every '|'-separated field of a header entry ends up in exactly one slot of the identifier built for it: the trailing number is the
    index; a FUSION- / CIRC- / CI- field may only come first and is the backbone; an ORF field is the ORF id; in a fusion entry a field
    '1-x' / '2-x' gives x to the donor / acceptor side and any other field is a peptide-level variant; elsewhere a W2F / SECT field is an
    alt-translation label and a field with a variant prefix a variant id; an entry without variant ids but with an ORF id is a novel-ORF
    entry whose second field is the gene id; otherwise the first field is the transcript. A field matching none of these is dropped
    (none such in the headers the calling commands emit: bounded check header_round_trip)"""
    path, qualname, props = VPI, 'parse_variant_peptide_id', ('C18', 'C19')
    declared_raises = ['ValueError', 'IndexError']
    cover_any = True
    max_paths = 6000
    assumptions = ('assumed: str.startswith for the fixed prefixes is consistent (a field starting with CIRC starts with CI, with SECT starts with SE; '
                   'prefixes none of which extends the other exclude each other); int() of a field succeeds iff the field is a number',
                   'iteration axiom: a for loop over the fields visits every field once, in order')

    def setup(self, I):
        e = I.e
        st = types.SimpleNamespace(made=[])
        st.n = e.int('n_fields')
        e.assume(st.n >= 1)
        st.PRE = z3.Function('field_starts_with', I_, I_, B_)
        st.is_num, st.num = z3.Function('field_is_a_number', I_, B_), z3.Function('field_as_number', I_, I_)
        j = z3.Int('j_pre')
        ax = []
        for a_, pa in enumerate(PREFIXES):
            for b_, pb in enumerate(PREFIXES):
                if a_ == b_:
                    continue
                if pb.startswith(pa):
                    ax.append(z3.Implies(st.PRE(j, b_), st.PRE(j, a_)))
                elif not pa.startswith(pb) and a_ < b_:
                    ax.append(z3.Not(z3.And(st.PRE(j, a_), st.PRE(j, b_))))
        e.assume(z3.ForAll([j], z3.And(*ax)))
        st.fields = None
        c = self

        class Entry:
            def sym_method(s_, I2, name, a, k):
                if name == 'split' and list(a) == ['|']:
                    st.fields = _Fields(c)
                    return st.fields
                raise Unsupported(f'entry.{name}')

        class Label:
            def sym_method(s_, I2, name, a, k):
                if name == 'split' and list(a) == [' ']:
                    n = I2.e.int('n_entries')
                    I2.e.assume(n >= 1)
                    return FnView(n, lambda i: Entry(), tag='entries')
                raise Unsupported(f'label.{name}')
        st.coding = types.SimpleNamespace(sym_contains=lambda I2, item: I2.e.bool('backbone_is_a_coding_transcript'))
        st.args = [Label(), st.coding]
        self._cur = st
        return st

    def P(self, j, name):
        return self._cur.PRE(j, PREFIXES.index(name))

    def kinds(self, j):
        P = self.P
        fus, circ, orf = P(j, 'FUSION'), z3.Or(P(j, 'CI'), P(j, 'CIRC')), P(j, 'ORF')
        alt = z3.Or(*[P(j, x) for x in ALT_P])
        ctbv = z3.Or(*[P(j, x) for x in CTBV_P])
        return fus, circ, orf, alt, ctbv

    @property
    def models(self):
        c = self

        def inst(reg):
            def mk(cls):
                def ctor(I, a, k):
                    o = SymObj(cls, **k)
                    c._cur.made.append(o)
                    return o
                return ctor
            for cls in ('NovelORFPeptideIdentifier', 'FusionVariantPeptideIdentifier', 'CircRNAVariantPeptideIdentifier', 'BaseVariantPeptideIdentifier'):
                reg.ctor_(cls, mk(cls))
            # sum(var_ids.values(), []): the union of the three lists
            reg.sum_hooks.append(lambda I, v, start=None: v if isinstance(v, _IdUnion) else None)
        return (inst,)

    # ---- loop 1: the fields of one entry
    def init1(self, I, env):
        st = self._cur
        st.var_ids, st.alt = _VarIds(I), _GhostIds(I, 'alt_ids')
        env['var_ids'], env['alt_ids'] = st.var_ids, st.alt

    def havoc1(self, I, env, k):
        st = self._cur
        st.var_ids.havoc(I)
        st.alt.fresh(I)
        env['var_ids'], env['alt_ids'] = st.var_ids, st.alt
        # type, backbone and ORF id found so far: decided by the fields seen; kept symbolic through flags
        st.t_fus, st.t_circ = I.e.bool('type_is_fusion'), I.e.bool('type_is_circ')
        I.e.assume(z3.Not(z3.And(st.t_fus, st.t_circ)))
        if I.e.branch(st.t_fus, 'type fusion so far'):
            env['IdentifierType'] = st.cls_fus
            env['backbone_id'] = _Field(self, z3.IntVal(0))
        elif I.e.branch(st.t_circ, 'type circ so far'):
            env['IdentifierType'] = st.cls_circ
            env['backbone_id'] = _Field(self, z3.IntVal(0))
        else:
            env['IdentifierType'] = None
            env['backbone_id'] = None
        st.orf_j = I.e.int('orf_field')
        env['orf_id'] = _Field(self, st.orf_j) if I.e.branch(I.e.bool('orf_seen'), 'orf seen') else None
        st.orf_seen = env['orf_id'] is not None

    def typ(self, env):
        st = self._cur
        t = env['IdentifierType']
        nm = getattr(t, 'name', None)
        return 'fus' if nm == 'FusionVariantPeptideIdentifier' else 'circ' if nm == 'CircRNAVariantPeptideIdentifier' else None

    def inv1(self, I, env, k):
        """what has been filed after the first k fields"""
        st = self._cur
        j = z3.Int('j_inv')
        fus, circ, orf, alt, ctbv = self.kinds(j)
        t = self.typ(env)
        first_is = {'fus': self.P(z3.IntVal(0), 'FUSION'), 'circ': z3.And(z3.Not(self.P(z3.IntVal(0), 'FUSION')), z3.Or(self.P(z3.IntVal(0), 'CI'), self.P(z3.IntVal(0), 'CIRC')))}
        rng = z3.And(0 <= j, j < k)
        back = z3.Or(fus, circ)
        items = []
        if t is None:
            items.append(('untyped-so-far=>no-backbone-prefix-seen', z3.ForAll([j], z3.Implies(rng, z3.Not(back)))))
        else:
            items.append(('typed=>first-field-is-the-backbone', z3.And(k >= 1, first_is[t], env['backbone_id'].j == 0) if isinstance(env['backbone_id'], _Field) else False))
            items.append(('no-second-backbone-field', z3.ForAll([j], z3.Implies(z3.And(1 <= j, j < k), z3.Not(back)))))
        oid = env['orf_id']
        if oid is None:
            items.append(('no-orf-field-seen', z3.ForAll([j], z3.Implies(rng, z3.Or(back, z3.Not(orf))))))
        else:
            items.append(('orf-id=last-orf-field-seen', z3.And(0 <= oid.j, oid.j < k, self.P(oid.j, 'ORF'), z3.Not(z3.Or(*self.kinds(oid.j)[:2])),
                                                                 z3.ForAll([j], z3.Implies(z3.And(oid.j < j, j < k), z3.Or(back, z3.Not(orf)))))))
        V, A = st.var_ids, st.alt
        plain = z3.And(rng, z3.Not(back), z3.Not(orf))
        if t == 'fus':
            side = lambda w: z3.If(self.P(j, '1-'), 1, z3.If(self.P(j, '2-'), 2, 0)) == w
            for w in (0, 1, 2):
                items.append((f'fusion-side-{w}-list=fields-of-that-side', z3.ForAll([j], V.lists[w].mem(j) == z3.And(plain, j >= 1, side(w)))))
            items.append(('no-alt-labels-filed-separately-in-a-fusion', z3.ForAll([j], z3.Not(A.mem(j)))))
        else:
            lo = 1 if t == 'circ' else 0
            items.append(('alt-list=alt-translation-fields', z3.ForAll([j], A.mem(j) == z3.And(plain, j >= lo, alt))))
            items.append(('variant-list=variant-prefix-fields', z3.ForAll([j], V.lists[1].mem(j) == z3.And(plain, j >= lo, z3.Not(alt), ctbv))))
            items.append(('other-sides-unused', z3.ForAll([j], z3.And(z3.Not(V.lists[0].mem(j)), z3.Not(V.lists[2].mem(j))))))
        for w in (0, 1, 2):
            items.append((f'side-{w}-present-iff-non-empty', V.present[w] == z3.Exists([j], V.lists[w].mem(j))))
        return items

    @property
    def loops(self):
        T = lambda I, env, k: []
        # `variant_ids` (the list returned) only collects the identifiers whose construction step0 checks: its content is not used
        return {0: LoopSpec(inv=T, havoc=lambda I, env, k: None, on_head=self.head0, step=self.step0, target_after='unknown', keep=('variant_ids',)),
                1: LoopSpec(inv=self.inv1, on_init=self.init1, havoc=self.havoc1, target_after='unknown')}

    def head0(self, I, env, k):
        st = self._cur
        st.m = len(st.made)
        st.cls_fus, st.cls_circ = I.eval(__import__('ast').parse('FusionVariantPeptideIdentifier', mode='eval').body, env), \
            I.eval(__import__('ast').parse('CircRNAVariantPeptideIdentifier', mode='eval').body, env)

    def step0(self, I, env, k):
        st = self._cur
        made = st.made[st.m:]
        items = [('one-identifier-per-entry', len(made) == 1)]
        if len(made) != 1:
            return items
        o = made[0]
        n = st.fields.n()
        j = z3.Int('j_post')
        fus, circ, orf, alt, ctbv = self.kinds(j)
        back = z3.Or(fus, circ)
        rng = z3.And(0 <= j, j < n)
        plain = z3.And(rng, z3.Not(back), z3.Not(orf))
        mem = lambda v, jj: v.mem(jj) if isinstance(v, (_GhostIds, _IdUnion)) else z3.BoolVal(False)
        f = o.fields
        idx_ok = (f.get('index') is None) == (not st.fields.popped)
        items.append(('index=trailing-number-if-any', idx_ok))
        if o.cls == 'FusionVariantPeptideIdentifier':
            side = lambda w: z3.If(self.P(j, '1-'), 1, z3.If(self.P(j, '2-'), 2, 0)) == w
            items.append(('fusion/backbone=first-field', (f['fusion_id'].j == 0) if isinstance(f['fusion_id'], _Field) else False))
            for w, nm in ((1, 'first_variants'), (2, 'second_variants'), (0, 'peptide_variants')):
                items.append((f'fusion/{nm}=exactly-the-fields-of-that-side', z3.ForAll([j], mem(f[nm], j) == z3.And(plain, j >= 1, side(w)))))
        elif o.cls in ('CircRNAVariantPeptideIdentifier', 'BaseVariantPeptideIdentifier'):
            lo = 1 if o.cls.startswith('Circ') else 0
            key = 'circ_rna_id' if o.cls.startswith('Circ') else 'transcript_id'
            items.append((f'{o.cls[:4].lower()}/backbone=first-field', (f[key].j == 0) if isinstance(f[key], _Field) else False))
            items.append((f'{o.cls[:4].lower()}/variant_ids=exactly-the-variant-and-alt-translation-fields',
                          z3.ForAll([j], mem(f['variant_ids'], j) == z3.And(plain, j >= lo, z3.Or(alt, ctbv)))))
        else:
            items.append(('novel/transcript=first-field-gene=second-field', z3.And(f['transcript_id'].j == 0, True if f['gene_id'] is None else f['gene_id'].j == 1) if isinstance(f['transcript_id'], _Field) else False))
            items.append(('novel/codon_reassigns=exactly-the-alt-translation-fields', z3.ForAll([j], mem(f['codon_reassigns'], j) == z3.And(plain, alt))))
            items.append(('novel/only-without-variant-ids-and-with-an-orf-id', z3.And(z3.Not(z3.Exists([j], z3.And(plain, z3.Not(alt), ctbv))), f['orf_id'] is not None)))
        oid = f.get('orf_id')
        if oid is None:
            items.append(('no-orf-id=>no-orf-field', z3.ForAll([j], z3.Implies(rng, z3.Or(back, z3.Not(orf))))))
        else:
            items.append(('orf-id=last-orf-field', z3.And(0 <= oid.j, oid.j < n, self.P(oid.j, 'ORF'), z3.ForAll([j], z3.Implies(z3.And(oid.j < j, j < n), z3.Or(back, z3.Not(orf)))))))
        return items

    def post_raise(self, I, st, exc):
        j = z3.Int('j_bad')
        if exc.cls == 'ValueError':
            back = z3.Or(*[self.P(j, x) for x in ('FUSION', 'CI', 'CIRC')])
            I.e.prove('C18/parse/raise/only-for-a-backbone-prefix-after-the-first-field', z3.Exists([j], z3.And(1 <= j, j < st.fields.n(), back)))
        else:
            I.e.prove('C18/parse/raise/index-error-only-for-an-entry-that-is-just-a-number', st.fields.n() == 0)


SFC = 'moPepGen/cli/split_fasta.py'


class _OrderEntry:
    """one comma-separated entry of --order-source: a single source, or sources joined by '-'"""
    def __init__(self, owner, i):
        self.owner, self.i = owner, i

    def sym_contains(self, I, item):
        if item == '-':
            return self.owner._cur.multi(self.i)
        raise Unsupported('substring test on an order entry')

    def sym_method(self, I, name, a, k):
        if name == 'split' and list(a) == ['-']:
            return _OrderParts(self)
        raise Unsupported(f'order entry .{name}')


class _OrderParts:
    def __init__(self, entry):
        self.entry = entry


class _OrderKey:
    """what an entry is stored as: the entry itself (single source) or the frozenset of its parts"""
    def __init__(self, entry, as_set):
        self.entry, self.as_set = entry, as_set


class _OrderStr:
    def __init__(self, owner):
        self.owner = owner

    def sym_truth(self, I):
        return True

    def sym_method(self, I, name, a, k):
        if name == 'split' and list(a) == [',']:
            st = self.owner._cur
            return FnView(st.n_order, lambda i: _OrderEntry(self.owner, i if is_z3(i) else z3.IntVal(i)), tag='order entries')
        raise Unsupported(f'order string .{name}')


class _GhostOrder:
    def __init__(self, owner):
        self.owner = owner

    def sym_contains(self, I, item):
        return I.e.bool('entry_already_present')

    def sym_setitem(self, I, key, v):
        self.owner._cur.order_writes.append((key, v))


@register
class SplitCLI(Contract):
    """splitFasta: every given peptide FASTA is loaded into the splitter, every GVF read for its labels, the i-th entry of --order-source
    gets rank i (a combination 'A-B' as the set of its parts, a duplicate entry is an error), --group-source 'G:a,b' maps a and b to G,
    --additional-split sets are the '-'-separated parts, --max-source-groups and the transcript->gene / coding tables built from the
    annotation reach split(), and the result is written with the output prefix; only options the real parser defines are read"""
    path, qualname, props = SFC, 'split_fasta', ('C18',)
    declared_raises = ['ValueError']
    assumptions = ('external: load_references, open, load_database, load_gvf, split (own contract), write; the annotation iterates N transcripts',)

    def setup(self, I):
        e = I.e
        st = types.SimpleNamespace(loaded=[], gvfs=[], split=[], writes=[], order_writes=[], ctor=[])
        dests = parser_dests('moPepGen.cli.split_fasta', 'add_subparser_split_fasta')
        st.n_order = e.int('n_order_entries')
        st.multi = z3.Function('entry_is_a_combination', I_, B_)
        e.assume(st.n_order >= 1)
        st.has = {k: e.branch(e.bool(f'{k}_given'), k) for k in ('variant', 'novel', 'alt')}
        st.fasta = dict(variant_peptides=SymObj('Path18', n='variant') if st.has['variant'] else None,
                        novel_orf_peptides=SymObj('Path18', n='novel') if st.has['novel'] else None,
                        alt_translation_peptides=SymObj('Path18', n='alt') if st.has['alt'] else None)
        st.ngvf = e.int('n_gvf')
        e.assume(st.ngvf >= 0)
        zz = lambda i: i if is_z3(i) else z3.IntVal(i)
        st.gvf_view = FnView(st.ngvf, lambda i: SymObj('Gvf18', i=zz(i)), tag='gvf files')
        st.order_given = e.branch(e.bool('order_source_given'), 'order given')
        st.group_given = e.branch(e.bool('group_source_given'), 'group given')
        st.add_given = e.branch(e.bool('additional_split_given'), 'additional given')
        st.max_groups = e.int('max_source_groups')
        st.prefix = SymObj('Path18', n='prefix')
        known = dict(gvf=st.gvf_view, order_source=_OrderStr(self) if st.order_given else None,
                     group_source=['Coding:gSNP,gINDEL', 'Alt:SECT'] if st.group_given else None,
                     additional_split=['gSNP-gINDEL', 'Fusion'] if st.add_given else None,
                     max_source_groups=st.max_groups, output_prefix=st.prefix, **st.fasta)
        st.args_obj = real_namespace(dests, known)
        st.N = e.int('n_tx')
        e.assume(st.N >= 0)
        st.coding = z3.Function('tx_is_coding', I_, B_)
        st.tx2gene_writes, st.coding_adds = [], []
        st.args = [st.args_obj]
        self._cur = st
        return st

    @property
    def models(self):
        c = self

        def inst(reg):
            noop = lambda I, a, k: None
            reg.func_('moPepGen/cli/common.py', 'validate_file_format', noop)
            reg.func_('moPepGen/cli/common.py', 'print_start_message', noop)
            reg.strict_attr_classes = {'Namespace'}
            zz = lambda i: i if is_z3(i) else z3.IntVal(i)

            def load_refs(I, a, k):
                st = c._cur
                I.e.prove('C18/split-cli/annotation-loaded-from-the-run-arguments', (a[0] if a else k.get('args')) is st.args_obj)
                txs = FnView(st.N, lambda i: SymObj('TxId18', i=zz(i)), tag='transcripts')
                table = types.SimpleNamespace(
                    sym_view=lambda I2: txs,
                    sym_getitem=lambda I2, key: SymObj('TxModel18', transcript=SymObj('Tx18', gene_id=SymObj('GeneOf18', i=key.fields['i'])),
                                                       is_protein_coding=st.coding(key.fields['i'])))
                return (None, SymObj('Anno18', transcripts=table), None, None)
            reg.func_('moPepGen/cli/common.py', 'load_references', load_refs)
            reg.ext_('open', lambda I, a, k: SymObj('File18', path=a[0]))

            def ctor(I, a, k):
                st = c._cur
                st.ctor.append(k)
                return SymObj('Splitter18', order=SymObj('Order18'))
            reg.ctor_('PeptidePoolSplitter', ctor)
            reg.method_('Splitter18', 'load_database', lambda I, o, a, k: c._cur.loaded.append(a[0].fields['path']))
            reg.method_('Splitter18', 'load_gvf', lambda I, o, a, k: c._cur.gvfs.append(a[0].fields['path']))
            reg.method_('Splitter18', 'get_reversed_group_map', noop)
            reg.method_('Splitter18', 'split', lambda I, o, a, k: c._cur.split.append((a, k)))
            reg.method_('Splitter18', 'write', lambda I, o, a, k: c._cur.writes.append(a))
            # the order entries: '-' in val, val.split('-'), frozenset(...)
            reg.set_hooks.append(lambda v: (lambda I, v: _OrderKey(v.entry, True)) if isinstance(v, _OrderParts) else None)
        return (inst,)

    # loop 4: transcripts of the annotation -> tx2gene / coding_tx
    def havoc_tx(self, I, env, k):
        c = self

        class Tx2Gene:
            def sym_setitem(s_, I2, key, v):
                c._cur.tx2gene_writes.append((key, v))

        class Coding:
            def sym_method(s_, I2, name, a, kw):
                if name == 'add':
                    c._cur.coding_adds.append(a[0])
                    return None
                raise Unsupported(name)
        st = self._cur
        st.tx2gene, st.coding_set = Tx2Gene(), Coding()
        env['tx2gene'], env['coding_tx'] = st.tx2gene, st.coding_set

    def head_tx(self, I, env, k):
        st = self._cur
        st.mark = (len(st.tx2gene_writes), len(st.coding_adds))

    def step_tx(self, I, env, k):
        st = self._cur
        w, a = st.tx2gene_writes[st.mark[0]:], st.coding_adds[st.mark[1]:]
        okw = len(w) == 1 and w[0][0].fields['i'] is not None and z3.is_true(z3.simplify(w[0][0].fields['i'] == k)) and z3.is_true(z3.simplify(w[0][1].fields['i'] == k))
        return [('transcript-mapped-to-its-own-gene', okw),
                ('recorded-as-coding-iff-protein-coding', z3.And(len(a) <= 1, (len(a) == 1) == st.coding(k)) if True else False)]

    # loop 5: order entries
    def havoc_order(self, I, env, k):
        env['source_order'] = _GhostOrder(self)

    def head_order(self, I, env, k):
        self._cur.omark = len(self._cur.order_writes)

    def step_order(self, I, env, k):
        st = self._cur
        w = st.order_writes[st.omark:]
        ok = len(w) == 1 and isinstance(w[0][0], (_OrderKey, _OrderEntry))
        items = [('entry-stored-once', ok)]
        if ok:
            key, rank = w[0]
            ent = key.entry if isinstance(key, _OrderKey) else key
            items.append(('entry-k-gets-rank-k', z3.And(ent.i == k, rank == k)))
            items.append(('combination-stored-as-the-set-of-its-parts-else-the-source-itself', z3.BoolVal(isinstance(key, _OrderKey)) == st.multi(k)))
        return items

    @property
    def loops(self):
        T = lambda I, env, k: []
        return {0: LoopSpec(inv=T),
                2: LoopSpec(inv=T, havoc=self.havoc_tx, on_head=self.head_tx, step=self.step_tx),
                3: LoopSpec(inv=T, havoc=self.havoc_order, on_head=self.head_order, step=self.step_order),
                6: LoopSpec(inv=T, havoc=lambda I, env, k: None, on_head=lambda I, env, k: setattr(self._cur, 'gmark', len(self._cur.gvfs)),
                            step=lambda I, env, k: [('gvf-k-read-once', len(self._cur.gvfs) == self._cur.gmark + 1 and self._cur.gvfs[-1].fields['i'] is not None
                                                     and z3.is_true(z3.simplify(self._cur.gvfs[-1].fields['i'] == k)))])}

    def post_return(self, I, st, ret):
        e = I.e
        want = [v for v in (st.fasta['variant_peptides'], st.fasta['novel_orf_peptides'], st.fasta['alt_translation_peptides']) if v is not None]
        e.prove('C18/split-cli/every-given-fasta-loaded-once-and-nothing-else', len(st.loaded) == len(want) and all(a is b for a, b in zip(st.loaded, want)))
        ok = len(st.split) == 1 and len(st.writes) == 1 and len(st.ctor) == 1
        e.prove('C18/split-cli/one-splitter-split-once-and-written-once', ok)
        if not ok:
            return
        a, k = st.split[0]
        e.prove('C18/split-cli/max-source-groups-and-the-annotation-tables-reach-split',
                not a and k.get('max_groups') is st.max_groups and k.get('tx2gene') is getattr(st, 'tx2gene', k.get('tx2gene')) and k.get('coding_tx') is getattr(st, 'coding_set', k.get('coding_tx')))
        add = k.get('additional_split')
        e.prove('C18/split-cli/additional-split-sets=parts-of-each-option', add == ([{'gSNP', 'gINDEL'}, {'Fusion'}] if st.add_given else []))
        ck = st.ctor[0]
        e.prove('C18/split-cli/group-map=member->group', ck.get('group_map') == ({'gSNP': 'Coding', 'gINDEL': 'Coding', 'SECT': 'Alt'} if st.group_given else None))
        e.prove('C18/split-cli/order-passed-to-the-splitter', isinstance(ck.get('order'), _GhostOrder) if st.order_given else ck.get('order') is None)
        e.prove('C18/split-cli/written-with-the-output-prefix', st.writes[0][0] is st.prefix)

    def post_raise(self, I, st, exc):
        if exc.cls == 'AttributeError':
            I.e.prove(f'C18/split-cli/every-option-read-is-defined-by-the-parser:{exc.msg}', False)
        else:
            I.e.prove('C18/split-cli/raise/only-without-any-fasta-or-for-a-duplicate-order-entry',
                      exc.cls == 'ValueError' and (not any(st.has.values()) or st.order_given))


SMC = 'moPepGen/cli/summarize_fasta.py'


@register
class SummarizeCLI(SplitCLI):
    """summarizeFasta reads its options the way splitFasta does - the i-th --order-source entry gets rank i (a combination as the set of its
    parts, a duplicate is an error), --group-source 'G:a,b' maps a and b to G - so that both commands rank sources alike under the same
    options; every GVF is read once for its labels, the internal sources are appended to the order after the GVFs, every given FASTA is
    loaded once (variant, novel ORF, alternative translation), the transcript -> gene and coding tables of the annotation and the
    cleavage rule reach count_peptide_source, and the table is written once to the output; only options the real parser defines are read"""
    path, qualname, props = SMC, 'summarize_fasta', ('C18',)
    declared_raises = ['ValueError']
    assumptions = ('external: load_references, open, update_label_map, load_database, count_peptide_source, write_summary_table (the summarizer itself: '
                   'add_entry / append_order under contract); the annotation iterates N transcripts; no image is requested',)

    def setup(self, I):
        e = I.e
        st = types.SimpleNamespace(loaded=[], gvfs=[], split=[], writes=[], order_writes=[], ctor=[], seq=[])
        dests = parser_dests('moPepGen.cli.summarize_fasta', 'add_subparser_summarize_fasta')
        st.n_order = e.int('n_order_entries')
        st.multi = z3.Function('entry_is_a_combination', I_, B_)
        e.assume(st.n_order >= 1)
        st.has = {k: e.branch(e.bool(f'{k}_given'), k) for k in ('variant', 'novel', 'alt')}
        st.fasta = dict(variant_peptides=SymObj('Path18', n='variant') if st.has['variant'] else None,
                        novel_orf_peptides=SymObj('Path18', n='novel') if st.has['novel'] else None,
                        alt_translation_peptides=SymObj('Path18', n='alt') if st.has['alt'] else None)
        st.ngvf = e.int('n_gvf')
        e.assume(st.ngvf >= 0)
        zz = lambda i: i if is_z3(i) else z3.IntVal(i)
        st.gvf_view = FnView(st.ngvf, lambda i: SymObj('Gvf18', i=zz(i)), tag='gvf files')
        st.order_given = e.branch(e.bool('order_source_given'), 'order given')
        st.group_given = e.branch(e.bool('group_source_given'), 'group given')
        st.add_given = False
        st.rule, st.ignore = SymObj('Rule18'), e.bool('ignore_missing_source')
        st.out = SymObj('Path18', n='output')
        known = dict(gvf=st.gvf_view, order_source=_OrderStr(self) if st.order_given else None,
                     group_source=['Coding:gSNP,gINDEL', 'Alt:SECT'] if st.group_given else None, output_path=st.out, output_image=None,
                     ignore_missing_source=st.ignore, cleavage_rule=st.rule, plot_log_scale=False, plot_normal_scale=False, **st.fasta)
        st.args_obj = real_namespace(dests, known)
        st.N = e.int('n_tx')
        e.assume(st.N >= 0)
        st.coding = z3.Function('tx_is_coding', I_, B_)
        st.tx2gene_writes, st.coding_adds = [], []
        st.args = [st.args_obj]
        self._cur = st
        return st

    @property
    def models(self):
        c = self
        base = super().models

        def inst(reg):
            for m in base:
                m(reg)
            T = lambda I, env, k: []
            reg.loops_(SMC, 'validate_files', {0: LoopSpec(inv=T)})

            def ctor(I, a, k):
                c._cur.ctor.append(k)
                return SymObj('Summarizer18')
            reg.ctor_('PeptidePoolSummarizer', ctor)
            log = lambda what: (lambda I, o, a, k: c._cur.seq.append((what, list(a), dict(k))))
            reg.method_('Summarizer18', 'update_label_map', lambda I, o, a, k: (c._cur.gvfs.append(a[0].fields['path']), c._cur.seq.append(('gvf', list(a), {})))[0])
            reg.method_('Summarizer18', 'append_order_internal_sources', log('append_order_internal_sources'))
            reg.method_('Summarizer18', 'load_database', lambda I, o, a, k: (c._cur.loaded.append(a[0].fields['path']), c._cur.seq.append(('load', list(a), {})))[0])
            reg.method_('Summarizer18', 'count_peptide_source', log('count'))
            reg.method_('Summarizer18', 'write_summary_table', log('write'))
            reg.func_(SMC, 'output_context', lambda I, a, k: SymObj('OutHandle18', path=a[0]))
        return (inst,)

    @property
    def loops(self):
        T = lambda I, env, k: []
        return {0: LoopSpec(inv=T, havoc=self.havoc_tx, on_head=self.head_tx, step=self.step_tx),
                1: LoopSpec(inv=T, havoc=self.havoc_order, on_head=self.head_order, step=self.step_order),
                4: LoopSpec(inv=T, havoc=lambda I, env, k: None, on_head=lambda I, env, k: setattr(self._cur, 'gmark', len(self._cur.gvfs)),
                            step=lambda I, env, k: [('gvf-k-read-once', len(self._cur.gvfs) == self._cur.gmark + 1 and self._cur.gvfs[-1].fields['i'] is not None
                                                     and z3.is_true(z3.simplify(self._cur.gvfs[-1].fields['i'] == k)))])}

    def post_return(self, I, st, ret):
        e = I.e
        want = [v for v in (st.fasta['variant_peptides'], st.fasta['novel_orf_peptides'], st.fasta['alt_translation_peptides']) if v is not None]
        e.prove('C18/summarize-cli/every-given-fasta-loaded-once-in-the-order-variant-novel-alt', len(st.loaded) == len(want) and all(a is b for a, b in zip(st.loaded, want)))
        names = [x[0] for x in st.seq]
        ok = len(st.ctor) == 1 and names.count('count') == 1 and names.count('write') == 1 and names.count('append_order_internal_sources') == 1
        e.prove('C18/summarize-cli/one-summarizer-counted-once-and-written-once', ok)
        if not ok:
            return
        ia = names.index('append_order_internal_sources')
        e.prove('C18/summarize-cli/internal-sources-ranked-after-the-gvf-sources-and-before-any-fasta-is-loaded',
                all(i < ia for i, n in enumerate(names) if n == 'gvf') and all(i > ia for i, n in enumerate(names) if n == 'load'))
        e.prove('C18/summarize-cli/counted-after-everything-was-loaded-then-written', names.index('count') > max([i for i, n in enumerate(names) if n == 'load'] + [ia])
                and names.index('write') > names.index('count'))
        _, a, k = st.seq[names.index('count')]
        e.prove('C18/summarize-cli/annotation-tables-and-cleavage-rule-reach-count_peptide_source',
                not a and k.get('tx2gene') is getattr(st, 'tx2gene', k.get('tx2gene')) and k.get('coding_tx') is getattr(st, 'coding_set', k.get('coding_tx')) and k.get('enzyme') is st.rule)
        ck = st.ctor[0]
        e.prove('C18/summarize-cli/group-map=member->group', ck.get('group_map') == ({'gSNP': 'Coding', 'gINDEL': 'Coding', 'SECT': 'Alt'} if st.group_given else None))
        e.prove('C18/summarize-cli/order-passed-to-the-summarizer', isinstance(ck.get('order'), _GhostOrder) if st.order_given else ck.get('order') is None)
        e.prove('C18/summarize-cli/ignore-missing-source-passed-on', ck.get('ignore_missing_source') is st.ignore)
        _, wa, wk = st.seq[names.index('write')]
        e.prove('C18/summarize-cli/table-written-to-the-output-path', len(wa) == 1 and isinstance(wa[0], SymObj) and wa[0].cls == 'OutHandle18' and wa[0].fields['path'] is st.out)

    def post_raise(self, I, st, exc):
        if exc.cls == 'AttributeError':
            I.e.prove(f'C18/summarize-cli/every-option-read-is-defined-by-the-parser:{exc.msg}', False)
        else:
            I.e.prove('C18/summarize-cli/raise/only-without-any-fasta-or-for-a-duplicate-order-entry',
                      exc.cls == 'ValueError' and (not any(st.has.values()) or st.order_given))


SUM = 'moPepGen/aa/PeptidePoolSummarizer.py'


@register
class SummaryAddEntry(Contract):
    """summarizeFasta counts a peptide once, under the source set of the first header entry after sorting the entries by their own order
    (the order splitFasta uses: VariantSourceSet.__gt__), obtained from the same parser with the given label and group maps; the
    miscleavage count goes to the same source set"""
    path, qualname, props = SUM, 'NoncanonicalPeptideSummaryTable.add_entry', ('C18',)
    assumptions = ('summary: VariantPeptideInfo.from_variant_peptide and the order are their own contracts; list.sort() with the proved order puts a '
                   'minimal entry first; find_all_enzymatic_cleave_sites is external',)

    def setup(self, I):
        e = I.e
        st = types.SimpleNamespace(calls=[], infos=None)
        st.pep = SymObj('Pep18sum')
        st.label_map, st.group_map, st.tx2gene, st.coding = SymObj('LabelSourceMapping'), SymObj('GroupMap18'), SymObj('Tx2Gene'), SymObj('CodingTx')
        st.self = SymObj('NoncanonicalPeptideSummaryTable', max_misc=0)
        st.args = [st.self, st.pep, st.label_map, st.group_map, st.tx2gene, st.coding, 'trypsin' if e.branch(e.bool('enzyme_is_trypsin'), 'enzyme') else 'lysc']
        self._cur = st
        return st

    @property
    def models(self):
        c = self

        def inst(reg):
            class Infos:
                def __init__(s_):
                    s_.sorted = False

                def sym_method(s_, I2, name, a, kw):
                    if name == 'sort':
                        I2.e.prove('C18/summary/entries-sorted-by-their-own-order', not a and not kw)
                        s_.sorted = True
                        return None
                    raise Unsupported(name)

                def sym_getitem(s_, I2, idx):
                    I2.e.prove('C18/summary/top-entry-taken-after-sorting', s_.sorted and idx == 0)
                    return SymObj('Info18', sources=SymObj('TopSources'))

            def from_pep(I, a, k):
                st = c._cur
                I.e.prove('C18/summary/header-parsed-with-the-given-maps-and-sources-checked',
                          k.get('peptide') is st.pep and k.get('label_map') is st.label_map and k.get('group_map') is st.group_map
                          and k.get('tx2gene') is st.tx2gene and k.get('coding_tx') is st.coding and k.get('check_source', True) is True and not a)
                st.infos = Infos()
                return st.infos
            reg.func_(VPL, 'VariantPeptideInfo.from_variant_peptide', from_pep)
            reg.method_('VariantPeptideInfo', 'from_variant_peptide', lambda I, o, a, k: from_pep(I, a, k))
            reg.set_hooks.append(lambda v: (lambda I, v: v) if isinstance(v, SymObj) and v.cls == 'TopSources' else None)
            reg.method_('NoncanonicalPeptideSummaryTable', 'increment_total', lambda I, o, a, k: c._cur.calls.append(('total', a[0])))
            reg.method_('NoncanonicalPeptideSummaryTable', 'increment_misc', lambda I, o, a, k: c._cur.calls.append(('misc', a[0], a[1])))
            reg.method_('Pep18sum', 'find_all_enzymatic_cleave_sites', lambda I, o, a, k: FnView(I.e.int('n_sites'), lambda i: i, tag='sites'))
        return (inst,)

    def post_return(self, I, st, ret):
        tot = [x for x in st.calls if x[0] == 'total']
        misc = [x for x in st.calls if x[0] == 'misc']
        I.e.prove('C18/summary/peptide-counted-exactly-once-under-its-top-source-set',
                  len(tot) == 1 and isinstance(tot[0][1], SymObj) and tot[0][1].cls == 'TopSources' and len(misc) == 1 and misc[0][1] is tot[0][1])


class NativeWildcardMap(NativeCheck):
    name = 'wildcard_map_oracle'
    props = ('C18',)
    functions = (f'{SPL}:PeptidePoolSplitter.create_wildcard_map',)
    bounded_for = ('the wildcard map against the documented meaning of --order-source: "X" matches exactly X; "X-*" every source set that '
                   'contains X, with or without other sources; "X-+" every set that contains X and at least one other source; the first '
                   'matching entry of the order wins')
    bound = 'up to 4 sources, orders of 1-5 entries (plain, combinations, -+ and -* wildcards); quick 400 random orders, thorough 6000'
    quick_budget_s = 30
    thorough_budget_s = 120

    def cases(self, rng, tier):
        import itertools
        for _ in range(400 if tier != 'thorough' else 6000):
            srcs = rng.sample(['A', 'B', 'C', 'D'], rng.randint(2, 4))
            pool = []
            for r in (1, 2):
                for c_ in itertools.combinations(srcs, r):
                    pool += [frozenset(c_), frozenset(c_) | {'*'}, frozenset(c_) | {'+'}]
            pool.append(frozenset({'*'}))
            order = rng.sample(pool, rng.randint(1, min(5, len(pool))))
            yield dict(sources=sorted(srcs), order=[sorted(x) for x in order])

    def check(self, inp):
        import itertools
        from moPepGen.aa.PeptidePoolSplitter import PeptidePoolSplitter
        order = {}
        for i, ent in enumerate(inp['order']):
            key = ent[0] if len(ent) == 1 else frozenset(ent)
            order[key] = i
        sp = PeptidePoolSplitter(order=dict(order), sources=set(inp['sources']))
        got = sp.create_wildcard_map()
        want = {}
        ents = [frozenset(x) for x in inp['order']]
        for r in range(0, len(inp['sources']) + 1):
            for c_ in itertools.combinations(inp['sources'], r):
                E = frozenset(c_)
                for ent in ents:
                    base = ent - {'*', '+'}
                    if '*' in ent:
                        hit = base <= E
                    elif '+' in ent:
                        hit = base < E
                    else:
                        hit = base == E
                    # a wildcard entry only adds sources it does not already name; an empty set is no source set
                    if hit and E:
                        want[E] = ent
                        break
        got = {k: frozenset(v) for k, v in got.items() if k}
        if got != want:
            diff = [(sorted(k), sorted(got.get(k, [])) or None, sorted(want.get(k, [])) or None) for k in set(got) | set(want) if got.get(k) != want.get(k)]
            k, g, w = sorted(diff, key=str)[0]
            return dict(call=f'create_wildcard_map(order={inp["order"]}, sources={inp["sources"]})[{k}]', observed=g, expected=w,
                        signature='wildcard-entry-misses-a-source-set' if g is None else 'wildcard-map-wrong-entry')
        return None

    def nontrivial(self, inp):
        return 'wild' if any('*' in x or '+' in x for x in inp['order']) else 'plain'


class NativeHeaderRoundTrip(NativeCheck):
    name = 'header_round_trip'
    props = ('C18',)
    functions = ('moPepGen/aa/VariantPeptideIdentifier.py:parse_variant_peptide_id', f'{VPL}:VariantPeptideInfo.from_variant_peptide', f'{SPL}:PeptidePoolSplitter.split')
    bounded_for = ('header parsing and printing keep every field of every entry: for headers of the shapes the calling commands emit (variant, '
                   'novel ORF, circRNA, fusion entries; W2F / SECT labels in any of them; ORF ids; several entries per header) the printed form of '
                   'the parsed entry has the same fields, and splitFasta on a FASTA of such headers keeps every entry of every header')
    bound = 'random headers from the grammar of the four entry kinds, 1-3 entries per header; quick 300 headers, thorough 4000; one split run of 60 such peptides'
    quick_budget_s = 30
    thorough_budget_s = 120

    @staticmethod
    def entry(rng):
        var = lambda: rng.choice([f'SNV-{rng.randint(1, 900)}-A-T', f'INDEL-{rng.randint(1, 900)}-CC-C', f'MNV-{rng.randint(1, 900)}-ACC-TAA', f'RES-{rng.randint(1, 900)}-A-G',
                                  f'SE-{rng.randint(1, 900)}', f'RI-{rng.randint(1, 900)}-{rng.randint(901, 999)}', f'A3SS-{rng.randint(1, 900)}', f'A5SS-{rng.randint(1, 900)}',
                                  f'MXE-{rng.randint(1, 400)}-{rng.randint(401, 900)}'])
        alt = lambda: rng.choice([f'W2F-{rng.randint(1, 30)}', f'SECT-{rng.randint(1, 300)}'])
        tx = lambda: f'ENST{rng.randint(1, 9):04d}.{rng.randint(1, 3)}'
        orf = [f'ORF{rng.randint(1, 4)}'] if rng.random() < 0.4 else []
        idx = [str(rng.randint(1, 25))]
        kind = rng.choice(['base', 'novel', 'circ', 'fusion'])
        if kind == 'base':
            # an entry with an ORF id and no gene id comes from callVariant and always carries an external variant
            vs = [var() for _ in range(rng.randint(1 if orf else 0, 2))] + [alt() for _ in range(rng.randint(0, 2))]
            if not vs:
                vs = [var()]
            rng.shuffle(vs)
            return [tx()] + vs + orf + idx
        if kind == 'novel':
            return [tx(), f'ENSG{rng.randint(1, 9):04d}.1'] + [f'W2F-{rng.randint(1, 30)}' for _ in range(rng.randint(0, 2))] + [f'ORF{rng.randint(1, 4)}'] + idx
        if kind == 'circ':
            cid = rng.choice([f'CIRC-{tx()}-E1-E2', f'CI-{tx()}-I2', f'CIRC-{tx()}-0:464'])
            return [cid] + orf + [var() for _ in range(rng.randint(0, 2))] + [alt() for _ in range(rng.randint(0, 2))] + idx
        fid = f'FUSION-{tx()}:{rng.randint(1, 900)}-{tx()}:{rng.randint(1, 900)}'
        return [fid] + orf + [f'1-{var()}' for _ in range(rng.randint(0, 2))] + [f'2-{var()}' for _ in range(rng.randint(0, 2))] + [alt() for _ in range(rng.randint(0, 1))] + idx

    def cases(self, rng, tier):
        for _ in range(300 if tier != 'thorough' else 4000):
            yield dict(header=' '.join('|'.join(self.entry(rng)) for _ in range(rng.randint(1, 3))))

    def check(self, inp):
        from moPepGen.aa.VariantPeptideIdentifier import parse_variant_peptide_id
        ents = inp['header'].split(' ')
        got = parse_variant_peptide_id(inp['header'], set())
        if len(got) != len(ents):
            return dict(call=f'parse_variant_peptide_id({inp["header"]!r})', observed=f'{len(got)} entries', expected=f'{len(ents)} entries', signature='entry-count')
        for e_, g in zip(ents, got):
            if sorted(str(g).split('|')) != sorted(e_.split('|')):
                return dict(call=f'str(parse_variant_peptide_id({e_!r}))', observed=str(g), expected=e_, signature='header-field-lost-or-changed')
        return None

    def nontrivial(self, inp):
        return inp['header'].split('|')[0][:4] + str(inp['header'].count(' '))


class NativeWildcardCommand(NativeCheck):
    name = 'wildcard_through_the_command'
    props = ('C18',)
    functions = (f'{SPL}:PeptidePoolSplitter.__init__', f'{SPL}:PeptidePoolSplitter.create_wildcard_map')
    bounded_for = ('wildcard entries of --order-source through the real splitFasta command (the splitter built the way the command builds it, real '
                   'source names): a peptide goes to the database of the first order entry that matches its source set - "X" exactly {X}, "X-*" '
                   'every set containing X - and keeps its own set otherwise')
    bound = 'demo variant FASTA with the five demo GVFs, max-source-groups 3, 6 orders mixing plain names and X-* entries'
    quick_budget_s = 60
    thorough_budget_s = 120

    def cases(self, rng, tier):
        for order in ('gINDEL-*', 'circRNA,gINDEL-*', 'gINDEL-*,circRNA', 'RNAEditingSite,circRNA-*', 'gSNP,gINDEL,RNAEditingSite-*', 'Fusion,circRNA,gINDEL-*'):
            yield dict(order_source=order)

    def run(self, order):
        import argparse, tempfile, shutil, os
        from pathlib import Path
        from moPepGen import cli
        data = Path(os.environ.get('PYVC_REPO', '/repo')) / 'test' / 'files'
        d = Path(tempfile.mkdtemp(prefix='verif_c18w_'))
        try:
            (d / 'split').mkdir()
            gvfs = [data / 'vep/vep_gSNP.gvf', data / 'vep/vep_gINDEL.gvf', data / 'reditools/reditools.gvf', data / 'fusion/star_fusion.gvf', data / 'circRNA/circ_rna.gvf']
            a = argparse.Namespace(command='splitFasta', gvf=gvfs, annotation_gtf=data / 'annotation.gtf', proteome_fasta=data / 'translate.fasta', reference_source=None,
                                   index_dir=None, quiet=True, order_source=order, group_source=None, variant_peptides=data / 'peptides/variant.fasta',
                                   novel_orf_peptides=None, alt_translation_peptides=None, max_source_groups=3, additional_split=None, output_prefix=d / 'split' / 'db')
            cli.split_fasta(a)
            out = {}
            for f in sorted((d / 'split').glob('db_*.fasta')):
                for h, s_ in _read_fasta(f):
                    out[s_] = f.name[3:-6]
            return out
        finally:
            shutil.rmtree(d, ignore_errors=True)

    def check(self, inp):
        base = self.run(None)                   # without an order every peptide sits in the database named after its best source set
        got = self.run(inp['order_source'])
        ents = [x.split('-') for x in inp['order_source'].split(',')]
        for seq, own in base.items():
            E = frozenset(own.split('-'))
            want = None
            for ent in ents:
                if ent[-1] == '*' and frozenset(ent[:-1]) <= E:
                    want = '-'.join(ent[:-1]) + '-ALL'
                    break
                if ent[-1] != '*' and frozenset(ent) == E:
                    want = None
                    break
            if want is not None and got.get(seq) != want:
                return dict(call=f"splitFasta --order-source {inp['order_source']}: peptide {seq} with sources {sorted(E)}", observed=got.get(seq), expected=want,
                            signature='wildcard-entry-does-not-take-a-set-it-matches')
        return None

    def nontrivial(self, inp):
        return str(inp)


NATIVE = [NativeBookkeeping(), NativeWildcardMap(), NativeHeaderRoundTrip(), NativeWildcardCommand()]
