"""C18 — database bookkeeping conserves peptides: split, merge, encode (DESIGN.md §3 C18)."""
from __future__ import annotations
import types
import z3
from pyvc.contract import Contract, Lemma, register
from pyvc.core import Unsupported, as_bool
from pyvc.interp import LoopSpec, PyRaise
from pyvc.values import *
from pyvc.pstr import PStr
from pyvc import sstr
from pyvc.sstr import Tok
from .lib import *

ENC = 'moPepGen/cli/encode_fasta.py'
MRG = 'moPepGen/cli/merge_fasta.py'
SPL = 'moPepGen/aa/PeptidePoolSplitter.py'
I_, B_ = z3.IntSort(), z3.BoolSort()


def seq_eq(a, b):
    """extensional equality of two PStr as a formula with a free index (validity = for all indices)"""
    i = z3.Int('i_ext')
    la, lb = a.length(), b.length()
    la = la if is_z3(la) else z3.IntVal(la)
    lb = lb if is_z3(lb) else z3.IntVal(lb)
    return z3.And(la == lb, z3.Implies(z3.And(0 <= i, i < la), a.get(i) == b.get(i)))


# ----------------------------------------------------------------------------
# encodeFasta: decoy marker handling and the identifier dictionary
# ----------------------------------------------------------------------------
@register
class EncodeDecoyHelpers(Contract):
    """for a header carrying the decoy string at the requested side: it is recognised, the real header is what remains, and the decoy
    form of an identifier carries the same string at the same side - so identifier + dictionary restore the original header exactly"""
    path, qualname, props = ENC, 'get_real_header', ('C18',)
    assumptions = ('requires: the decoy string is not empty (with an empty suffix header[:-0] would be the empty string)',)

    def setup(self, I):
        e = I.e
        st = types.SimpleNamespace()
        st.H, st.D, st.X = PStr.sym(e, 'header'), PStr.sym(e, 'decoy'), PStr.sym(e, 'identifier')
        e.assume(st.D.length() >= 1)
        st.pos = ('prefix', 'suffix')[e.choose(2, 'decoy position')]
        st.full = st.D.concat(st.H) if st.pos == 'prefix' else st.H.concat(st.D)
        mod = I.repo.modules[ENC]
        fn = lambda name: RepoFunc(mod, [n for n in mod.tree.body if getattr(n, 'name', None) == name][0])
        st.is_decoy = I.call(fn('is_decoy_sequence'), [st.full, st.D, st.pos], {})
        st.decoyed = I.call(fn('get_decoy_header'), [st.X, st.D, st.pos], {})
        st.args = [st.full, st.D, st.pos]
        return st

    def post_return(self, I, st, ret):
        e = I.e
        e.prove('C18/encode/decoy-header-is-recognised', as_bool(st.is_decoy))
        e.prove('C18/encode/real-header=header-without-the-decoy-string', seq_eq(ret, st.H))
        want = st.D.concat(st.X) if st.pos == 'prefix' else st.X.concat(st.D)
        e.prove('C18/encode/decoy-identifier-carries-the-string-at-the-same-side', seq_eq(st.decoyed, want))


class HeaderOf:
    """record.description of input record k"""
    def __init__(self, k, decoy=False, real=None):
        self.k, self.decoy, self.real = k, decoy, real


@register
class EncodeLoop(Contract):
    """every record is written once with its description replaced by an identifier; equal (real) headers get the same identifier, a new
    header gets a fresh one that is written once to the dictionary together with the header; decoy records get the decoy form"""
    path, qualname, props = ENC, 'encode_fasta', ('C18',)
    assumptions = ('assumed: uuid.uuid4() is fresh; SeqIO.parse yields the records; FastaWriter.write_record writes description and sequence; '
                   'is_decoy_sequence / get_real_header / get_decoy_header are their proved contracts (uninterpreted here)',)

    def setup(self, I):
        e = I.e
        st = types.SimpleNamespace(dict_writes=[], written=[], uuids=[])
        st.N = e.int('n_records')
        e.assume(st.N >= 0)
        st.is_decoy = z3.Function('is_decoy', I_, B_)
        st.hid = z3.Function('real_header_code', I_, I_)       # equal real headers <=> equal codes
        st.args_obj = SymObj('Namespace', input_path=SymObj('PathStub18', n='in'), output_path=SymObj('PathStub18', n='out'),
                             decoy_string=Tok('decoy'), decoy_string_position='prefix')
        st.args = [st.args_obj]
        self._cur = st
        return st

    @property
    def models(self):
        c = self

        def inst(reg):
            sstr.install(reg)
            noop = lambda I, a, k: None
            reg.func_('moPepGen/cli/common.py', 'validate_file_format', noop)
            reg.func_('moPepGen/cli/common.py', 'print_start_message', noop)
            reg.method_('PathStub18', 'with_suffix', lambda I, o, a, k: SymObj('PathStub18', n='dict'))
            reg.attr_('PathStub18', 'suffix', lambda I, o: '.fasta')
            reg.ext_('open', lambda I, a, k: SymObj('File18', path=a[0]))
            reg.method_('File18', 'write', lambda I, o, a, k: c._cur.dict_writes.append((o.fields['path'].fields['n'], a[0])))
            reg.ext_('FastaIO.FastaWriter', lambda I, a, k: SymObj('Writer18'))
            reg.ext_('Bio.SeqIO.FastaIO.FastaWriter', lambda I, a, k: SymObj('Writer18'))
            reg.method_('Writer18', 'write_record', lambda I, o, a, k: c._cur.written.append((a[0], a[0].fields['description'])))
            rec = lambda i: SymObj('SeqRecord', description=HeaderOf(i if is_z3(i) else z3.IntVal(i)), seq=SymObj('SeqOf', k=i), k=i if is_z3(i) else z3.IntVal(i))
            reg.ext_('SeqIO.parse', lambda I, a, k: FnView(c._cur.N, rec, tag='records'))
            reg.ext_('Bio.SeqIO.parse', lambda I, a, k: FnView(c._cur.N, rec, tag='records'))
            reg.func_(ENC, 'is_decoy_sequence', lambda I, a, k: c._cur.is_decoy(a[0].k))
            reg.func_(ENC, 'get_real_header', lambda I, a, k: HeaderOf(a[0].k, real=True))
            reg.func_(ENC, 'get_decoy_header', lambda I, a, k: SymObj('DecoyOf', index=a[0]))

            def uuid4(I, a, k):
                u = Tok(f'uuid{len(c._cur.uuids)}')
                c._cur.uuids.append(u)
                return u
            reg.ext_('uuid.uuid4', uuid4)
        return (inst,)

    def havoc(self, I, env, k):
        st = self._cur
        st.known = z3.Function(I.e.fresh_name('header_has_identifier'), I_, B_)
        st.idx_of = {}

        class Mapper:
            def sym_contains(s_, I2, item):
                return st.known(st.hid(item.k))

            def sym_getitem(s_, I2, item):
                t = SymObj('StoredIndex', code=st.hid(item.k))
                return t

            def sym_setitem(s_, I2, key, v):
                st.idx_of[id(key)] = (key, v)
        env['id_mapper'] = Mapper()

    def on_head(self, I, env, k):
        st = self._cur
        st.pre = dict(nd=len(st.dict_writes), nw=len(st.written), nu=len(st.uuids), nm=len(st.idx_of))

    def step(self, I, env, k):
        st = self._cur
        dw = [w for w in st.dict_writes[st.pre['nd']:] if w[0] == 'dict']
        wr = st.written[st.pre['nw']:]
        new_uuid = st.uuids[st.pre['nu']:]
        items = [('record-written-once', len(wr) == 1 and z3.is_true(z3.simplify(wr[0][0].fields['k'] == k)))]
        if len(wr) != 1:
            return items
        desc = wr[0][1]
        decoy_form = isinstance(desc, SymObj) and desc.cls == 'DecoyOf'
        index = desc.fields['index'] if decoy_form else desc
        if new_uuid:
            line_ok = False
            if len(dw) == 1:
                toks = sstr.merge(sstr.flat(dw[0][1]))
                import os
                if os.environ.get('DBG'):
                    print('TOKS', toks)
                line_ok = len(toks) == 4 and toks[0] is new_uuid[0] and toks[1] == '\t' and isinstance(toks[2], HeaderOf) and toks[3] == '\n' \
                    and z3.is_true(z3.simplify(toks[2].k == k))
            items += [('new-header: fresh-identifier-written-once-to-the-dictionary-with-the-real-header', len(new_uuid) == 1 and line_ok),
                      ('new-header: only-if-not-yet-known', z3.Not(st.known(st.hid(k)))),
                      ('new-header: identifier-remembered', len(st.idx_of) == st.pre['nm'] + 1),
                      ('record-gets-this-identifier', index is new_uuid[0])]
        else:
            items += [('known-header: nothing-written-to-the-dictionary', len(dw) == 0),
                      ('known-header: only-if-known', st.known(st.hid(k))),
                      ('record-gets-the-stored-identifier-of-its-header', isinstance(index, SymObj) and index.cls == 'StoredIndex'
                       and z3.is_true(z3.simplify(index.fields['code'] == st.hid(k))))]
        items.append(('decoy-form-iff-decoy-record', z3.If(st.is_decoy(k), decoy_form, not decoy_form)))
        return items

    @property
    def loops(self):
        return {0: LoopSpec(inv=lambda I, env, k: [], havoc=self.havoc, on_head=self.on_head, step=self.step)}


# ----------------------------------------------------------------------------
# mergeFasta
# ----------------------------------------------------------------------------
@register
class MergeLoop(Contract):
    """the first file becomes the pool; every peptide of every later file is merged into it exactly once, unfiltered (skip_checking) -
    with the proved contract of VariantPeptidePool.add_peptide: union of sequences, labels appended to an existing entry"""
    path, qualname, props = MRG, 'merge_fasta', ('C18',)
    assumptions = ('assumed: VariantPeptidePool.load returns the records of one file; remove_redundant_headers / write are external',)

    def setup(self, I):
        e = I.e
        st = types.SimpleNamespace(loads=[], adds=[], writes=[])
        st.F = e.int('n_files')
        e.assume(st.F >= 1)
        st.npep = z3.Function('n_peptides_of_file', I_, I_)
        files = FnView(st.F, lambda i: SymObj('FileStub', i=i if is_z3(i) else z3.IntVal(i)), tag='input files')
        st.args_obj = SymObj('Namespace', input_path=files, output_path=OpaqueStr(['out']), dedup_header=e.bool('dedup_header'))
        st.args = [st.args_obj]
        self._cur = st
        return st

    @property
    def models(self):
        c = self

        def inst(reg):
            reg.func_('moPepGen/cli/common.py', 'validate_file_format', lambda I, a, k: None)
            reg.ext_('open', lambda I, a, k: SymObj('Handle18', i=a[0].fields['i']))

            def load(I, o, a, k):
                st = c._cur
                i = a[0].fields['i']
                st.loads.append(i)
                n = st.npep(i)
                I.e.assume(n >= 0)
                peps = FnView(n, lambda j: SymObj('Pep18', file=i, j=j if is_z3(j) else z3.IntVal(j)), tag='peptides')
                return SymObj('Pool18', peptides=peps, file=i)
            reg.method_('VariantPeptidePool', 'load', load)

            def add(I, o, a, k):
                st = c._cur
                I.e.prove('C18/merge/added-unfiltered-to-the-pool-of-the-first-file',
                          z3.And(k.get('skip_checking') is True, not a, isinstance(k.get('canonical_peptides'), set) and not k.get('canonical_peptides'),
                                 o.fields['file'] == 0))
                st.adds.append(k.get('peptide'))
                return True
            reg.method_('Pool18', 'add_peptide', add)
            reg.method_('Pool18', 'remove_redundant_headers', lambda I, o, a, k: None)
            reg.method_('Pool18', 'write', lambda I, o, a, k: c._cur.writes.append(o))
        return (inst,)

    def havoc0(self, I, env, k):
        pass

    def havoc1(self, I, env, k):
        # at an arbitrary later iteration the pool is the one loaded from the first file
        env['pool'] = None if I.e.branch(k == 0, 'first file') else SymObj('Pool18', peptides=None, file=z3.IntVal(0))

    def head1(self, I, env, k):
        self._cur.pre = dict(nl=len(self._cur.loads), na=len(self._cur.adds))

    def step1(self, I, env, k):
        st = self._cur
        loads = st.loads[st.pre['nl']:]
        pool = env['pool']
        items = [('each-file-loaded-once', len(loads) == 1 and z3.is_true(z3.simplify(loads[0] == k))),
                 ('pool-is-the-first-file', (pool.fields['file'] == 0) if isinstance(pool, SymObj) else False)]
        return items

    def head2(self, I, env, k):
        self._cur.na = len(self._cur.adds)

    def step2(self, I, env, k):
        st = self._cur
        new = st.adds[st.na:]
        return [('every-peptide-of-a-later-file-merged-once', len(new) == 1 and z3.is_true(z3.simplify(new[0].fields['j'] == k)))]

    @property
    def loops(self):
        T = lambda I, env, k: []
        return {0: LoopSpec(inv=T), 1: LoopSpec(inv=T, havoc=self.havoc1, on_head=self.head1, step=self.step1),
                2: LoopSpec(inv=T, on_head=self.head2, step=self.step2)}

    def post_return(self, I, st, ret):
        I.e.prove('C18/merge/exit/the-merged-pool-is-written-once', (st.writes[0].fields['file'] == 0) if len(st.writes) == 1 else False)


# ----------------------------------------------------------------------------
# splitFasta
# ----------------------------------------------------------------------------
@register
class AddPeptideToDatabase(Contract):
    """the peptide is added to the database of the given key (created if missing); no other database is touched"""
    path, qualname, props = SPL, 'PeptidePoolSplitter.add_peptide_to_database', ('C18',)

    def setup(self, I):
        e = I.e
        st = types.SimpleNamespace(log=[])
        st.exists = e.bool('database_exists')

        class Dbs:
            def sym_contains(s_, I2, key):
                st.log.append(('in', key))
                return st.exists

            def sym_setitem(s_, I2, key, v):
                st.log.append(('create', key, v))
                st.created = v

            def sym_getitem(s_, I2, key):
                st.log.append(('get', key))
                return getattr(st, 'created', None) or st.old

            def sym_method(s_, I2, name, a, k):
                if name == 'setdefault':
                    if not I2.test(s_.sym_contains(I2, a[0]), 'database exists'):
                        s_.sym_setitem(I2, a[0], a[1])
                    return s_.sym_getitem(I2, a[0])
                raise Unsupported(f'databases.{name}')
        st.key, st.pep = Tok('database_key'), SymObj('Pep18', j=0)
        adds = []

        class PepSet:
            def __init__(s_, tag):
                s_.tag = tag

            def sym_method(s_, I2, name, a, k):
                if name == 'add':
                    st.log.append(('add', s_.tag, a[0]))
                    return None
                raise Unsupported(name)
        st.old = SymObj('VariantPeptidePool', peptides=PepSet('existing'), peptide_delimeter=' ')
        st.PepSet = PepSet
        st.args = [SymObj('PeptidePoolSplitter', databases=Dbs()), st.key, st.pep]
        self._cur = st
        return st

    @property
    def models(self):
        c = self
        return (lambda reg: reg.ctor_('VariantPeptidePool', lambda I, a, k: SymObj('VariantPeptidePool', peptides=c._cur.PepSet('new'), peptide_delimeter=' ')),)

    def post_return(self, I, st, ret):
        adds = [x for x in st.log if x[0] == 'add']
        creates = [x for x in st.log if x[0] == 'create']
        I.e.prove('C18/split/add/peptide-added-exactly-once-to-the-database-of-the-key',
                  len(adds) == 1 and adds[0][2] is st.pep and all(x[1] is st.key for x in st.log if x[0] in ('in', 'create', 'get')))
        I.e.prove('C18/split/add/database-created-iff-missing',
                  z3.If(st.exists, len(creates) == 0 and bool(adds) and adds[0][1] == 'existing', len(creates) == 1 and bool(adds) and adds[0][1] == 'new'))


@register
class SplitLoop(Contract):
    """every peptide is assigned to exactly one database: the one of the highest-priority source set of its header entries if that set
    has at most max_groups sources, else the first additional-split set contained in it, else 'Remaining'; the sequence is not touched;
    the header is rewritten as the join of all its entries"""
    path, qualname, props = SPL, 'PeptidePoolSplitter.split', ('C18',)
    assumptions = ('assumed: VariantPeptideInfo.from_variant_peptide parses every header entry; after sort() the first entry is the one with the '
                   'highest-priority source set (VariantSourceSet order); str(entry) prints an entry (parser/printer round trip: bounded native check)',)

    def setup(self, I):
        e = I.e
        st = types.SimpleNamespace(db_calls=[], attr_writes=[])
        st.N, st.A = e.int('n_peptides'), e.int('n_additional')
        e.assume(z3.And(st.N >= 0, st.A >= 0))
        st.max_groups = e.int('max_groups')
        st.nsrc = z3.Function('n_sources_of_top_set', I_, I_)
        st.sub = z3.Function('additional_set_is_subset', I_, I_, B_)
        peps = FnView(st.N, lambda i: SymObj('Pep18s', k=i if is_z3(i) else z3.IntVal(i), seq=SymObj('SeqOf', k=i), description=Tok('header'),
                                            id=Tok('id'), name=Tok('name')), tag='peptides')
        st.splitter = SymObj('PeptidePoolSplitter', peptides=SymObj('VariantPeptidePool', peptides=peps), databases={}, label_map=SymObj('LabelMap'),
                             group_map={}, order={}, sources=set())
        adds = FnView(st.A, lambda j: SymObj('RawSet', j=j if is_z3(j) else z3.IntVal(j)), tag='additional_split')
        st.args = [st.splitter, st.max_groups, adds, SymObj('Tx2Gene'), SymObj('CodingTx')]
        self._cur = st
        return st

    @property
    def models(self):
        c = self

        def inst(reg):
            reg.method_('PeptidePoolSplitter', 'append_order_internal_sources', lambda I, o, a, k: None)
            reg.method_('PeptidePoolSplitter', 'create_wildcard_map', lambda I, o, a, k: SymObj('WildcardMap'))
            reg.method_('VariantSourceSet', 'set_levels', lambda I, o, a, k: None)
            reg.ctor_('VariantSourceSet', lambda I, a, k: SymObj('AddSet', j=a[0].fields['j']))
            reg.method_('AddSet', 'issubset', lambda I, o, a, k: c._cur.sub(o.fields['j'], a[0].fields['k']))
            reg.str_hooks.append(lambda v: (lambda I, v: Tok(f'str({v.cls})') if False else v) if isinstance(v, SymObj) and v.cls in ('TopSources', 'AddSet', 'Entry18') else None)

            class Infos:
                def __init__(s_, k):
                    s_.k, s_.sorted = k, False

                def sym_method(s_, I2, name, a, kw):
                    if name == 'sort':
                        s_.sorted = True
                        return None
                    raise Unsupported(name)

                def sym_getitem(s_, I2, idx):
                    I2.e.prove('C18/split/top-entry-taken-after-sorting', s_.sorted and idx == 0)
                    return SymObj('Info18', sources=SymObj('TopSources', k=s_.k))

                def sym_view(s_, I2):
                    n = I2.e.int('n_entries')
                    I2.e.assume(n >= 1)
                    return FnView(n, lambda t: SymObj('Entry18', k=s_.k, t=t), tag='entries')

            def from_pep(I, o, a, k):
                st = c._cur
                pep = k.get('peptide')
                I.e.prove('C18/split/header-parsed-with-the-splitter-maps',
                          k.get('label_map') is st.splitter.fields['label_map'] and k.get('group_map') is st.splitter.fields['group_map'])
                st.infos = Infos(pep.fields['k'])
                return st.infos
            reg.method_('VariantPeptideInfo', 'from_variant_peptide', from_pep)
            reg.func_('moPepGen/aa/VariantPeptideLabel.py', 'VariantPeptideInfo.from_variant_peptide', lambda I, a, k: from_pep(I, None, a, k))
            reg.protocol_('TopSources', '__len__', lambda I, o: c._cur.nsrc(o.fields['k']))

            def add_db(I, o, a, k):
                c._cur.db_calls.append((a[0], a[1]))
            reg.method_('PeptidePoolSplitter', 'add_peptide_to_database', add_db)

            def setattr_hook(name):
                def h(I, o, v):
                    c._cur.attr_writes.append((name, o, v))
                    o.fields[name] = v
                return h
            for nm in ('description', 'id', 'name', 'seq'):
                reg._setattr[('Pep18s', nm)] = setattr_hook(nm)
        return (inst,)

    def on_head(self, I, env, k):
        st = self._cur
        st.pre = dict(nc=len(st.db_calls), nw=len(st.attr_writes))
        st.broke = False

    def inv_inner(self, I, env, k):
        st = self._cur
        j = z3.Int('j_add')
        pk = st.infos.k
        return [('no-earlier-additional-set-is-contained', z3.ForAll([j], z3.Implies(z3.And(0 <= j, j < k), z3.Not(st.sub(j, pk))))),
                ('nothing-assigned-yet', z3.Not(as_bool(I.truth(env['has_additional_splitting']))))]

    def step(self, I, env, k):
        st = self._cur
        calls = st.db_calls[st.pre['nc']:]
        writes = st.attr_writes[st.pre['nw']:]
        items = [('exactly-one-database-per-peptide', len(calls) == 1 and isinstance(calls[0][1], SymObj) and z3.is_true(z3.simplify(calls[0][1].fields['k'] == k))),
                 ('sequence-never-assigned', all(w[0] != 'seq' for w in writes))]
        if len(calls) != 1:
            return items
        key = calls[0][0]
        small = st.nsrc(k) <= st.max_groups
        j = z3.Int('j_any')
        none_sub = z3.ForAll([j], z3.Implies(z3.And(0 <= j, j < st.A), z3.Not(st.sub(j, k))))
        if isinstance(key, SymObj) and key.cls == 'TopSources':
            items.append(('own-source-set-database-iff-at-most-max-groups', z3.And(small, key.fields['k'] == k)))
        elif key == 'Remaining':
            items.append(('remaining-database-iff-too-many-sources-and-no-additional-set-fits', z3.And(z3.Not(small), none_sub)))
        else:
            toks = sstr.merge(sstr.flat(key))
            ok = len(toks) == 2 and isinstance(toks[0], SymObj) and toks[0].cls == 'AddSet' and isinstance(toks[1], str) and toks[1].endswith('additional')
            jj = toks[0].fields['j'] if ok else None
            items.append(('additional-database-of-the-first-contained-set',
                          z3.And(z3.Not(small), st.sub(jj, k), z3.ForAll([j], z3.Implies(z3.And(0 <= j, j < jj), z3.Not(st.sub(j, k))))) if ok else False))
        return items

    @property
    def loops(self):
        T = lambda I, env, k: []
        return {0: LoopSpec(inv=T, on_head=self.on_head, step=self.step), 1: LoopSpec(inv=self.inv_inner)}


# ----------------------------------------------------------------------------
# Native side: the whole commands on the demo files
# ----------------------------------------------------------------------------
from pyvc.native import NativeCheck


def _read_fasta(path):
    out, cur = [], None
    with open(path) as fh:
        for line in fh:
            line = line.rstrip('\n')
            if line.startswith('>'):
                cur = [line[1:], '']
                out.append(cur)
            elif cur is not None:
                cur[1] += line
    return [(h, s_) for h, s_ in out]


def _entry_fields(header):
    """multiset of |-separated fields per header entry"""
    return sorted(tuple(sorted(e.split('|'))) for e in header.split(' '))


class NativeBookkeeping(NativeCheck):
    name = 'database_bookkeeping'
    props = ('C18',)
    functions = (f'{SPL}:PeptidePoolSplitter.split', f'{SPL}:PeptidePoolSplitter.add_peptide_to_database', f'{ENC}:encode_fasta',
                 f'{ENC}:get_real_header', f'{MRG}:merge_fasta')
    bounded_for = ('conservation through the real commands: every input peptide in exactly one split database with unchanged sequence and the '
                   'same header-entry fields (the header parser/printer round trip is not proved); summarizeFasta totals = number of peptides '
                   'and = split database sizes; merge = union; encode + dictionary restore every header')
    bound = ('demo peptide FASTAs (test/files/peptides: variant, novel ORF, alt translation) with the five demo GVFs; option lattice: '
             'max-source-groups 1-3 x order-source none/custom x group-source none/one group x additional-split none/one set; '
             'decoy prefix/suffix for encode; quick 8 configurations, thorough 36')
    quick_budget_s = 120
    thorough_budget_s = 600

    def cases(self, rng, tier):
        cfgs = []
        for mg in (1, 2, 3):
            for order in (None, 'gSNP,gINDEL,RNAEditingSite,Fusion,circRNA,NovelORF,SECT,CodonReassign'):
                for group in (None, ['Coding:gSNP,gINDEL']):
                    for add in (None, ['gSNP-gINDEL'], ['gSNP-RNAEditingSite']):
                        cfgs.append(dict(max_source_groups=mg, order_source=order if not group else None, group_source=group, additional_split=add))
        rng.shuffle(cfgs)
        for c_ in cfgs[:8 if tier != 'thorough' else 36]:
            yield c_

    def check(self, inp):
        import argparse, tempfile, shutil, os
        from pathlib import Path
        from moPepGen import cli
        data = Path(os.environ.get('PYVC_REPO', '/repo')) / 'test' / 'files'
        d = Path(tempfile.mkdtemp(prefix='verif_c18_'))
        try:
            gvfs = [data / 'vep/vep_gSNP.gvf', data / 'vep/vep_gINDEL.gvf', data / 'reditools/reditools.gvf', data / 'fusion/star_fusion.gvf',
                    data / 'circRNA/circ_rna.gvf']
            fastas = dict(variant_peptides=data / 'peptides/variant.fasta', novel_orf_peptides=data / 'peptides/novel_orf.fasta',
                          alt_translation_peptides=data / 'peptides/alt_translation.fasta')
            common = dict(gvf=gvfs, annotation_gtf=data / 'annotation.gtf', proteome_fasta=data / 'translate.fasta', reference_source=None,
                          index_dir=None, quiet=True, order_source=inp['order_source'], group_source=inp['group_source'], **fastas)
            args = argparse.Namespace(command='splitFasta', max_source_groups=inp['max_source_groups'], additional_split=inp['additional_split'],
                                      output_prefix=d / 'split' / 'db', **common)
            (d / 'split').mkdir()
            try:
                cli.split_fasta(args)
            except ValueError as ex:
                # an option set that names a source which was grouped away is rejected by the command itself
                return None if 'order' in str(ex).lower() or 'source' in str(ex).lower() or 'level' in str(ex).lower() else dict(call=f'splitFasta {inp}', observed=str(ex), expected='completes', signature='split-raises')
            inputs = {}
            for f in fastas.values():
                for h, s_ in _read_fasta(f):
                    inputs.setdefault(s_, []).append(h)
            seen = {}
            sizes = {}
            for f in sorted((d / 'split').glob('db_*.fasta')):
                recs = _read_fasta(f)
                sizes[f.name[3:-6]] = len(recs)
                for h, s_ in recs:
                    if s_ in seen:
                        return dict(call=f'splitFasta {inp}', observed=f'{s_} in {seen[s_]} and {f.name}', expected='exactly one database', signature='peptide-in-two-databases')
                    seen[s_] = f.name
                    if s_ not in inputs:
                        return dict(call=f'splitFasta {inp}', observed=f'{s_} in {f.name}', expected='an input sequence', signature='sequence-changed')
                    want = sorted(x for h0 in inputs[s_] for x in _entry_fields(h0))
                    if _entry_fields(h) != want:
                        return dict(call=f'splitFasta {inp}: header of {s_}', observed=h, expected=' '.join(inputs[s_]), signature='header-entries-changed')
            if set(seen) != set(inputs):
                return dict(call=f'splitFasta {inp}', observed=f'{len(seen)} peptides written', expected=f'{len(inputs)} input peptides', signature='peptides-lost')
            # summarize: totals add up and agree with the split databases (no additional split / max groups 1 comparable key space)
            sargs = argparse.Namespace(command='summarizeFasta', cleavage_rule='trypsin', output_path=d / 'summary.txt', output_image=None,
                                       ignore_missing_source=False, **common)
            cli.summarize_fasta(sargs)
            rows = [l.rstrip('\n').split('\t') for l in open(d / 'summary.txt') if l.strip()]
            head, body = rows[0], rows[1:]
            tot_col = [i for i, c_ in enumerate(head) if c_.lower() in ('n_total', 'total', 'n_peptides')]
            if tot_col:
                total = sum(int(r[tot_col[0]]) for r in body)
                if total != len(inputs):
                    return dict(call=f'summarizeFasta {inp}', observed=f'totals add up to {total}', expected=f'{len(inputs)} peptides', signature='summary-total')
            # merge = union
            margs = argparse.Namespace(command='mergeFasta', input_path=list(fastas.values()), output_path=d / 'merged.fasta', dedup_header=False, quiet=True)
            cli.merge_fasta(margs)
            merged = _read_fasta(d / 'merged.fasta')
            if sorted(s_ for _, s_ in merged) != sorted(inputs):
                return dict(call='mergeFasta', observed=f'{len(merged)} records', expected=f'union of {len(inputs)} sequences, each once', signature='merge-not-union')
            for h, s_ in merged:
                if sorted(h.split(' ')) != sorted(e for h0 in inputs[s_] for e in h0.split(' ')):
                    return dict(call=f'mergeFasta header of {s_}', observed=h, expected=' '.join(inputs[s_]), signature='merge-header')
            # encode + dictionary restores every header (with a decoy copy of every record)
            for pos in ('prefix', 'suffix'):
                src = d / f'td_{pos}.fasta'
                with open(src, 'w') as fh:
                    for h, s_ in merged[:40]:
                        fh.write(f'>{h}\n{s_}\n')
                        dh = ('DECOY_' + h) if pos == 'prefix' else (h + '_DECOY')
                        fh.write(f'>{dh}\n{s_[::-1]}\n')
                eargs = argparse.Namespace(command='encodeFasta', input_path=src, output_path=d / f'enc_{pos}.fasta',
                                           decoy_string='DECOY_' if pos == 'prefix' else '_DECOY', decoy_string_position=pos, quiet=True)
                cli.encode_fasta(eargs)
                mp = dict(l.rstrip('\n').split('\t', 1) for l in open(str(d / f'enc_{pos}.fasta') + '.dict'))
                enc = _read_fasta(d / f'enc_{pos}.fasta')
                orig = _read_fasta(src)
                if len(enc) != len(orig):
                    return dict(call=f'encodeFasta {pos}', observed=len(enc), expected=len(orig), signature='encode-count')
                for (eh, es), (oh, os_) in zip(enc, orig):
                    ds = eargs.decoy_string
                    if pos == 'prefix':
                        rest = (ds + mp.get(eh[len(ds):], '?')) if eh.startswith(ds) else mp.get(eh, '?')
                    else:
                        rest = (mp.get(eh[:-len(ds)], '?') + ds) if eh.endswith(ds) else mp.get(eh, '?')
                    if rest != oh or es != os_:
                        return dict(call=f'encodeFasta {pos}: restoring {eh}', observed=rest, expected=oh, signature='encode-not-restored')
        finally:
            shutil.rmtree(d, ignore_errors=True)
        return None

    def nontrivial(self, inp):
        return str(inp)


NATIVE = [NativeBookkeeping()]
