"""C09 — callAltTranslation: transcript selection, W>F site enumeration; bounded definitional oracle for the content."""
from __future__ import annotations
import types
import os
import z3
from pyvc.contract import Contract, Lemma, register, induction
from pyvc.core import Unsupported, as_bool
from pyvc.interp import LoopSpec, PyRaise
from pyvc.symlist import SymList
from pyvc.values import *
from pyvc.pstr import PStr
from .lib import *

CAT = 'moPepGen/cli/call_alt_translation.py'
VPD = 'moPepGen/svgraph/VariantPeptideDict.py'
I_, B_ = z3.IntSort(), z3.BoolSort()


# ----------------------------------------------------------------------------
# the command: which transcripts are processed, with which flags and filters
# ----------------------------------------------------------------------------
@register
class AltTranslationSelection(Contract):
    path, qualname, props = CAT, 'call_alt_translation', ('C09', 'C04')
    declared_raises = ['ValueError', '<any>']
    assumptions = (
        'havoc: call_alt_translation_main returns a collection of peptides or raises anything (graph construction and traversal are not under contract)',
        'assumed: common.load_references returns (genome, anno, proteome, canonical pool); anno.transcripts iterates N >= 0 transcripts',
    )

    def setup(self, I):
        e = I.e
        st = types.SimpleNamespace(calls=[], adds=[], writes=[])
        st.N = e.int('N')
        e.assume(st.N >= 0)
        st.coding = z3.Function('is_protein_coding', I_, B_)
        st.sect, st.w2f = e.bool('selenocysteine_termination'), e.bool('w2f_reassignment')
        dests = parser_dests('moPepGen.cli.call_alt_translation', 'add_subparser_call_alt_translation')
        known = dict(output_path=OpaqueStr(['out']), cleavage_rule='trypsin', cleavage_exception='auto', miscleavage='2', min_mw='500.',
                     min_length=7, max_length=25, selenocysteine_termination=st.sect, w2f_reassignment=st.w2f)
        st.args_obj = real_namespace(dests, known)
        st.canon, st.genome = SymObj('CanonicalPool'), SymObj('Genome')
        st.args = [st.args_obj]
        self._cur = st
        return st

    @property
    def models(self):
        return (self.install_models,)

    def install_models(self, reg):
        c = self
        noop = lambda I, a, k: None
        reg.func_('moPepGen/cli/common.py', 'validate_file_format', noop)
        reg.func_('moPepGen/cli/common.py', 'print_start_message', noop)
        reg.strict_attr_classes = {'Namespace'}

        def mk_params(I, a, k):
            c._cur.params = SymObj('CleavageParams', **k)
            return c._cur.params
        reg.ctor_('CleavageParams', mk_params)

        def load_refs(I, a, k):
            st = c._cur
            I.e.prove('C09/load_references/with-the-run-cleavage-params-and-the-proteome',
                      k.get('cleavage_params') is st.params and k.get('load_proteome') is True)
            st.anno = SymObj('AnnoStub9', transcripts=SymObj('TxDict9'))
            return (st.genome, st.anno, SymObj('Proteome'), st.canon)
        reg.func_('moPepGen/cli/common.py', 'load_references', load_refs)
        reg.protocol_('TxDict9', '__iter__', lambda I, o: FnView(c._cur.N, lambda i: SymObj('TxId9', idx=i if is_z3(i) else z3.IntVal(i)), tag='transcripts'))
        reg.protocol_('TxDict9', '__getitem__', lambda I, o, key: SymObj('TxModel9', is_protein_coding=c._cur.coding(key.fields['idx']), k=key.fields['idx']))

        def mk_pool(I, a, k):
            c._cur.pool = SymObj('Pool9')
            return c._cur.pool
        reg.ctor_('VariantPeptidePool', mk_pool)

        def add_peptide(I, o, a, k):
            st = c._cur
            I.e.prove('C04/callAltTranslation/add_peptide-uses-global-canonical-pool-and-run-params-and-checks',
                      k.get('canonical_peptides') is st.canon and k.get('cleavage_params') is st.params
                      and k.get('skip_checking', False) is False and not a)
            st.adds.append(k.get('peptide'))
            return I.e.bool('added')
        reg.method_('Pool9', 'add_peptide', add_peptide)
        reg.method_('Pool9', 'write', lambda I, o, a, k: c._cur.writes.append(a))

        def main_call(I, a, k):
            st = c._cur
            kk = k['tx_id'].fields['idx']
            st.calls.append(kk)
            I.e.prove('C09/main/model-of-this-transcript', z3.is_true(z3.simplify(k['tx_model'].fields['k'] == kk)))
            I.e.prove('C09/main/flags-forwarded', k['w2f_reassignment'] is st.w2f and k['sec_truncation'] is st.sect)
            I.e.prove('C09/main/run-cleavage-params-genome-annotation', k['cleavage_params'] is st.params and k['genome'] is st.genome and k['anno'] is st.anno)
            if I.e.choose(2, 'main outcome') == 1:
                raise PyRaise(SymExc('<any>', ['failure']))
            n = I.e.int('npep')
            I.e.assume(n >= 0)
            return FnView(n, lambda i: SymObj('PeptideRecord', i=i), tag='peptides')
        reg.func_(CAT, 'call_alt_translation_main', main_call)

    def on_head(self, I, env, k):
        self._cur.c0 = len(self._cur.calls)

    def step(self, I, env, k):
        st = self._cur
        new = st.calls[st.c0:]
        if new:
            return [('processed-only-if-protein-coding', st.coding(k)),
                    ('processed-once-for-this-transcript', len(new) == 1 and z3.is_true(z3.simplify(new[0] == k)))]
        return [('skipped-only-if-not-protein-coding', z3.Not(st.coding(k)))]

    def pep_head(self, I, env, k):
        self._cur.a0 = len(self._cur.adds)

    def pep_step(self, I, env, k):
        st = self._cur
        new = st.adds[st.a0:]
        return [('every-peptide-goes-through-the-pool-filter-once', len(new) == 1 and isinstance(new[0], SymObj)
                 and z3.is_true(z3.simplify(new[0].fields['i'] == k)))]

    @property
    def loops(self):
        T = lambda I, env, k: []
        return {0: LoopSpec(inv=T, on_head=self.on_head, step=self.step), 1: LoopSpec(inv=T, on_head=self.pep_head, step=self.pep_step)}

    def post_return(self, I, st, ret):
        I.e.prove('C09/exit/at-least-one-flag-and-fasta-written-once', z3.And(z3.Or(st.sect, st.w2f), len(st.writes) == 1))

    def post_raise(self, I, st, exc):
        if exc.cls == 'ValueError':
            I.e.prove('C09/raise/ValueError-iff-no-flag-given', z3.And(z3.Not(st.sect), z3.Not(st.w2f), not st.calls))
        elif exc.cls == 'AttributeError':
            I.e.prove(f'C09/every-option-read-is-defined-by-the-parser:{exc.msg}', False)
        else:
            I.e.prove('C09/raise/only-propagated-from-the-per-transcript-call', exc.cls == '<any>' and len(st.calls) >= 1)


# ----------------------------------------------------------------------------
# per-transcript caller: the graph is built from this transcript with its own completeness tags and the given flags
# ----------------------------------------------------------------------------
@register
class AltTranslationMain(Contract):
    """the transcript graph is built from the sequence of THIS transcript, with cds_start_nf / mrna_end_nf taken from the transcript's
    own tags, a known ORF and the run's cleavage parameters; Sec sites are gathered from the annotation; peptides are called with
    variants required, Sec truncation and W>F exactly as requested, and without external variants"""
    path, qualname, props = CAT, 'call_alt_translation_main', ('C09',)
    assumptions = ('havoc: ThreeFrameTVG / PeptideVariantGraph construction, translation, cleavage and traversal (not under contract); the '
                   'path is cut after call_variant_peptides: the collection of the labels into records is not covered here',)

    def setup(self, I):
        e = I.e
        st = types.SimpleNamespace(log=[])
        st.nf, st.end_nf = e.bool('tag_cds_start_NF'), e.bool('tag_mRNA_end_NF')
        st.w2f, st.sect = e.bool('w2f_reassignment'), e.bool('sec_truncation')
        tr = SymObj('GTFSeqFeatureStub9', chrom='chr1')
        st.tx = SymObj('TxModel9m', transcript=tr)
        st.params, st.anno = SymObj('CleavageParams9'), SymObj('Anno9')
        st.chrom = SymObj('Chrom9')
        st.genome = SymObj('Genome9')
        st.args = []
        st.kwargs = dict(tx_id='ENST_T', tx_model=st.tx, genome=st.genome, anno=st.anno, cleavage_params=st.params,
                         w2f_reassignment=st.w2f, sec_truncation=st.sect)
        self._cur = st
        return st

    @property
    def models(self):
        c = self

        def inst(reg):
            st_ = lambda: c._cur
            reg.protocol_('Genome9', '__getitem__', lambda I, o, key: st_().chrom)
            reg.method_('TxModel9m', 'is_cds_start_nf', lambda I, o, a, k: st_().nf)
            reg.method_('TxModel9m', 'is_mrna_end_nf', lambda I, o, a, k: st_().end_nf)

            def get_seq(I, o, a, k):
                I.e.prove('C09/main/sequence-read-from-the-chromosome-of-the-transcript', len(a) == 1 and a[0] is st_().chrom)
                st_().seq = SymObj('TxSeq9')
                return st_().seq
            reg.method_('TxModel9m', 'get_transcript_sequence', get_seq)

            def tvg(I, a, k):
                st = st_()
                I.e.prove('C09/main/graph-built-from-this-transcript-with-its-own-tags',
                          k.get('seq') is st.seq and k.get('_id') == 'ENST_T' and k.get('cds_start_nf') is st.nf and k.get('mrna_end_nf') is st.end_nf
                          and k.get('has_known_orf') is True and k.get('cleavage_params') is st.params
                          and k.get('coordinate_feature_type') == 'transcript' and k.get('coordinate_feature_id') == 'ENST_T' and not a)
                return SymObj('DGraph9')
            reg.ext_('svgraph.ThreeFrameTVG', tvg)
            reg.ctor_('ThreeFrameTVG', tvg)

            def log(name):
                def h(I, o, a, k):
                    st_().log.append((name, a, k))
                    return SymObj('PGraph9') if name == 'translate' else None
                return h
            for nm in ('gather_sect_variants', 'init_three_frames', 'translate'):
                reg.method_('DGraph9', nm, log(nm))
            reg.method_('PGraph9', 'create_cleavage_graph', log('create_cleavage_graph'))

            def call(I, o, a, k):
                st = st_()
                names = [x[0] for x in st.log]
                I.e.prove('C09/main/sec-sites-gathered-then-frames-translated-and-cleaved-before-calling',
                          names == ['gather_sect_variants', 'init_three_frames', 'translate', 'create_cleavage_graph'] and st.log[0][1][:1] == [st.anno])
                I.e.prove('C09/main/peptides-called-with-the-requested-modifications-only',
                          k.get('check_variants') is True and k.get('truncate_sec') is st.sect and k.get('w2f') is st.w2f
                          and k.get('check_external_variants') is False and not a)
                st.called = True
                from pyvc.core import PathEnd
                raise PathEnd()
            reg.method_('PGraph9', 'call_variant_peptides', call)
        return (inst,)

    def post_return(self, I, st, ret):
        I.e.prove('C09/main/peptides-come-from-the-graph-traversal', getattr(st, 'called', False))


# ----------------------------------------------------------------------------
# W>F: one reassignment per tryptophan
# ----------------------------------------------------------------------------
def str_find(I, seq, ch, start):
    """assumed contract of str/Seq.find(ch, start) for a single character"""
    e = I.e
    L = seq.length()
    j = e.int('find_result')
    q = z3.Int(e.fresh_name('q_find'))
    code = ord(ch)
    s0 = z3.If(start < 0, z3.If(start + L < 0, 0, start + L), start)
    none_after = lambda hi: z3.ForAll([q], z3.Implies(z3.And(s0 <= q, q < hi), seq.get(q) != code))
    e.assume(z3.Or(z3.And(j == -1, none_after(L)),
                   z3.And(s0 <= j, j < L, seq.get(j) == code, none_after(j))))
    return j


_FIND_LEMMA = {}


def install_find(reg):
    orig = getattr(PStr, '_orig_sym_method', PStr.sym_method)
    PStr._orig_sym_method = orig

    def sym_method(self, I, name, args, kwargs):
        if name == 'find' and args and isinstance(args[0], str) and len(args[0]) == 1:
            start = args[1] if len(args) > 1 else kwargs.get('start', 0)
            sz = start if is_z3(start) else z3.IntVal(start)
            j = str_find(I, self, args[0], sz)
            cnt = _FIND_LEMMA.get('cnt')
            if cnt is not None:
                # instance of lemma no_W_between_means_equal_counts (proved separately by induction)
                L = self.length()
                I.e.assume(z3.Implies(sz >= 0, z3.If(j == -1, z3.Implies(sz <= L, cnt(L) == cnt(sz)), cnt(j) == cnt(sz))))
            return j
        return orig(self, I, name, args, kwargs)
    PStr.sym_method = sym_method


@register
class NoWBetween(Lemma):
    """for cnt(0)=0, cnt(q+1)=cnt(q)+[P(q)]: if no position in [a, b) satisfies P then cnt(b) = cnt(a)  (induction on b)"""
    qualname, props = 'no_W_between_means_equal_counts', ('C09',)

    def obligations(self, e):
        cnt, P = z3.Function('cntN', I_, I_), z3.Function('PN', I_, B_)
        q, a, n = z3.Ints('qN aN nN')
        hy = [cnt(0) == 0, z3.ForAll([q], z3.Implies(q >= 0, cnt(q + 1) == cnt(q) + z3.If(P(q), 1, 0)), patterns=[cnt(q + 1)]), a >= 0]
        none = lambda b: z3.ForAll([q], z3.Implies(z3.And(a <= q, q < b), z3.Not(P(q))))
        Pb = lambda b: z3.Implies(z3.And(a <= b, none(b)), cnt(b) == cnt(a))
        return induction('equal-counts', Pb, n, hy)


@register
class FindCodonReassignments(Contract):
    """with w2f: exactly one W2F reassignment per W of the sequence, in order, W2F-(i+1) at [i, i+1) with ref W / alt F; without: none"""
    path, qualname, props = VPD, 'VariantPeptideDict.find_codon_reassignments', ('C09',)
    assumptions = ('assumed: Seq.find(ch, start=i) returns the first index >= i holding ch, or -1',)
    models = (install_find,)
    uses_lemmas = ('no_W_between_means_equal_counts',)

    def setup(self, I):
        e = I.e
        st = types.SimpleNamespace(appended=[])
        st.L = e.int('seq_len')
        st.seq = PStr.sym(e, 'pep', st.L)
        st.w2f = e.bool('w2f')
        st.isW = lambda q: st.seq.get(q) == ord('W')
        st.cnt = z3.Function('cntW', I_, I_)
        q, a, b = z3.Ints('q_w a_w b_w')
        for ax in [st.L >= 0, st.cnt(0) == 0,
                   z3.ForAll([q], z3.Implies(q >= 0, st.cnt(q + 1) == st.cnt(q) + z3.If(st.isW(q), 1, 0)), patterns=[st.cnt(q + 1)]),
                   z3.ForAll([a, b], z3.Implies(z3.And(0 <= a, a <= b), z3.And(st.cnt(a) <= st.cnt(b), st.cnt(b) - st.cnt(a) <= b - a)),
                             patterns=[z3.MultiPattern(st.cnt(a), st.cnt(b))])]:
            e.assume(ax)
        _FIND_LEMMA['cnt'] = st.cnt
        dct = SymObj('VariantPeptideDict', tx_id='ENST_T')
        st.args = [dct, st.seq]
        st.kwargs = dict(w2f=st.w2f)
        self._cur = st
        return st

    def mk_list(self, I):
        c = self

        def unwrap(v):
            c.check_record(I, v)
            return v.fields['location'].fields['start']
        return SymList(I, 'variants', z3.IntSort(), wrap=lambda t: SymObj('W2FAt', pos=t), unwrap=unwrap)

    def check_record(self, I, v):
        loc = v.fields['location']
        idp = v.fields['id']
        okid = isinstance(idp, OpaqueStr) and idp.parts[0] == 'W2F-' and len(idp.parts) == 2
        I.e.prove('C09/w2f/record-is-W-to-F-at-one-residue',
                  z3.And(loc.fields['end'] == loc.fields['start'] + 1, v.fields['ref'] == 'W' and v.fields['alt'] == 'F' and v.fields['type'] == 'W2F',
                         idp.parts[1] == loc.fields['start'] + 1 if okid else False,
                         v.fields['attrs'].get('TRANSCRIPT_ID') == 'ENST_T'))

    def havoc(self, I, env, k):
        env['variants'] = self.mk_list(I)

    def inv(self, I, env, k):
        st = self._cur
        vs, i = env['variants'], env['i']
        if isinstance(vs, list):
            return [('nothing-collected-at-entry', len(vs) == 0 and isinstance(i, int) and i == 0)]
        q = z3.Int('q_inv')
        upto = z3.If(i == -1, st.L, i)          # i == -1: the search is over, everything is collected
        return [('i-in-range', z3.Or(i == -1, z3.And(0 <= i, i <= st.L))),
                ('collected=one-per-W-before-i', z3.And(vs.length == st.cnt(upto),
                 z3.ForAll([q], z3.Implies(z3.And(0 <= q, q < upto, st.isW(q)), vs.arr[st.cnt(q)] == q))))]

    @property
    def loops(self):
        dec = lambda I, env, k: z3.If(env['i'] >= 0, self._cur.L - env['i'] + 1, 0) if is_z3(env['i']) else self._cur.L - env['i'] + 1
        return {0: LoopSpec(inv=self.inv, havoc=self.havoc, decreases=dec)}

    def post_return(self, I, st, ret):
        q = z3.Int('q_post')
        if isinstance(ret, list):
            I.e.prove('C09/w2f/none-without-the-flag-or-without-W',
                      z3.And(len(ret) == 0, z3.Or(z3.Not(st.w2f), z3.ForAll([q], z3.Implies(z3.And(0 <= q, q < st.L), z3.Not(st.isW(q)))))))
            return
        I.e.prove('C09/w2f/one-reassignment-per-W-in-order',
                  z3.And(st.w2f, ret.length == st.cnt(st.L),
                         z3.ForAll([q], z3.Implies(z3.And(0 <= q, q < st.L, st.isW(q)), ret.arr[st.cnt(q)] == q))))



# ----------------------------------------------------------------------------
# peptide-level modifications: leading M removal and selenocysteine termination (MiscleavedNodes.translational_modification)
# ----------------------------------------------------------------------------
class _Filtered:
    """[v for v in variants if P(v)] over the symbolic variant list, then .append(...)"""
    def __init__(self, view, P):
        self.view, self.P, self.appended = view, P, []

    def exists(self):
        j = z3.Int('j_kept')
        return z3.Exists([j], z3.And(0 <= j, j < self.view.length(), self.P(j)))

    def sym_truth(self, I):
        return True if self.appended else self.exists()

    def sym_method(self, I, name, a, k):
        if name == 'append':
            self.appended.append(a[0])
            return None
        raise Unsupported(f'filtered variants .{name}')


def _pstr_is(y, seq, lo, hi):
    """y == seq[lo:hi]  (0 <= lo <= hi <= len(seq) established by the caller), as a formula with a free index"""
    i = z3.Int('i_slice')
    if not isinstance(y, PStr):
        return z3.BoolVal(False)
    ln = y.length()
    ln = ln if is_z3(ln) else z3.IntVal(ln)
    return z3.And(ln == hi - lo, z3.ForAll([i], z3.Implies(z3.And(0 <= i, i < hi - lo), y.get(i) == seq.get(lo + i))))


@register
class SecAndStartModification(Contract):
    """what a joined (mis)cleaved peptide may turn into: the peptide itself and, at a start codon, the peptide without its leading M
    (only when variants are present or not required) - and, for every selenocysteine at s, the peptide cut before s, with and without
    the leading M; each form is yielded iff is_valid_seq accepts exactly that form (pool, denylist, size, X, mass: C04), Sec forms are
    labelled with the variants that end before the Sec codon plus the SECT event itself and are skipped when external variants are
    required and none is left; nothing else is yielded"""
    path, qualname, props = VPD, 'MiscleavedNodes.translational_modification', ('C09', 'C04', 'C05')
    assumptions = ('summary: MiscleavedNodes.is_valid_seq is its proved contract (C04 NodesIsValidSeq) seen as a predicate of the sequence',
                   'assumed: create_variant_peptide_id is a function of the variants it is given; copy.copy of metadata is a new object',
                   'the segment bookkeeping (node truncation loop, create_peptide_segments) is executed for a peptide of two nodes and is '
                   'not part of the obligations (segments belong to C03, not claimed)')

    def setup(self, I):
        e = I.e
        st = types.SimpleNamespace(yields=[], valid_calls=[], labels=[])
        st.L = e.int('pep_len')
        e.assume(st.L >= 1)
        st.seq = PStr.sym(e, 'pep', st.L)
        st.startM = st.seq.get(0) == ord('M')
        st.is_start, st.check_variants, st.check_external = e.bool('is_start_codon'), e.bool('check_variants'), e.bool('check_external_variants')
        st.nv, st.ns = e.int('n_variants'), e.int('n_selenocysteines')
        e.assume(z3.And(st.nv >= 0, st.ns >= 0))
        st.VE, st.S, st.SV = e.array('variant_end'), e.array('sec_offset_in_peptide'), e.array('sec_variant_start')
        j = z3.Int('j_sec')
        e.assume(z3.ForAll([j], z3.Implies(z3.And(0 <= j, j < st.ns), z3.And(0 <= st.S[j], st.S[j] < st.L))))
        zz = lambda i: i if is_z3(i) else z3.IntVal(i)
        st.variants = FnView(st.nv, lambda i: SymObj('VariantRecord', location=SymObj('FeatureLocation', end=st.VE[zz(i)]), _j=zz(i)), tag='variants')
        st.secs = FnView(st.ns, lambda i: SymObj('VariantRecordWithCoordinate', location=SymObj('FeatureLocation', start=st.S[zz(i)]),
                                                 variant=SymObj('VariantRecord', location=SymObj('FeatureLocation', start=st.SV[zz(i)]), _sec=zz(i))),
                         tag='selenocysteines')
        st.metadata = SymObj('VariantPeptideMetadata', label=None, has_variants=None, segments=None)
        mk_node = lambda n: SymObj('PVGNode', seq=SymObj('AASeq', seq=PStr.sym(e, f'node{n}')))
        st.nodes = [mk_node(0), mk_node(1)]
        st.pool, st.denylist = SymObj('Pool'), SymObj('Denylist')
        st.self = SymObj('MiscleavedNodes', tx_id='ENST_T', gene_id='ENSG_G')
        st.args = [st.self, st.seq, st.metadata, st.denylist, st.variants, st.is_start, st.secs, st.check_variants, st.check_external, st.pool, st.nodes]
        st.mark = (0, 0)
        self._cur = st
        return st

    @property
    def models(self):
        c = self

        def inst(reg):
            def is_valid(I, o, a, k):
                st = c._cur
                I.e.prove('C04/mod/validity-checked-against-the-pool-and-denylist-given', a[1] is st.pool and a[2] is st.denylist)
                b = I.e.bool('form_is_valid')
                st.valid_calls.append((a[0], b))
                return b
            reg.method_('MiscleavedNodes', 'is_valid_seq', is_valid)

            def copy_(I, a, k):
                v = a[0]
                if isinstance(v, SymObj) and v.cls == 'VariantPeptideMetadata':
                    return SymObj('VariantPeptideMetadata', **{**v.fields, '_copy_of': v})
                raise Unsupported(f'copy.copy({v!r})')
            reg.ext_('copy.copy', copy_)

            def set_guard(name):
                def h(I, o, v):
                    I.e.prove('C09/mod/given-metadata-not-modified', '_copy_of' in o.fields)
                    o.fields[name] = v
                return h
            for nm in ('label', 'has_variants', 'segments', 'orf'):
                reg._setattr[('VariantPeptideMetadata', nm)] = set_guard(nm)

            def mk_label(I, a, k):
                st = c._cur
                I.e.prove('C09/mod/label-for-this-transcript', k.get('transcript_id') == 'ENST_T' and k.get('gene_id') == 'ENSG_G' and k.get('orf_id') is None)
                lab = SymObj('Label', variants=k.get('variants'))
                st.labels.append(lab)
                return lab
            reg.func_('moPepGen/aa/VariantPeptideIdentifier.py', 'create_variant_peptide_id', mk_label)
            # segments are computed from a list of nodes; the contract follows which nodes (originals or truncated copies)
            reg.method_('MiscleavedNodes', 'create_peptide_segments', lambda I, o, a, k: SymObj('Segments', of=list(a[0]) if isinstance(a[0], list) else a[0]))
            reg.method_('PVGNode', 'copy', lambda I, o, a, k: SymObj('PVGNode', **{**o.fields, '_copy_of': o.fields.get('_copy_of', o), '_ltrunc': o.fields.get('_ltrunc', 0)}))

            def trunc_left(I, o, a, k):
                I.e.prove('C04/mod/only-copies-of-the-nodes-are-truncated', '_copy_of' in o.fields)
                o.fields['_ltrunc'] = o.fields.get('_ltrunc', 0) + a[0]

            def trunc_right(I, o, a, k):
                I.e.prove('C04/mod/only-copies-of-the-nodes-are-truncated', '_copy_of' in o.fields)
                o.fields['_rtrunc'] = a[0]
            reg.method_('PVGNode', 'truncate_left', trunc_left)
            reg.method_('PVGNode', 'truncate_right', trunc_right)

            def comp(I, node, env, view, kind):
                st = c._cur
                if view is not st.variants or kind != 'list' or len(node.generators[0].ifs) != 1:
                    return None
                g = node.generators[0]
                from pyvc.interp import Env

                def P(j):
                    sub = Env({}, env)
                    I.assign(g.target, view.get(j), sub)
                    return as_bool(I.truth(I.eval(g.ifs[0], sub)))
                return _Filtered(view, P)
            reg.comprehension_hooks.append(comp)
            reg.on_yield = c.on_yield
        return (inst,)

    def on_yield(self, I, frame, v):
        st = self._cur
        st.yields.append(v)
        e = I.e
        ok = isinstance(v, tuple) and len(v) == 2 and isinstance(v[0], PStr) and isinstance(v[1], SymObj)
        e.prove('C09/mod/yields-a-sequence-with-metadata', ok)
        if not ok:
            return
        y, md = v
        # C04: whatever is yielded was accepted by is_valid_seq as exactly this sequence
        i = z3.Int('i_same')
        same = lambda a: z3.And((a.length() if is_z3(a.length()) else z3.IntVal(a.length())) == (y.length() if is_z3(y.length()) else z3.IntVal(y.length())),
                                z3.ForAll([i], z3.Implies(z3.And(0 <= i, i < y.length()), a.get(i) == y.get(i))))
        e.prove('C04/mod/every-yielded-sequence-was-accepted-by-is_valid_seq',
                z3.Or(*[z3.And(b, same(a)) for a, b in st.valid_calls if isinstance(a, PStr)]) if st.valid_calls else False)
        e.prove('C09/mod/yielded-metadata-is-a-labelled-copy', md.fields.get('_copy_of') is not None and md.fields.get('label') in st.labels
                and md.fields.get('segments') is not None)

    # ---- the selenocysteine loop
    def head(self, I, env, k):
        st = self._cur
        st.mark = (len(st.yields), len(st.valid_calls), len(st.labels))

    def forms(self, I, st, calls, lo_hi, label_ok, has_variants, skipped, tag):
        """obligations shared by the plain block and one Sec iteration; calls = is_valid_seq calls made, yields accordingly"""
        lo, hi = lo_hi
        items = []
        ys = st.cur_yields
        startsM = z3.And(hi > 0, st.startM)
        if skipped is not None and not calls:
            items.append((f'{tag}/no-validity-test-only-when-nothing-can-be-reported', False))
            return items
        a0, b0 = calls[0]
        items.append((f'{tag}/first-validity-test-is-on-the-form-itself', _pstr_is(a0, st.seq, lo, hi)))
        if len(calls) > 1:
            a1, b1 = calls[1]
            items.append((f'{tag}/second-validity-test-is-on-the-form-without-its-leading-M', z3.And(st.is_start, startsM, _pstr_is(a1, st.seq, lo + 1, hi))))
            vs = b1
        else:
            items.append((f'{tag}/M-removed-form-untested-only-if-not-a-start-codon-or-no-leading-M', z3.Not(z3.And(st.is_start, startsM))))
            vs = z3.BoolVal(False)
        items.append((f'{tag}/at-most-two-validity-tests', len(calls) <= 2))
        want = z3.If(skipped, 0, z3.If(b0, 1, 0) + z3.If(vs, 1, 0)) if skipped is not None else z3.If(b0, 1, 0) + z3.If(vs, 1, 0)
        items.append((f'{tag}/one-peptide-per-accepted-form-and-none-otherwise', len(ys) == want))
        # which sequences
        if len(ys) == 2:
            items.append((f'{tag}/yields-the-form-then-the-form-without-M', z3.And(_pstr_is(ys[0][0], st.seq, lo, hi), _pstr_is(ys[1][0], st.seq, lo + 1, hi))))
        elif len(ys) == 1:
            items.append((f'{tag}/yields-the-accepted-form', z3.If(b0, _pstr_is(ys[0][0], st.seq, lo, hi), _pstr_is(ys[0][0], st.seq, lo + 1, hi))))
        # the table rows of a form are computed from nodes that spell that form: an M-removed form from a copy of the first node
        # with its first residue cut off, the form itself from an uncut first node; in the plain block the other nodes are the given ones
        kinds = ['full', 'mrem'] if len(ys) == 2 else [None]
        for (y, md), kind in zip(ys, kinds):
            seg = md.fields.get('segments')
            of = seg.fields.get('of') if isinstance(seg, SymObj) else None
            good = isinstance(of, list) and len(of) >= 1 and isinstance(of[0], SymObj)
            if good:
                first = of[0]
                lt = first.fields.get('_ltrunc', 0)
                base = first.fields.get('_copy_of', first)
                cut_ok = (lt == 0) if kind == 'full' else (lt == 1 and '_copy_of' in first.fields) if kind == 'mrem' else \
                    z3.If(b0, lt == 0, z3.BoolVal(lt == 1 and '_copy_of' in first.fields))
                good = z3.And(cut_ok, base is st.nodes[0] and (skipped is not None or (len(of) == len(st.nodes) and all(a_ is b_ for a_, b_ in zip(of[1:], st.nodes[1:])))))
            items.append((f'{tag}/segments-from-nodes-that-spell-the-yielded-form', good))
        for y, md in ys:
            lab = md.fields.get('label')
            items.append((f'{tag}/label-names-the-right-events', label_ok(lab)))
            items.append((f'{tag}/has_variants-flag', as_bool(I.truth(md.fields.get('has_variants'))) == has_variants))
        return items

    def step(self, I, env, k):
        st = self._cur
        ny, nc, nl = st.mark
        st.cur_yields = st.yields[ny:]
        calls = st.valid_calls[nc:]
        s = st.S[k]
        j = z3.Int('j_v')
        kept = lambda jj: st.VE[jj] <= st.SV[k]
        none_left = z3.Not(z3.Exists([j], z3.And(0 <= j, j < st.nv, kept(j))))
        skipped = z3.And(st.check_variants, st.check_external, none_left)

        def label_ok(lab):
            vs = lab.fields.get('variants') if isinstance(lab, SymObj) else None
            if not isinstance(vs, _Filtered) or vs.view is not st.variants or len(vs.appended) != 1:
                return False
            sv = vs.appended[0]
            if not (isinstance(sv, SymObj) and '_sec' in sv.fields):
                return False
            return z3.And(sv.fields['_sec'] == k, z3.ForAll([j], z3.Implies(z3.And(0 <= j, j < st.nv), vs.P(j) == kept(j))))
        return self.forms(I, st, calls, (0, s), label_ok, z3.BoolVal(True), skipped, 'C09/sec')

    @property
    def loops(self):
        T = lambda I, env, k: []
        # locals of the plain block that the Sec loop rebinds are 'initial or stale' inside the loop (engine: InitOrStale)
        return {0: LoopSpec(inv=T, havoc=lambda I, env, k: None, on_head=self.head, step=self.step)}

    def post_return(self, I, st, ret):
        # the plain block = everything before the first Sec iteration; obligations are generated on the exit path of the Sec loop,
        # where exactly the plain block has run (the arbitrary iteration ends its own path)
        e = I.e
        ny, nc, nl = st.mark if st.mark != (0, 0) else (len(st.yields), len(st.valid_calls), len(st.labels))
        st.cur_yields = st.yields[:ny]
        calls = st.valid_calls[:nc]
        enabled = z3.Or(st.nv > 0, z3.Not(st.check_variants))
        if not calls:
            e.prove('C09/plain/untested-only-when-variants-are-required-and-absent', z3.And(z3.Not(enabled), len(st.cur_yields) == 0))
            return

        def label_ok(lab):
            return isinstance(lab, SymObj) and lab.fields.get('variants') is st.variants
        e.prove('C09/plain/tested-only-when-variants-are-present-or-not-required', enabled)
        for nm, g in self.forms(I, st, calls, (0, st.L), label_ok, st.nv > 0, None, 'C09/plain'):
            e.prove(nm, g)


# ----------------------------------------------------------------------------
# the gate in front of the modifications: MiscleavedNodes.join_miscleaved_peptides
# ----------------------------------------------------------------------------
class _GhostBag:
    """a dict / list the gate only fills: membership and emptiness are unconstrained (fresh at every question); the size is
    unknown but fixed between two writes"""
    def __init__(self, name):
        self.name = name
        self.n = None

    def size(self, I):
        if self.n is None:
            self.n = I.e.int(f'len_{self.name}')
            I.e.assume(self.n >= 0)
        return self.n

    def sym_contains(self, I, item):
        return I.e.bool(f'{self.name}_has_key')

    def sym_setitem(self, I, key, v):
        self.n = None

    def sym_truth(self, I):
        return self.size(I) > 0

    def sym_len(self, I):
        return self.size(I)

    def sym_iadd(self, I, other):
        self.n = None
        return self

    def sym_method(self, I, name, a, k):
        if name == 'values':
            return FnView(self.size(I), lambda i: SymObj('VariantRecord', _of=self.name), tag=f'{self.name}.values()')
        if name == 'append':
            self.n = None
            return None
        raise Unsupported(f'{self.name}.{name}')


class _Joined(View):
    """seqs_to_join: the strings of the nodes of one series, in order; only the total length and the first string are followed"""
    def __init__(self, owner):
        self.owner = owner

    def length(self):
        return self.owner._cur.qn

    def get(self, i):
        return self.owner._cur.node_str(i)

    def sym_method(self, I, name, a, k):
        if name == 'append':
            return None
        raise Unsupported(f'seqs_to_join.{name}')


@register
class JoinGate(Contract):
    """for every series of miscleaved nodes that has an ORF and passes the variant requirements, the joined peptide reaches
    translational_modification unless (a) no selenocysteine is involved and neither its length nor, with a leading M, its length minus
    one lies within the length limits, or (b) it is not in the pool yet and is a canonical peptide (denylist) - where at a start codon both the
    peptide and its M-removed form must be canonical for it to be dropped; it is skipped only for these reasons, the modification step
    gets exactly the joined peptide, the denylist, the pool, the flags and the selenocysteines collected, and everything it yields is
    yielded on"""
    path, qualname, props = VPD, 'MiscleavedNodes.join_miscleaved_peptides', ('C04', 'C05', 'C08', 'C09')
    max_paths = 6000
    cover_any = True
    assumptions = ('havoc: the variant bookkeeping of the gate (which variants label the peptide, ORF validity, circRNA accounting) is '
                   'unconstrained: dictionaries and lists it fills answer every membership / emptiness question arbitrarily',
                   'summary: seq_has_valid_size is its proved contract (C05) seen as a predicate of the size; translational_modification is its '
                   'own contract (SecAndStartModification); str.join of the node strings has the summed length (loop invariant size = total)',
                   'quick tier explores is_circ_rna = False only; the thorough tier both values')

    def setup(self, I):
        e = I.e
        st = types.SimpleNamespace(calls=[], vs_calls=[], seq_made=[], yields=[])
        st.qn = e.int('n_nodes')
        e.assume(st.qn >= 1)
        st.LEN = z3.Function('node_len', I_, I_)
        st.CUM = z3.Function('cum_len', I_, I_)
        # CUM is the running total of the node string lengths; its defining equation is instantiated at the loop index only
        # (no quantified hypothesis, so that a broken gate is refuted with a model instead of coming out unknown)
        e.assume(z3.And(st.CUM(0) == 0, st.LEN(0) >= 0, st.CUM(st.qn) >= 0))
        zz = lambda i: i if is_z3(i) else z3.IntVal(i)
        st.strs = {}

        def node_str(i):
            i = zz(i)
            k = z3.simplify(i).sexpr()
            if k not in st.strs:
                st.strs[k] = PStr.sym(e, 'node_seq', st.LEN(i))
            return st.strs[k]
        st.node_str = node_str
        st.VS = z3.Function('size_within_limits', I_, B_)
        st.is_start, st.check_variants, st.check_external, st.truncate_sec, st.check_orf = (e.bool(n) for n in
            ('is_start_codon', 'check_variants', 'check_external_variants', 'truncate_sec', 'check_orf'))
        # quick tier: linear transcripts; thorough tier: the circRNA accounting branches of the gate as well (about 7x the paths)
        st.circ = e.bool('is_circ_rna') if getattr(I, 'tier', 'quick') == 'thorough' else False
        st.pool, st.deny = types.SimpleNamespace(), types.SimpleNamespace()
        st.in_pool, st.in_deny, st.tail_in_deny = e.bool('joined_in_pool'), e.bool('joined_in_denylist'), e.bool('joined_without_M_in_denylist')

        def contains(which):
            def f(I2, item):
                if item is getattr(st, 'J', None):
                    return st.in_pool if which == 'pool' else st.in_deny
                if which == 'deny' and isinstance(item, PStr) and str(item.tag).startswith('joined[') and str(item.tag) != 'joined':
                    return st.tail_in_deny
                raise Unsupported(f'membership of something else than the joined peptide in the {which}: {item!r} {getattr(item, "tag", None)!r}')
            return f
        st.pool.sym_contains, st.deny.sym_contains = contains('pool'), contains('deny')
        nodes = FnView(st.qn, lambda i: SymObj('PVGNode', i=zz(i), seq=SymObj('AASeq', seq=node_str(i)),
                                               selenocysteines=FnView(e.int('n_sec_here'), lambda t: SymObj('SecLoc'), tag='node secs'),
                                               variants=FnView(e.int('n_node_variants'), lambda t: SymObj('VarWithCoord', is_silent=e.bool('silent'),
                                                                                                    upstream_cleavage_altering=e.bool('uca'),
                                                                                                    variant=SymObj('VariantRecord', id=SymObj('VarId'))), tag='node variants'),
                                               upstream_indel_map=types.SimpleNamespace(sym_method=lambda I2, name, a, k: (
                                                   FnView(e.int('n_indels'), lambda t: SymObj('VariantRecord', id=SymObj('VarId')), tag='indels') if I2.e.branch(I2.e.bool('has_indels'), 'indels') else None))),
                       tag='queue')
        st.queue = nodes
        nser = e.int('n_series')
        e.assume(nser >= 0)
        series = FnView(nser, lambda k: SymObj('Series', nodes=nodes, additional_variants=FnView(e.int('n_series_add'), lambda t: SymObj('VariantRecord', id=SymObj('VarId')), tag='series add')), tag='series')
        norf = e.int('n_orfs')
        e.assume(norf >= 0)
        orfs = FnView(norf, lambda k: SymObj('PVGOrf', orf=(e.int('orf_a'), e.int('orf_b')), start_gain=FnView(e.int('n_sg'), lambda t: SymObj('VariantRecord', id=SymObj('VarId')), tag='sg'),
                                             cleavage_gain=FnView(e.int('n_cg'), lambda t: SymObj('VariantRecord', id=SymObj('VarId')), tag='cg')), tag='orfs')
        st.self = SymObj('MiscleavedNodes', data=series, orfs=orfs, is_circ_rna=st.circ, leading_node=SymObj('PVGNode', i=-1), subgraphs=SymObj('Subgraphs'),
                         tx_id='ENST_T', gene_id='ENSG_G')
        st.add_vars = FnView(e.int('n_additional_variants'), lambda t: SymObj('VariantRecord', id=SymObj('VarId')), tag='additional variants')
        st.args = [st.self]
        st.kwargs = dict(pool=st.pool, check_variants=st.check_variants, additional_variants=st.add_vars, denylist=st.deny, is_start_codon=st.is_start,
                         circ_rna=SymObj('CircModel'), truncate_sec=st.truncate_sec, check_external_variants=st.check_external, check_orf=st.check_orf)
        self._cur = st
        return st

    @property
    def models(self):
        c = self

        def inst(reg):
            reg.ctor_('VariantPeptideMetadata', lambda I, a, k: SymObj('VariantPeptideMetadata', orf=None, is_pure_circ_rna=None, check_orf=k.get('check_orf')))

            def vs(I, o, a, k):
                st = c._cur
                size = k.get('size')
                if size is None or a:
                    raise Unsupported('seq_has_valid_size on a sequence')
                st.vs_calls.append(size)
                return st.VS(size)
            reg.method_('MiscleavedNodes', 'seq_has_valid_size', vs)

            def mk_seq(I, a, k):
                st = c._cur
                v = a[0]
                ok = getattr(v, 'tag', None) == 'join' or (isinstance(v, OpaqueStr) and v.parts and v.parts[0] == 'join')
                I.e.prove('C04/gate/candidate=join-of-the-node-strings', ok)
                J = PStr.sym(I.e, 'joined', st.CUM(st.qn))
                st.J = J
                st.seq_made.append(J)
                orig = J.sym_getitem

                return J
            reg.ext_('Seq', mk_seq)
            reg.ext_('Bio.Seq.Seq', mk_seq)

            def tm(I, o, a, k):
                st = c._cur
                st.calls.append((a, k))
                n = I.e.int('n_forms')
                I.e.assume(n >= 0)
                st.results = FnView(n, lambda t: (SymObj('FormSeq', t=t if is_z3(t) else z3.IntVal(t)), SymObj('FormMeta', t=t if is_z3(t) else z3.IntVal(t))), tag='forms')
                return st.results
            reg.method_('MiscleavedNodes', 'translational_modification', tm)
            reg.method_('PVGOrf', 'is_valid_orf_to_misc_nodes', lambda I, o, a, k: I.e.bool('orf_valid_for_nodes'))
            reg.method_('PVGNode', 'is_missing_any_variant', lambda I, o, a, k: I.e.bool('node_missing_variant'))
            reg.method_('PVGNode', 'get_cleavage_gain_from_downstream', lambda I, o, a, k: FnView(I.e.int('n_cgd'), lambda t: SymObj('VariantRecord', id=SymObj('VarId')), tag='cgd'))
            reg.method_('PVGNode', 'any_unaccounted_downstream_cleavage_or_stop_altering', lambda I, o, a, k: I.e.bool('unaccounted_downstream'))
            reg.method_('VariantRecord', 'is_circ_rna', lambda I, o, a, k: I.e.bool('variant_is_circ'))
            reg.method_('SecLoc', 'shift', lambda I, o, a, k: SymObj('SecLoc'))
            reg.on_yield = c.on_yield
            reg.set_hooks.append(lambda v: (lambda I, v: v) if isinstance(v, FnView) and v.tag == 'map' else None)
            # {x for x in variants.values() if ...}: another unconstrained collection of variants
            reg.comprehension_hooks.append(lambda I, node, env, view, kind: _GhostBag('filtered_variants')
                                           if node.generators[0].ifs and str(getattr(view, 'tag', '')).endswith('.values()') else None)
        return (inst,)

    def on_yield(self, I, frame, v):
        st = self._cur
        st.yields.append(v)
        ok = isinstance(v, tuple) and len(v) == 2 and isinstance(v[0], SymObj) and v[0].cls == 'FormSeq' and isinstance(v[1], SymObj) and v[1].cls == 'FormMeta'
        I.e.prove('C04/gate/only-forms-of-the-modification-step-of-this-series-are-yielded',
                  ok and len(st.calls) == st.m[0] + 1 and z3.is_true(z3.simplify(v[0].fields['t'] == v[1].fields['t'])))

    def head10(self, I, env, k):
        self._cur.ymark = len(self._cur.yields)

    def step10(self, I, env, k):
        st = self._cur
        ys = st.yields[st.ymark:]
        return [('k-th-form-yielded-exactly-once', len(ys) == 1 and isinstance(ys[0], tuple) and z3.is_true(z3.simplify(ys[0][0].fields['t'] == k)))]

    # ---- loop 0: series
    def head0(self, I, env, k):
        st = self._cur
        st.m = (len(st.calls), len(st.vs_calls), len(st.seq_made), len(st.yields))
        st.sec_now = I.e.bool('selenocysteines_collected')

    def size_skip(self, st, size):
        firstM = st.node_str(0).get(0) == ord('M')
        return z3.And(z3.Not(st.sec_now), z3.Not(st.VS(size)), z3.Not(z3.And(st.LEN(0) > 0, firstM, st.VS(size - 1))))

    def deny_skip(self, st):
        return z3.And(z3.Not(st.in_pool), st.in_deny, z3.Or(z3.Not(st.is_start), st.tail_in_deny))

    def step0(self, I, env, k):
        st = self._cur
        calls, vsc, made, ys = st.calls[st.m[0]:], st.vs_calls[st.m[1]:], st.seq_made[st.m[2]:], st.yields[st.m[3]:]
        total = st.CUM(st.qn)
        items = []
        if calls:
            a, kw = calls[0]
            ok = len(calls) == 1 and len(made) == 1 and not kw and len(a) == 10
            items.append(('modification-step-called-once-with-ten-arguments', ok))
            if ok:
                items.append(('reached-only-if-the-size-gate-and-the-canonical-gate-allow-it', z3.And(z3.Not(self.size_skip(st, total)), z3.Not(self.deny_skip(st)))))
                items.append(('modification-step-gets-the-joined-peptide-the-denylist-the-pool-and-the-flags',
                              a[0] is st.J and a[2] is st.deny and a[4] is st.is_start and a[6] is st.check_variants and a[7] is st.check_external and a[8] is st.pool
                              and a[9] is st.queue and isinstance(a[1], SymObj) and a[1].cls == 'VariantPeptideMetadata' and isinstance(a[5], _SecBag)))
        else:
            items.append(('nothing-yielded-without-the-modification-step', not ys))
            if made:
                items.append(('dropped-after-joining-only-as-a-canonical-peptide-not-yet-in-the-pool', self.deny_skip(st)))
            elif vsc:
                items.append(('dropped-at-the-size-gate-only-if-neither-form-can-have-a-valid-length', z3.And(self.size_skip(st, total), vsc[0] == total)))
        return items

    # ---- loop 1: nodes of the series
    def havoc1(self, I, env, k):
        env['seqs_to_join'] = _Joined(self)
        env['variants'], env['in_seq_variants'] = _GhostBag('variants'), _GhostBag('in_seq_variants')
        env['selenocysteines'] = _SecBag(self)

    def inv1(self, I, env, k):
        st = self._cur
        size = env['size']
        return [('size=total-length-of-the-strings-joined-so-far', size == st.CUM(k))]

    def head1(self, I, env, k):
        st = self._cur
        I.e.assume(z3.And(st.LEN(k) >= 0, st.CUM(k + 1) == st.CUM(k) + st.LEN(k)))

    def havoc_keep(self, I, env, k):
        pass

    @property
    def loops(self):
        T = lambda I, env, k: []
        H = self.havoc_keep
        U = dict(target_after='unknown')
        return {0: LoopSpec(inv=T, havoc=H, on_head=self.head0, step=self.step0, **U),
                1: LoopSpec(inv=self.inv1, havoc=self.havoc1, on_head=self.head1, **U),
                2: LoopSpec(inv=T, havoc=H, **U), 3: LoopSpec(inv=T, havoc=H, **U),
                # an ORF is chosen only together with `break`: at every loop head none has been chosen yet
                4: LoopSpec(inv=lambda I, env, k: [('no-orf-chosen-before-the-break', env['valid_orf'] is None)], havoc=H, keep=('valid_orf',), **U),
                5: LoopSpec(inv=T, havoc=H, **U),
                6: LoopSpec(inv=T, havoc=H, **U), 7: LoopSpec(inv=T, havoc=H, **U), 8: LoopSpec(inv=T, havoc=H, **U), 9: LoopSpec(inv=T, havoc=H, **U),
                10: LoopSpec(inv=T, havoc=H, on_head=self.head10, step=self.step10, **U)}

    def post_return(self, I, st, ret):
        pass

    def post_raise(self, I, st, exc):
        if os.environ.get('PYVC_DEBUG'):
            print('RAISE', exc.cls, getattr(exc, 'msg', None), getattr(exc, 'args', None))


class _SecBag(_GhostBag):
    def __init__(self, owner):
        super().__init__('selenocysteines')
        self.owner = owner

    def sym_truth(self, I):
        return self.owner._cur.sec_now


# ----------------------------------------------------------------------------
# sequence-level W>F reassignment (VariantPeptideDict.translational_modification)
# ----------------------------------------------------------------------------
class _Reassignments(View):
    """result of find_codon_reassignments (its proved contract): n records, record j is W2F at [p_j, p_j+1) with alt F, p strictly
    increasing, every p_j holds W; none without the flag"""
    def __init__(self, I, st):
        self.st = st
        self.P = I.e.array('all_w_positions')

    def length(self):
        return self.st.n

    def get(self, j):
        j = j if is_z3(j) else z3.IntVal(j)
        return SymObj('VariantRecord', location=SymObj('FeatureLocation', start=self.P[j], end=self.P[j] + 1), alt='F', ref='W',
                      id=SymObj('W2FId', t=None, of_all=j))

    def sym_binop(self, I, op, other, reflected):
        if op == '+' and reflected and isinstance(other, list) and not other:
            return self
        return NotImplemented

    def sym_truth(self, I):
        return self.st.n > 0

    def sym_len(self, I):
        return self.st.n


class _Comb(View):
    """one element of itertools.combinations(reassignments, k): k records in the order of the list"""
    def __init__(self, st):
        self.st = st

    def length(self):
        return self.st.k

    def get(self, t):
        st = self.st
        t = t if is_z3(t) else z3.IntVal(t)
        return SymObj('VariantRecord', location=SymObj('FeatureLocation', start=st.Q[t], end=st.Q[t] + 1), alt='F', ref='W',
                      id=SymObj('W2FId', t=t), _t=t)


class _JoinedIds:
    def __init__(self, view):
        self.view = view


@register
class W2FModification(Contract):
    """for every peptide of the dictionary and every non-empty combination of its W>F reassignments: the modified sequence is the
    peptide with exactly the chosen tryptophans replaced by F (same length, every other residue unchanged); it is added only if
    is_valid_seq accepts it, once per metadata of the original peptide, labelled with the original label plus the ids of exactly the
    chosen reassignments and marked as carrying variants; nothing is removed and the original metadata is not modified"""
    path, qualname, props = VPD, 'VariantPeptideDict.translational_modification', ('C09', 'C05')
    assumptions = ('summary: find_codon_reassignments returns one W2F record per W in increasing position (contract FindCodonReassignments)',
                   'assumed: itertools.combinations(xs, k) yields every k-subset of xs once, each in the order of xs; range(1, n+1) yields 1..n',
                   'summary: is_valid_seq is its proved contract (C04 DictIsValidSeq) seen as a predicate of the sequence',
                   'assumed: copy.copy of a metadata object is a new object with the same attribute values; get_key() is a function of the metadata')

    def setup(self, I):
        e = I.e
        st = types.SimpleNamespace(log=[], validity=[], joined=None)
        st.L = e.int('pep_len')
        e.assume(st.L >= 1)
        st.seq = PStr.sym(e, 'pep', st.L)
        st.w2f = e.bool('w2f')
        st.n, st.k = e.int('n_reassignments'), e.int('k')
        st.Q = e.array('chosen_positions')
        st.SL = z3.Function('slot_of_position', I_, I_)
        t, u = z3.Ints('t_q u_q')
        e.assume(z3.And(st.n >= 0, z3.Implies(z3.Not(st.w2f), st.n == 0)))
        def comb_facts():
            return z3.And(
                1 <= st.k, st.k <= st.n, st.n <= st.L,
                z3.ForAll([t], z3.Implies(z3.And(0 <= t, t < st.k), z3.And(0 <= st.Q[t], st.Q[t] < st.L, st.seq.get(st.Q[t]) == ord('W'), st.SL(st.Q[t]) == t))),
                z3.ForAll([t, u], z3.Implies(z3.And(0 <= t, t < u, u < st.k), st.Q[t] < st.Q[u])))
        st.comb_facts = comb_facts
        st.M = e.int('n_metadata')
        e.assume(st.M >= 0)
        st.metas = FnView(st.M, lambda m: SymObj('VariantPeptideMetadata', label=SymObj('Label0', m=m if is_z3(m) else z3.IntVal(m)),
                                                 has_variants=e.bool('had_variants'), _orig=m), tag='metadata of the peptide')
        st.denylist = SymObj('Denylist')
        c = self

        class Peptides:
            def sym_getitem(s_, I2, key):
                I2.e.prove('C09/w2f-mod/metadata-of-the-original-peptide', key is st.seq)
                return types.SimpleNamespace(sym_method=lambda I3, name, a, k: st.metas if name == 'values' else (_ for _ in ()).throw(Unsupported(name)))

            def sym_method(s_, I2, name, a, k):
                if name == 'setdefault' and len(a) == 2 and a[1] == {}:
                    st.log.append(('setdefault', a[0]))
                    return Entry(a[0])
                raise Unsupported(f'peptides.{name}')

        class Entry:
            def __init__(s_, key):
                s_.key = key

            def sym_contains(s_, I2, item):
                return I2.e.bool('label_already_recorded')

            def sym_setitem(s_, I2, key, val):
                st.log.append(('store', s_.key, key, val))

        class Seqs:
            def sym_method(s_, I2, name, a, k):
                if name == 'add':
                    st.log.append(('seqs.add', a[0]))
                    return None
                raise Unsupported(f'seqs.{name}')
        st.peptides = Peptides()
        st.self = SymObj('VariantPeptideDict', peptides=st.peptides, seqs=Seqs(), tx_id='ENST_T')
        st.args = [st.self, st.w2f, st.denylist]
        self._cur = st
        return st

    def cond(self, st, i, upto):
        return z3.And(0 <= st.SL(i), st.SL(i) < upto, st.Q[st.SL(i)] == i)

    def is_substituted(self, st, s, upto):
        """s = the peptide with the first `upto` chosen positions replaced by F"""
        i = z3.Int('i_sub')
        if not isinstance(s, PStr):
            return z3.BoolVal(False)
        ln = s.length()
        return z3.And((ln if is_z3(ln) else z3.IntVal(ln)) == st.L,
                      z3.ForAll([i], z3.Implies(z3.And(0 <= i, i < st.L),
                                                s.get(i) == z3.If(self.cond(st, i, upto), ord('F'), st.seq.get(i)))))

    @property
    def models(self):
        c = self

        def inst(reg):
            def find(I, o, a, k):
                st = c._cur
                I.e.prove('C09/w2f-mod/reassignments-of-this-peptide-with-the-given-flag', a[0] is st.seq and a[1] is st.w2f)
                return _Reassignments(I, st)
            reg.method_('VariantPeptideDict', 'find_codon_reassignments', find)

            def copy_(I, a, k):
                v = a[0]
                st = c._cur
                if v is st.peptides:
                    n = I.e.int('n_peptides')
                    I.e.assume(n >= 0)
                    return FnView(n, lambda i: st.seq, tag='peptides of the dictionary')
                if isinstance(v, PStr):
                    return v
                if isinstance(v, SymObj) and v.cls == 'VariantPeptideMetadata':
                    return SymObj('VariantPeptideMetadata', **{**v.fields, '_copy_of': v})
                raise Unsupported(f'copy.copy({v!r})')
            reg.ext_('copy.copy', copy_)

            def combinations(I, a, k):
                st = c._cur
                I.e.prove('C09/w2f-mod/combinations-of-the-reassignments', isinstance(a[0], _Reassignments))
                st.k = a[1] if is_z3(a[1]) else z3.IntVal(a[1])
                ncomb = I.e.int('n_combinations')
                I.e.assume(ncomb >= 1)
                return FnView(ncomb, lambda j: _Comb(st), tag='combinations')
            reg.ext_('itertools.combinations', combinations)

            def is_valid(I, o, a, k):
                st = c._cur
                I.e.prove('C09/w2f-mod/validity-checked-on-the-fully-substituted-sequence-against-the-denylist',
                          z3.And(c.is_substituted(st, a[0], st.k), a[1] is st.denylist))
                st.validity.append(a[0])
                return I.e.bool('modified_sequence_is_valid')
            reg.method_('VariantPeptideDict', 'is_valid_seq', is_valid)
            reg.method_('VariantPeptideMetadata', 'get_key', lambda I, o, a, k: SymObj('MetaKey', of=o))

            def set_guard(name):
                def h(I, o, v):
                    I.e.prove('C09/w2f-mod/original-metadata-not-modified', '_copy_of' in o.fields)
                    o.fields[name] = v
                return h
            for nm in ('label', 'has_variants', 'segments', 'orf'):
                reg._setattr[('VariantPeptideMetadata', nm)] = set_guard(nm)
        return (inst,)

    # loop 3: for v in comb
    def havoc3(self, I, env, t):
        env['seq_mod'] = PStr.sym(I.e, 'seq_mod')

    def inv3(self, I, env, t):
        st = self._cur
        return [('prefix-of-the-combination-substituted', self.is_substituted(st, env['seq_mod'], t))]

    def head3(self, I, env, t):
        I.e.assume(self._cur.comb_facts())

    def init3(self, I, env):
        I.e.assume(self._cur.comb_facts())

    # loop 4: for metadata in ...values()
    def head4(self, I, env, m):
        st = self._cur
        st.mark = len(st.log)

    def step4(self, I, env, m):
        st = self._cur
        ev = st.log[st.mark:]
        sm = env['seq_mod']
        sets = [x for x in ev if x[0] == 'setdefault']
        adds = [x for x in ev if x[0] == 'seqs.add']
        stores = [x for x in ev if x[0] == 'store']
        items = [('entry-of-the-modified-sequence-created-or-reused', len(sets) == 1 and sets[0][1] is sm),
                 ('modified-sequence-registered', len(adds) == 1 and adds[0][1] is sm),
                 ('sequence-accepted-by-is_valid_seq', any(v is sm for v in st.validity))]
        for x in stores:
            md = x[3]
            ok = isinstance(md, SymObj) and md.fields.get('_copy_of') is not None and x[1] is sm and isinstance(x[2], SymObj) and x[2].fields.get('of') is md
            items.append(('stored-under-its-own-key-in-the-entry-of-the-modified-sequence', ok))
            if ok:
                orig = md.fields['_copy_of']
                items.append(('copy-of-this-metadata', z3.simplify(orig.fields['_orig'] == m) if is_z3(orig.fields['_orig']) else orig.fields['_orig'] == m))
                lab = md.fields['label']
                parts = lab.parts if isinstance(lab, OpaqueStr) else []
                flat = []
                for p_ in parts:
                    flat.extend(p_.parts if isinstance(p_, OpaqueStr) else [p_])
                # '|'.join(<ids of the combination>) is kept by the engine as ['join', '|', <view of the joined items>]
                good = (len(flat) == 5 and flat[0] is orig.fields['label'] and flat[1:4] == ['|', 'join', '|'] and isinstance(flat[4], View))
                if good:
                    tt = z3.Int('t_id')
                    it = flat[4].get(tt)
                    ln = flat[4].length()
                    good = (isinstance(it, SymObj) and it.cls == 'W2FId' and it.fields['t'] is not None and z3.is_true(z3.simplify(it.fields['t'] == tt))
                            and z3.is_true(z3.simplify((ln if is_z3(ln) else z3.IntVal(ln)) == st.k)))
                if not good and os.environ.get('PYVC_DEBUG'): print('LABEL', lab, flat)
                items.append(('label=original-label|ids-of-exactly-the-chosen-reassignments', good))
                items.append(('marked-as-carrying-variants', md.fields['has_variants'] is True))
        items.append(('at-most-one-record-per-metadata', len(stores) <= 1))
        return items

    @property
    def loops(self):
        T = lambda I, env, k: []
        return {0: LoopSpec(inv=T), 1: LoopSpec(inv=T), 2: LoopSpec(inv=T),
                3: LoopSpec(inv=self.inv3, havoc=self.havoc3, on_head=self.head3, on_init=self.init3),
                4: LoopSpec(inv=T, on_head=self.head4, step=self.step4)}

    def post_return(self, I, st, ret):
        I.e.prove('C09/w2f-mod/returns-nothing', ret is None)


# ----------------------------------------------------------------------------
# Native side: bounded definitional oracle for the peptide content
# ----------------------------------------------------------------------------
from pyvc.native import NativeCheck


class NativeAltTranslation(NativeCheck):
    name = 'alt_translation_oracle'
    props = ('C09',)
    functions = (f'{CAT}:call_alt_translation', f'{VPD}:VariantPeptideDict.find_codon_reassignments')
    bounded_for = ('callAltTranslation output = digestion products of the annotated ORF that need selenocysteine termination and/or W>F '
                   'substitution, minus the canonical pool, within the limits; headers name sufficient events')
    bound = ('demo reference (test/files: 4 coding transcripts, one with two Sec sites, one cds_start_NF), trypsin + exception; flag combinations '
             'x miscleavage 0-2 x min/max length; thorough adds lysc / asp-n. W>F is applied to digestion products (the reading the code implements)')
    quick_budget_s = 120
    thorough_budget_s = 600

    def cases(self, rng, tier):
        for flags in (dict(selenocysteine_termination=True), dict(w2f_reassignment=True), dict(selenocysteine_termination=True, w2f_reassignment=True)):
            for mc in ('2', '0') if tier != 'thorough' else ('2', '1', '0'):
                yield dict(flags, miscleavage=mc)
        yield dict(selenocysteine_termination=True, w2f_reassignment=True, min_length=9, max_length=15)
        if tier == 'thorough':
            for rule in ('lysc', 'asp-n'):
                yield dict(selenocysteine_termination=True, w2f_reassignment=True, cleavage_rule=rule, cleavage_exception=None)

    def check(self, inp):
        from . import cv_run, pyspec
        anno, genome, proteome = cv_run.demo_reference()
        opts = dict(inp)
        out = cv_run.run_call_alt_translation(**opts)
        rule = opts.get('cleavage_rule', 'trypsin')
        exc = opts.get('cleavage_exception', 'trypsin_exception')
        mc = int(opts.get('miscleavage', '2'))
        lo, hi = opts.get('min_length', 7), opts.get('max_length', 25)
        sect, w2f = opts.get('selenocysteine_termination', False), opts.get('w2f_reassignment', False)
        nf = {t for t in proteome if t in anno.transcripts and anno.transcripts[t].is_cds_start_nf()}
        canon = pyspec.canonical_pool({t: str(p_.seq) for t, p_ in proteome.items()}, rule, exc, mc, 500., lo, hi, cds_start_nf=nf)
        keep = lambda q: pyspec.keep(q, 500., lo, hi) or (q and 'U' in q and lo <= len(q) <= hi)
        expect = {}
        for tx_id in anno.transcripts:
            tx = anno.transcripts[tx_id]
            if not tx.is_protein_coding:
                continue
            rec = tx.get_transcript_sequence(genome[tx.transcript.chrom])
            seq = str(rec.seq)
            a, b = int(rec.orf.start), int(rec.orf.end)
            secs = sorted((int(x.start) - a) // 3 for x in rec.selenocysteine)
            prot = list(pyspec.translate(seq[a:b]))
            for u in secs:
                if u < len(prot):
                    prot[u] = 'U'
            prot = ''.join(prot)
            stop = prot.find('*')
            full = prot if stop == -1 else prot[:stop]
            start_nf = tx.is_cds_start_nf()
            base = {}     # peptide -> set of event tuples that suffice
            digest = lambda s_: pyspec.digest(s_, rule, exc, mc, 500., lo, hi, cds_start_nf=start_nf, filt=False)
            full_products = digest(full)
            if sect:
                for u in secs:
                    if u >= len(full):
                        continue
                    trunc = full[:u]
                    for q in digest(trunc):
                        if trunc.endswith(q) and q not in full_products or (trunc.endswith(q) and q):
                            base.setdefault(q, set()).add('SECT')
            products = {q: set() for q in full_products}
            for q, ev in base.items():
                products.setdefault(q, set()).update(ev)
            for q, ev in products.items():
                forms = {q: bool(ev)}
                if w2f:
                    for f_ in pyspec.w2f_forms(q):
                        forms[f_] = True
                for f_, needs in forms.items():
                    if needs and f_ not in canon and keep(f_):
                        expect.setdefault(f_, set()).add(tx_id)
        got = set(out.values())
        exp = set(expect)
        if got != exp:
            import hashlib, json as _json
            sig = hashlib.sha256(_json.dumps([sorted(exp - got), sorted(got - exp)]).encode()).hexdigest()[:16]
            return dict(call=f'callAltTranslation {inp}', observed=dict(n=len(got), missing=sorted(exp - got)[:8], extra=sorted(got - exp)[:8],
                                                                         n_missing=len(exp - got), n_extra=len(got - exp)),
                        expected=dict(n=len(exp)), signature=sig)
        for h, p_ in out.items():
            for ent in h.split(' '):
                f = ent.split('|')
                if f[0] not in expect[p_]:
                    return dict(call=f'header of {p_}', observed=ent, expected=f'a transcript whose ORF yields it: {sorted(expect[p_])}', signature='header-transcript')
                ev = [x for x in f[1:-1]]
                if not ev or not all(x.startswith('SECT-') or x.startswith('W2F-') for x in ev):
                    return dict(call=f'header of {p_}', observed=ent, expected='only SECT-/W2F- events, at least one', signature='header-events')
                for x in ev:
                    if x.startswith('W2F-') and p_[int(x[4:]) - 1] != 'F':
                        return dict(call=f'header of {p_}', observed=ent, expected='W2F position holds F', signature='header-w2f-position')
                if not sect and any(x.startswith('SECT-') for x in ev) or not w2f and any(x.startswith('W2F-') for x in ev):
                    return dict(call=f'header of {p_}', observed=ent, expected='only events of the given flags', signature='header-flag')
        return None


NATIVE = [NativeAltTranslation()]
