"""Run the REAL callVariant / callNovelORF / callAltTranslation in-process (bounded stand-ins)."""
from __future__ import annotations
import argparse, os, tempfile, shutil, logging
from pathlib import Path

DATA = Path(os.environ.get('PYVC_REPO', '/repo')) / 'test' / 'files'


def base_args(**over):
    a = argparse.Namespace()
    a.command = 'callVariant'
    a.index_dir = None
    a.genome_fasta = DATA / 'genome.fasta'
    a.annotation_gtf = DATA / 'annotation.gtf'
    a.proteome_fasta = DATA / 'translate.fasta'
    a.reference_source = None
    a.output_path = None
    a.graph_output_dir = None
    a.max_adjacent_as_mnv = 0
    a.backsplicing_only = False
    a.coding_novel_orf = False
    a.selenocysteine_termination = False
    a.w2f_reassignment = False
    a.max_variants_per_node = [7]
    a.additional_variants_per_misc = [2]
    a.min_nodes_to_collapse = 30
    a.naa_to_collapse = 5
    a.inclusion_biotypes = None
    a.exclusion_biotypes = None
    a.cleavage_rule = 'trypsin'
    a.cleavage_exception = None
    a.miscleavage = '2'
    a.min_mw = '500.'
    a.min_length = 7
    a.max_length = 25
    a.quiet = True
    a.debug_level = 1
    a.noncanonical_transcripts = False
    a.invalid_protein_as_noncoding = False
    a.threads = 1
    a.timeout_seconds = 1800
    a.skip_failed = False
    for k, v in over.items():
        setattr(a, k, v)
    return a


DEMO_GVFS = ['vep/vep_gSNP.gvf', 'vep/vep_gINDEL.gvf', 'fusion/fusion.gvf', 'circRNA/circ_rna.gvf',
             'reditools/reditools.gvf', 'alternative_splicing/alternative_splicing.gvf']


def read_fasta(path):
    out = {}
    cur = None
    with open(path) as fh:
        for line in fh:
            line = line.rstrip('\n')
            if line.startswith('>'):
                cur = line[1:]
                out[cur] = ''
            elif cur is not None:
                out[cur] += line
    return out


def run_call_variant(gvfs=None, workdir=None, **over):
    """returns dict header -> sequence of the callVariant FASTA, plus the peptide table rows"""
    from moPepGen import cli
    logging.disable(logging.CRITICAL)
    own = workdir is None
    workdir = workdir or tempfile.mkdtemp(prefix='pyvc_cv_')
    try:
        gv = [Path(g) if os.path.isabs(str(g)) else DATA / g for g in (gvfs if gvfs is not None else DEMO_GVFS)]
        args = base_args(input_path=gv, output_path=Path(workdir) / 'out.fasta', **over)
        cli.call_variant_peptide(args)
        fasta = read_fasta(Path(workdir) / 'out.fasta')
        table = []
        tp = Path(workdir) / 'out_peptide_table.txt'
        if tp.exists():
            with open(tp) as fh:
                for line in fh:
                    if not line.startswith('#'):
                        table.append(line.rstrip('\n').split('\t'))
        return fasta, table
    finally:
        if own:
            shutil.rmtree(workdir, ignore_errors=True)


def run_call_novel_orf(**over):
    from moPepGen import cli
    logging.disable(logging.CRITICAL)
    workdir = tempfile.mkdtemp(prefix='pyvc_no_')
    try:
        kw = dict(command='callNovelORF', output_path=Path(workdir) / 'novel.fasta',
                  output_orf=Path(workdir) / 'orf.fasta', min_tx_length=21, orf_assignment='max',
                  cleavage_exception='trypsin_exception')
        kw.update(over)
        args = base_args(**kw)
        cli.call_novel_orf_peptide(args)
        return read_fasta(Path(workdir) / 'novel.fasta'), read_fasta(Path(workdir) / 'orf.fasta')
    finally:
        shutil.rmtree(workdir, ignore_errors=True)


def run_call_alt_translation(**over):
    from moPepGen import cli
    logging.disable(logging.CRITICAL)
    workdir = tempfile.mkdtemp(prefix='pyvc_at_')
    try:
        kw = dict(command='callAltTranslation', output_path=Path(workdir) / 'alt.fasta',
                  cleavage_exception='trypsin_exception')
        kw.update(over)
        args = base_args(**kw)
        cli.call_alt_translation(args)
        return read_fasta(Path(workdir) / 'alt.fasta')
    finally:
        shutil.rmtree(workdir, ignore_errors=True)


_REF = {}


def demo_reference():
    """(anno, genome, proteome) of the demo data, parsed once with the real loaders"""
    if 'ref' not in _REF:
        from moPepGen import gtf, dna, aa
        anno = gtf.GenomicAnnotationOnDisk()
        anno.generate_index(DATA / 'annotation.gtf')
        genome = dna.DNASeqDict()
        genome.dump_fasta(DATA / 'genome.fasta')
        proteome = aa.AminoAcidSeqDict()
        proteome.dump_fasta(DATA / 'translate.fasta')
        anno.check_protein_coding(proteome, False)
        _REF['ref'] = (anno, genome, proteome)
    return _REF['ref']
