"""C15 — the text parsers in front of the fusion converters: every data row of the tool output becomes one record that carries the columns of that row."""
from __future__ import annotations
import types
import z3
from pyvc.contract import Contract, register
from pyvc.core import Unsupported
from pyvc.interp import LoopSpec
from pyvc.values import *
from . import tables as T

SF = 'moPepGen/parser/STARFusionParser.py'
FC = 'moPepGen/parser/FusionCatcherParser.py'
AR = 'moPepGen/parser/ArribaParser.py'


class _File15b(T.TFile):
    """counts the lines taken with next() so that a for-loop reader that also takes lines behind the back of its loop is noticed"""
    def __init__(self, tab):
        super().__init__(tab)
        self.reads = 0

    def sym_next(self, I, default):
        self.reads += 1
        return super().sym_next(I, default)


def _first_loop_is_while(I, path, qualname):
    import ast
    fn = I.repo.function_node(path, qualname)[2]
    for n in ast.walk(fn):
        if isinstance(n, (ast.For, ast.While)):
            break
    else:
        raise Unsupported(f'{qualname}: no loop over the lines of the table')
    first = min((n for n in ast.walk(fn) if isinstance(n, (ast.For, ast.While))), key=lambda n: (n.lineno, n.col_offset))
    return isinstance(first, ast.While)


class _TableParser(Contract):
    """<tool>Parser.parse: every line of the tool output that is neither the header nor a comment yields exactly one record, in file order, and each
    field of the record is the column of that line the tool documentation gives it (numbers read as numbers, lists split at the documented separator);
    comment lines yield nothing; nothing ends the loop early"""
    props = ('C15',)
    qualname = 'parse'
    NCOL = 0
    HEADER_LINES = 0          # lines dropped unread before the loop (the column header)
    RECORD = ''
    COLUMNS = {}              # field -> (column, kind)
    WHILE = True
    assumptions = ('assumed: every data row has all the columns of the tool format, none empty, so rstrip() removes the line break only; int() / float() '
                   'of a column is the number written there; split(sep) gives the parts of a column in order',)

    def setup(self, I):
        st = types.SimpleNamespace(yielded=[])
        st.tab = T.Table(I, self.NCOL, 'tool_output')
        st.tab.file = _File15b(st.tab)
        st.args = [OpaqueStr(['fusions.tsv'])] if self.WHILE else [st.tab.file]
        # the reader may be written as `while line: ... line = next(handle, None)` or as `for line in handle`: both are read with the same obligations
        st.is_while = _first_loop_is_while(I, self.path, self.qualname)
        st.pos0 = 0
        self._cur = st
        return st

    def ctor(self, I, a, k):
        if a:
            I.raise_('TypeError', 'positional arguments')
        return SymObj('Row15b', **k)

    @property
    def models(self):
        c = self

        def inst(reg):
            reg.ext_('open', lambda I, a, k: c._cur.tab.file)
            reg.ctor_(c.RECORD, c.ctor)
            reg.on_yield = lambda I, frame, v: c._cur.yielded.append(v)
        return (inst,)

    # -- while loops driven by next(handle, None)
    def havoc(self, I, env, k):
        st = self._cur
        if not st.is_while:
            return
        env.set('line', T.TLine(st.tab, k + self.HEADER_LINES))
        st.tab.file.pos = k + self.HEADER_LINES + 1

    def inv(self, I, env, k):
        st = self._cur
        if not st.is_while:
            # for line in handle: the lines from the cursor on, one per iteration; only the header may have been taken before the loop
            if isinstance(k, int) and k == 0:
                st.pos0 = st.tab.file.pos
                return [('exactly-the-header-lines-are-dropped-before-the-loop', z3.BoolVal(bool(isinstance(st.pos0, int) and st.pos0 == self.HEADER_LINES)))]
            return []
        ln = env.lookup('line') if env.has('line') else None
        ok = isinstance(ln, T.TLine) and not ln.stripped and T.same(ln.k, T.zz(k) + self.HEADER_LINES)
        ok = ok and T.same(st.tab.file.pos, T.zz(k) + self.HEADER_LINES + 1)
        return [('line-is-the-next-unread-line-of-the-file-after-the-header', z3.BoolVal(bool(ok)))]

    def head(self, I, env, k):
        self._cur.mark = len(self._cur.yielded)
        self._cur.reads0 = self._cur.tab.file.reads

    def row_index(self, k):
        return T.zz(k) + self.HEADER_LINES

    def stray_reads(self):
        st = self._cur
        if st.is_while or st.tab.file.reads == st.reads0:
            return []
        return [('no-line-is-taken-from-the-file-behind-the-back-of-the-for-loop', False)]

    def step(self, I, env, k):
        st = self._cur
        row = self.row_index(k)
        new = st.yielded[st.mark:]
        if not new:
            return self.stray_reads() + [('a-line-yields-nothing-only-as-a-comment', st.tab.comment(row))]
        if len(new) != 1 or not (isinstance(new[0], SymObj) and new[0].cls == 'Row15b'):
            return [('one-record-per-data-line', False)]
        r = new[0]
        obl = self.stray_reads() + [('a-comment-line-yields-no-record', z3.Not(st.tab.comment(row)))]
        missing = [f for f in self.COLUMNS if f not in r.fields]
        obl.append(('every-field-of-the-record-is-given', z3.BoolVal(not missing)))
        for f, (col, kind) in self.COLUMNS.items():
            what = kind if isinstance(kind, str) else f'{kind[0]}-at-{kind[1]!r}'.replace("'", '')
            obl.append((f'{f}-is-column-{col + 1}-of-this-line-as-{what}', z3.BoolVal(bool(T.check_value(r.fields.get(f), row, col, kind)))))
        return obl

    def on_exit(self, I, env, k):
        return [('all-lines-were-visited', self.row_index(k) >= self._cur.tab.n)]

    @property
    def loops(self):
        return {0: LoopSpec(inv=self.inv, havoc=self.havoc, on_head=self.head, step=self.step, target_after='unknown',
                            on_break=lambda I, env, k: [('every-line-is-visited', False)], on_exit=self.on_exit)}


@register
class StarFusionTable(_TableParser):
    __doc__ = _TableParser.__doc__
    path, NCOL, HEADER_LINES, RECORD = SF, 19, 0, 'STARFusionRecord'
    COLUMNS = dict(fusion_name=(0, 'text'), junction_read_count=(1, 'int'), spanning_frag_count=(2, 'int'), est_j=(3, 'float'), est_s=(4, 'float'),
                   splice_type=(5, 'text'), left_gene=(6, ('last', '^')), left_breakpoint=(7, 'text'), right_gene=(8, ('last', '^')),
                   right_breakpoint=(9, 'text'), junction_reads=(10, ('parts', ',')), spanning_frags=(11, ('parts', ',')),
                   large_anchor_support=(12, 'text'), ffpm=(13, 'float'), left_break_dinuc=(14, 'text'), left_break_entropy=(15, 'float'),
                   right_break_dinuc=(16, 'text'), right_break_entropy=(17, 'float'),
                   annots=(18, ('parts', ',', (('strip', ']['), ('replace', '"', '')))))


@register
class FusionCatcherTable(_TableParser):
    __doc__ = _TableParser.__doc__
    path, NCOL, HEADER_LINES, RECORD = FC, 16, 1, 'FusionCatcherRecord'
    COLUMNS = dict(five_end_gene_symbol=(0, 'text'), three_end_gene_symbol=(1, 'text'), fusion_descriptions=(2, ('parts', ',')),
                   counts_of_common_mapping_reads=(3, 'int'), spanning_pairs=(4, 'int'), spanning_unique_reads=(5, 'int'),
                   longest_anchor_found=(6, 'int'), fusion_finding_method=(7, ('parts', ';')), five_end_breakpoint=(8, 'text'),
                   three_end_breakpoint=(9, 'text'), five_end_gene_id=(10, 'text'), three_end_gene_id=(11, 'text'), five_end_exon_id=(12, 'text'),
                   three_end_exon_id=(13, 'text'), fusion_sequence=(14, ('tuple', '*')), predicted_effect=(15, 'text'))

    @property
    def models(self):
        base = super().models

        def inst(reg):
            # tuple(<parts>) keeps the parts
            reg.global_(FC, 'tuple', Builtin('tuple', lambda I, a, k: SymObj('TupleOfParts15b', parts=a[0]) if a and isinstance(a[0], T.TParts)
                                             else (tuple(I.iter_concrete(a[0])) if a else ())))
        return base + (inst,)

    def step(self, I, env, k):
        obl = super().step(I, env, k)
        st = self._cur
        new = st.yielded[st.mark:]
        if len(new) == 1 and isinstance(new[0], SymObj):
            v = new[0].fields.get('fusion_sequence')
            ok = isinstance(v, SymObj) and v.cls == 'TupleOfParts15b' and T.check_value(v.fields['parts'], self.row_index(k), 14, ('parts', '*'))
            obl = [(n, g) if not n.startswith('fusion_sequence-') else (n, z3.BoolVal(bool(ok))) for n, g in obl]
        return obl


ARRIBA_COLUMNS = ['gene1', 'gene2', 'strand1', 'strand2', 'breakpoint1', 'breakpoint2', 'site1', 'site2', 'type', 'split_reads1', 'split_reads2',
                  'discordant_mates', 'coverage1', 'coverage2', 'confidence', 'reading_frame', 'tags', 'retained_protein_domains',
                  'closest_genomic_breakpoint1', 'closest_genomic_breakpoint2', 'gene_id1', 'gene_id2', 'transcript_id1', 'transcript_id2', 'direction1',
                  'direction2', 'filters', 'fusion_transcript', 'peptide_sequence', 'read_identifiers']


@register
class ArribaTable(_TableParser):
    """ArribaParser.parse(handle): every line that does not start with '#' yields exactly one record, in file order, whose n-th constructor argument is the
    n-th column of that line (columns 10-14 read as integers, the confidence column wrapped in ArribaConfidence - a ValueError for a text that is not a
    confidence level is the only failure -, filters and read identifiers split at commas); comment lines yield nothing; nothing ends the loop early"""
    path, NCOL, HEADER_LINES, RECORD, WHILE = AR, 30, 0, 'ArribaRecord', False
    KINDS = {9: 'int', 10: 'int', 11: 'int', 12: 'int', 13: 'int', 26: ('parts', ','), 29: ('parts', ',')}
    COLUMNS = {}

    def ctor(self, I, a, k):
        return SymObj('Row15b', positional=list(a), keywords=dict(k))

    def post_raise(self, I, st, exc):
        I.e.prove('C15/arriba-table/the-only-failure-is-a-confidence-text-that-is-no-level', exc.cls == 'ValueError')

    def step(self, I, env, k):
        st = self._cur
        new = st.yielded[st.mark:]
        if not new:
            return [('a-line-yields-nothing-only-as-a-comment', st.tab.comment(T.zz(k)))]
        if len(new) != 1 or not (isinstance(new[0], SymObj) and new[0].cls == 'Row15b'):
            return [('one-record-per-data-line', False)]
        pos, kw = new[0].fields['positional'], new[0].fields['keywords']
        obl = self.stray_reads() + [('a-comment-line-yields-no-record', z3.Not(st.tab.comment(T.zz(k)))),
               ('the-record-gets-the-30-columns-in-order', z3.BoolVal(len(pos) == 30 and not kw))]
        for col, v in enumerate(pos[:30]):
            name = ARRIBA_COLUMNS[col]
            if col == 14:
                ok = isinstance(v, SymObj) and v.cls == 'ArribaConfidence' and T.check_value(v.fields.get('data'), k, 14, 'text')
            else:
                ok = T.check_value(v, k, col, self.KINDS.get(col, 'text'))
            obl.append((f'argument-{col + 1}-{name}-is-column-{col + 1}-of-this-line', z3.BoolVal(bool(ok))))
        return obl
