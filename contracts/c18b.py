"""C18 / C19 — printing a header entry: the four identifier classes print exactly their slots, '|'-separated, in a fixed order.

Together with ParseHeader (contracts/c18.py: every field of an entry is filed in exactly one slot) this gives the parse / print round
trip of a header entry up to the order of its fields."""
from __future__ import annotations
import types
import z3
from pyvc.contract import Contract, register
from pyvc.core import Unsupported, as_bool
from pyvc.values import *

VPI = 'moPepGen/aa/VariantPeptideIdentifier.py'


class _Ids(View):
    """a list of variant ids of unknown length (one slot of an identifier)"""
    def __init__(self, e, name):
        self.name = name
        self.n = e.int(f'n_{name}')
        e.assume(self.n >= 0)

    def length(self):
        return self.n

    def get(self, i):
        return SymObj('IdOf', slot=self.name, i=i if is_z3(i) else z3.IntVal(i))

    def sym_binop(self, I, op, other, reflected):
        if op == '+' and reflected and isinstance(other, list):
            return _Printed(list(other) + [self])
        return NotImplemented

    def __repr__(self):
        return f'<ids {self.name}>'


class _Prefixed:
    """[f"{p}-{it}" for it in <slot>]"""
    def __init__(self, prefix, ids):
        self.prefix, self.ids = prefix, ids

    def sym_binop(self, I, op, other, reflected):
        if op == '+' and reflected and isinstance(other, list):
            return _Printed(list(other) + [self])
        return NotImplemented


class _Printed:
    """the list x that is joined at the end: single fields and whole slots, in order"""
    def __init__(self, segs):
        self.segs = segs

    def sym_iadd(self, I, other):
        if isinstance(other, (_Ids, _Prefixed)):
            self.segs.append(other)
            return self
        if isinstance(other, list):
            self.segs.extend(other)
            return self
        raise Unsupported(f'x += {other!r}')

    def sym_method(self, I, name, a, k):
        if name == 'append':
            self.segs.append(a[0])
            return None
        raise Unsupported(f'x.{name}')


class _IdentifierStr(Contract):
    props = ('C18', 'C19')
    cls = 'BaseVariantPeptideIdentifier'
    assumptions = ('assumed: str.join concatenates the items in order with the separator; str(index) prints the number',)

    @property
    def path(self):
        return VPI

    @property
    def qualname(self):
        return f'{self.cls}.__str__'

    def opt(self, I, name):
        return SymObj('Field', name=name) if I.e.branch(I.e.bool(f'{name}_given'), name) else None

    def setup(self, I):
        e = I.e
        st = types.SimpleNamespace()
        st.idx = e.int('index')
        e.assume(st.idx >= 0)
        st.has_index = e.branch(e.bool('index_given'), 'index')
        f = dict(orf_id=self.opt(I, 'orf_id'), index=st.idx if st.has_index else None)
        if self.cls == 'BaseVariantPeptideIdentifier':
            f.update(transcript_id=SymObj('Field', name='transcript_id'), gene_id=self.opt(I, 'gene_id'), variant_ids=_Ids(e, 'variant_ids'))
        elif self.cls == 'CircRNAVariantPeptideIdentifier':
            f.update(circ_rna_id=SymObj('Field', name='circ_rna_id'), variant_ids=_Ids(e, 'variant_ids'))
        elif self.cls == 'FusionVariantPeptideIdentifier':
            f.update(fusion_id=SymObj('Field', name='fusion_id'), first_variants=_Ids(e, 'first_variants'), second_variants=_Ids(e, 'second_variants'),
                     peptide_variants=_Ids(e, 'peptide_variants'))
        else:
            f.update(transcript_id=SymObj('Field', name='transcript_id'), gene_id=self.opt(I, 'gene_id'), codon_reassigns=_Ids(e, 'codon_reassigns'),
                     is_protein_coding=False)
        st.f = f
        st.args = [SymObj(self.cls, **f)]
        self._cur = st
        return st

    @property
    def models(self):
        def inst(reg):
            from pyvc.interp import Env

            def comp(I, node, env, view, kind):
                if not isinstance(view, _Ids) or kind != 'list' or node.generators[0].ifs:
                    return None
                sub = Env({}, env)
                probe = types.SimpleNamespace()
                probe.sym_str = lambda I2: probe
                I.assign(node.generators[0].target, probe, sub)
                v = I.eval(node.elt, sub)
                if isinstance(v, OpaqueStr) and len(v.parts) == 2 and isinstance(v.parts[0], str) and v.parts[0].endswith('-'):
                    inner = v.parts[1]
                    if inner is probe or (isinstance(inner, OpaqueStr) and probe in inner.parts):
                        return _Prefixed(v.parts[0], view)
                raise Unsupported('comprehension over a slot other than f"<p>-{it}"')
            reg.comprehension_hooks.append(comp)
        return (inst,)

    def expected(self, st):
        f = st.f
        opt = lambda k: [f[k]] if f.get(k) is not None else []
        idx = [('str', st.idx)] if st.has_index else []
        if self.cls == 'BaseVariantPeptideIdentifier':
            return [f['transcript_id']] + opt('gene_id') + [f['variant_ids']] + opt('orf_id'), idx
        if self.cls == 'CircRNAVariantPeptideIdentifier':
            return [f['circ_rna_id']] + opt('orf_id') + [f['variant_ids']], idx
        if self.cls == 'FusionVariantPeptideIdentifier':
            return [f['fusion_id']] + opt('orf_id') + [('1-', f['first_variants']), ('2-', f['second_variants']), f['peptide_variants']], idx
        return [f['transcript_id']] + opt('gene_id') + [f['codon_reassigns']] + opt('orf_id'), idx

    def post_return(self, I, st, ret):
        e = I.e
        ok = isinstance(ret, OpaqueStr) and len(ret.parts) == 3 and ret.parts[0] == 'join' and ret.parts[1] == '|'
        e.prove(f'C18/print/{self.cls}/fields-joined-by-the-field-separator', ok)
        if not ok:
            return
        x = ret.parts[2]
        segs = x.segs if isinstance(x, _Printed) else list(x) if isinstance(x, list) else None
        e.prove(f'C18/print/{self.cls}/prints-a-sequence-of-fields', segs is not None)
        if segs is None:
            return
        want, idx = self.expected(st)
        # the index is printed last, and only when it is given and non-zero (indices start at 1)
        body, tail = segs, []
        if segs and not isinstance(segs[-1], (SymObj, _Ids, _Prefixed)):
            body, tail = segs[:-1], segs[-1:]

        def same(a, b):
            if isinstance(b, tuple):
                return isinstance(a, _Prefixed) and a.prefix == b[0] and a.ids is b[1]
            return a is b
        e.prove(f'C18/print/{self.cls}/every-slot-printed-once-in-the-fixed-order', len(body) == len(want) and all(same(a, b) for a, b in zip(body, want)))
        if tail:
            t = tail[0]
            val = t if is_z3(t) else (t.parts[-1] if isinstance(t, OpaqueStr) and t.parts and is_z3(t.parts[-1]) else None)
            is_idx = val is not None and z3.is_int(val)
            e.prove(f'C18/print/{self.cls}/index-printed-last', z3.And(st.has_index, val == st.idx, st.idx != 0) if is_idx else False)
        else:
            e.prove(f'C18/print/{self.cls}/index-left-out-only-when-absent-or-zero', z3.Or(not st.has_index, st.idx == 0))


for _cls in ('BaseVariantPeptideIdentifier', 'CircRNAVariantPeptideIdentifier', 'FusionVariantPeptideIdentifier', 'NovelORFPeptideIdentifier'):
    register(type(f'IdentifierStr_{_cls}', (_IdentifierStr,), dict(cls=_cls)))

NATIVE = []
