"""C05 — options and inputs act monotonically on the peptide set.

Proved: the limit predicates applied to candidate peptides are what the property assumes (pure comparisons against the limits),
and they are monotone in the limits (lemmas over those contracts and over the C04 acceptance contract).
NOT proved: that the enumeration (graph construction and traversal, which itself prunes with the limits) is monotone -
this is decided only by labelled bounded paired runs of the real callVariant."""
from __future__ import annotations
import types
import z3
from pyvc.contract import Contract, Lemma, register
from pyvc.core import Unsupported, as_bool
from pyvc.interp import LoopSpec
from pyvc.values import *
from pyvc.pstr import PStr
from .lib import *

VPD = 'moPepGen/svgraph/VariantPeptideDict.py'
I_, B_, R_ = z3.IntSort(), z3.BoolSort(), z3.RealSort()


def params(I, name='p'):
    e = I.e
    p = types.SimpleNamespace(min_length=e.int(f'{name}_min_length'), max_length=e.int(f'{name}_max_length'), min_mw=e.real(f'{name}_min_mw'))
    p.obj = SymObj('CleavageParams', min_length=p.min_length, max_length=p.max_length, min_mw=p.min_mw, enzyme='trypsin', exception=None, miscleavage=2)
    return p


class _Series(Contract):
    props = ('C05',)

    def setup(self, I):
        e = I.e
        st = types.SimpleNamespace()
        st.L = e.int('series_len')
        e.assume(st.L >= 0)
        st.p = params(I)
        st.startsM = e.bool('first_node_starts_with_M')
        first = SymObj('NodeStub', seq=SymObj('SeqRec', seq=SymObj('SeqStub5', m=st.startsM)))
        st.series = SymObj('MiscleavedNodeSeries', nodes=[first], additional_variants=set(), _len=st.L)
        st.args = [st.series, st.p.obj]
        self._cur = st
        return st

    @property
    def models(self):
        return (lambda reg: reg.method_('SeqStub5', 'startswith', lambda I, o, a, k: o.fields['m'] if a == ['M'] else False),)


@register
class SeriesTooShort(_Series):
    path, qualname = VPD, 'MiscleavedNodeSeries.is_too_short'

    def post_return(self, I, st, ret):
        I.e.prove('C05/is_too_short/iff-shorter-than-min-length', as_bool(ret) == (st.L < st.p.min_length))


@register
class SeriesTooLong(_Series):
    path, qualname = VPD, 'MiscleavedNodeSeries.is_too_long'

    def post_return(self, I, st, ret):
        I.e.prove('C05/is_too_long/iff-longer-than-max-length (one more residue allowed behind a leading M)',
                  as_bool(ret) == z3.Not(z3.Or(st.L <= st.p.max_length, z3.And(st.startsM, st.L <= st.p.max_length + 1))))


class _ValidSize(Contract):
    props = ('C05',)
    cls = 'MiscleavedNodes'

    def setup(self, I):
        e = I.e
        st = types.SimpleNamespace()
        st.L = e.int('seq_len')
        e.assume(st.L >= 0)
        st.p = params(I)
        obj = SymObj(self.cls, cleavage_params=st.p.obj)
        seq = PStr.sym(e, 'pep', st.L)
        st.args = [obj, seq]
        self._cur = st
        return st

    def post_return(self, I, st, ret):
        I.e.prove('C05/seq_has_valid_size/iff-within-the-length-limits', as_bool(ret) == z3.And(st.p.min_length <= st.L, st.L <= st.p.max_length))


@register
class NodesValidSize(_ValidSize):
    path, qualname = VPD, 'MiscleavedNodes.seq_has_valid_size'
    cls = 'MiscleavedNodes'


@register
class DictValidSize(_ValidSize):
    path, qualname = VPD, 'VariantPeptideDict.seq_has_valid_size'
    cls = 'VariantPeptideDict'


@register
class LimitsAreMonotone(Lemma):
    """Over the contracts above and the acceptance contract of C04 (valid iff mass >= min_mw, min_length <= length <= max_length, not
    canonical): relaxing a limit (smaller min_length / min_mw, larger max_length) never turns an accepted candidate into a rejected
    one, and a candidate accepted only under the relaxed limits lies outside the stricter ones."""
    qualname, props = 'limit_filters_are_monotone', ('C05',)

    def obligations(self, e):
        L = z3.Int('L')
        mw = z3.Real('mw')
        canon, M = z3.Bools('canonical startsM')
        a = dict(lo=z3.Int('lo'), hi=z3.Int('hi'), mw=z3.Real('min_mw'))
        b = dict(lo=z3.Int('lo2'), hi=z3.Int('hi2'), mw=z3.Real('min_mw2'))
        relaxed = [b['lo'] <= a['lo'], b['hi'] >= a['hi'], b['mw'] <= a['mw']]
        valid = lambda p: z3.And(mw >= p['mw'], L >= p['lo'], L <= p['hi'], z3.Not(canon))
        too_short = lambda p: L < p['lo']
        too_long = lambda p: z3.Not(z3.Or(L <= p['hi'], z3.And(M, L <= p['hi'] + 1)))
        size_ok = lambda p: z3.And(p['lo'] <= L, L <= p['hi'])
        return [('accepted-stays-accepted', relaxed + [valid(a)], valid(b)),
                ('newly-accepted-lies-outside-the-stricter-limits', relaxed + [valid(b), z3.Not(valid(a))],
                 z3.Or(L < a['lo'], L > a['hi'], mw < a['mw'])),
                ('series-not-too-short-stays', relaxed + [z3.Not(too_short(a))], z3.Not(too_short(b))),
                ('series-not-too-long-stays', relaxed + [z3.Not(too_long(a))], z3.Not(too_long(b))),
                ('valid-size-stays', relaxed + [size_ok(a)], size_ok(b))]


# ----------------------------------------------------------------------------
# Native side: bounded paired runs of the real callVariant
# ----------------------------------------------------------------------------
from pyvc.native import NativeCheck


class NativeMonotone(NativeCheck):
    name = 'paired_runs_monotone'
    props = ('C05',)
    functions = (f'{VPD}:MiscleavedNodeSeries.is_too_long', f'{VPD}:MiscleavedNodeSeries.is_too_short')
    bounded_for = ('out(stricter configuration) is a subset of out(more permissive configuration), and every added peptide is attributable to '
                   'the relaxation; restrictive switches give a subset')
    bound = ('demo inputs (test/files: 6 GVFs, 9 transcripts), complexity limits disabled (-1); ordered pairs: miscleavage 0<1<2<3, '
             'min_length 9>7>5, max_length 15<25<35, min_mw 1000>500>0, SECT / W2F / coding-novel-orf off<on, one GVF added at a time, '
             'noncanonical-transcripts and backsplicing-only vs unrestricted; quick 10 pairs, thorough all (~30)')
    quick_budget_s = 200
    thorough_budget_s = 900
    _cache = {}

    def run(self, **kw):
        from . import cv_run
        key = repr(sorted(kw.items(), key=str))
        if key not in self._cache:
            gv = kw.pop('gvfs', None)
            opts = dict(max_variants_per_node=[-1], additional_variants_per_misc=[-1])
            opts.update(kw)
            f, _ = cv_run.run_call_variant(gvfs=gv, **opts)
            self._cache[key] = f
        return self._cache[key]

    def cases(self, rng, tier):
        from . import cv_run
        pairs = []
        chain = lambda name, vals: [(dict({name: a}), dict({name: b}), name) for a, b in zip(vals, vals[1:])]
        pairs += chain('miscleavage', ['0', '1', '2', '3'])
        pairs += chain('min_length', [9, 7, 5])
        pairs += chain('max_length', [15, 25, 35])
        pairs += chain('min_mw', ['1000.', '500.', '0.'])
        for flag in ('selenocysteine_termination', 'w2f_reassignment', 'coding_novel_orf'):
            pairs.append((dict(), {flag: True}, flag))
        g = cv_run.DEMO_GVFS
        for i in range(1, len(g)):
            pairs.append((dict(gvfs=g[:i]), dict(gvfs=g[:i + 1]), 'gvf-added'))
        pairs.append((dict(noncanonical_transcripts=True), dict(), 'noncanonical-transcripts'))
        pairs.append((dict(backsplicing_only=True), dict(), 'backsplicing-only'))
        if tier != 'thorough':
            rng.shuffle(pairs)
            pairs = pairs[:10]
        for a, b, what in pairs:
            yield dict(strict=a, relaxed=b, what=what)

    def check(self, inp):
        a, b = self.run(**dict(inp['strict'])), self.run(**dict(inp['relaxed']))
        sa, sb = set(a.values()), set(b.values())
        call = f"callVariant {inp['strict']} vs {inp['relaxed']}"
        if not sa <= sb:
            lost = sorted(sa - sb)
            return dict(call=call, observed=dict(lost=lost[:8], n_lost=len(lost)), expected='subset of the more permissive run',
                        signature='not-monotone:' + inp['what'])
        # attribution of the added peptides
        added = {h: s_ for h, s_ in b.items() if s_ not in sa}
        what = inp['what']
        for h, s_ in added.items():
            ok = True
            if what == 'selenocysteine_termination':
                ok = 'SECT-' in h
            elif what == 'w2f_reassignment':
                ok = 'W2F-' in h
            elif what == 'min_length':
                ok = len(s_) < inp['strict']['min_length']
            elif what == 'max_length':
                ok = len(s_) > inp['strict']['max_length']
            if not ok:
                return dict(call=call, observed=f'{s_} {h}', expected=f'an added peptide attributable to {what}', signature='unattributable:' + what)
        return None

    def nontrivial(self, inp):
        return str(inp)


NATIVE = [NativeMonotone()]
