"""C05 — options and inputs act monotonically on the peptide set.

Proved: the limit predicates applied to candidate peptides are what the property assumes (pure comparisons against the limits),
and they are monotone in the limits (lemmas over those contracts and over the C04 acceptance contract).
NOT proved: that the enumeration (graph construction and traversal, which itself prunes with the limits) is monotone -
this is decided only by labelled bounded paired runs of the real callVariant."""
from __future__ import annotations
import types
import z3
from pyvc.contract import Contract, Lemma, register
from pyvc.core import Unsupported, as_bool
from pyvc.interp import LoopSpec
from pyvc.values import *
from pyvc.pstr import PStr
from .lib import *

VPD = 'moPepGen/svgraph/VariantPeptideDict.py'
I_, B_, R_ = z3.IntSort(), z3.BoolSort(), z3.RealSort()


def params(I, name='p'):
    e = I.e
    p = types.SimpleNamespace(min_length=e.int(f'{name}_min_length'), max_length=e.int(f'{name}_max_length'), min_mw=e.real(f'{name}_min_mw'))
    p.obj = SymObj('CleavageParams', min_length=p.min_length, max_length=p.max_length, min_mw=p.min_mw, enzyme='trypsin', exception=None, miscleavage=2)
    return p


class _Series(Contract):
    props = ('C05',)

    def setup(self, I):
        e = I.e
        st = types.SimpleNamespace()
        st.L = e.int('series_len')
        e.assume(st.L >= 0)
        st.p = params(I)
        st.startsM = e.bool('first_node_starts_with_M')
        first = SymObj('NodeStub', seq=SymObj('SeqRec', seq=SymObj('SeqStub5', m=st.startsM)))
        st.series = SymObj('MiscleavedNodeSeries', nodes=[first], additional_variants=set(), _len=st.L)
        st.args = [st.series, st.p.obj]
        self._cur = st
        return st

    @property
    def models(self):
        return (lambda reg: reg.method_('SeqStub5', 'startswith', lambda I, o, a, k: o.fields['m'] if a == ['M'] else False),)


@register
class SeriesTooShort(_Series):
    path, qualname = VPD, 'MiscleavedNodeSeries.is_too_short'

    def post_return(self, I, st, ret):
        I.e.prove('C05/is_too_short/iff-shorter-than-min-length', as_bool(ret) == (st.L < st.p.min_length))


@register
class SeriesTooLong(_Series):
    path, qualname = VPD, 'MiscleavedNodeSeries.is_too_long'

    def post_return(self, I, st, ret):
        I.e.prove('C05/is_too_long/iff-longer-than-max-length (one more residue allowed behind a leading M)',
                  as_bool(ret) == z3.Not(z3.Or(st.L <= st.p.max_length, z3.And(st.startsM, st.L <= st.p.max_length + 1))))


class _ValidSize(Contract):
    props = ('C05',)
    cls = 'MiscleavedNodes'

    def setup(self, I):
        e = I.e
        st = types.SimpleNamespace()
        st.L = e.int('seq_len')
        e.assume(st.L >= 0)
        st.p = params(I)
        obj = SymObj(self.cls, cleavage_params=st.p.obj)
        seq = PStr.sym(e, 'pep', st.L)
        st.args = [obj, seq]
        self._cur = st
        return st

    def post_return(self, I, st, ret):
        I.e.prove('C05/seq_has_valid_size/iff-within-the-length-limits', as_bool(ret) == z3.And(st.p.min_length <= st.L, st.L <= st.p.max_length))


@register
class NodesValidSize(_ValidSize):
    path, qualname = VPD, 'MiscleavedNodes.seq_has_valid_size'
    cls = 'MiscleavedNodes'


@register
class DictValidSize(_ValidSize):
    path, qualname = VPD, 'VariantPeptideDict.seq_has_valid_size'
    cls = 'VariantPeptideDict'


@register
class LimitsAreMonotone(Lemma):
    """Over the contracts above and the acceptance contract of C04 (valid iff mass >= min_mw, min_length <= length <= max_length, not
    canonical): relaxing a limit (smaller min_length / min_mw, larger max_length) never turns an accepted candidate into a rejected
    one, and a candidate accepted only under the relaxed limits lies outside the stricter ones."""
    qualname, props = 'limit_filters_are_monotone', ('C05',)

    def obligations(self, e):
        L = z3.Int('L')
        mw = z3.Real('mw')
        canon, M = z3.Bools('canonical startsM')
        a = dict(lo=z3.Int('lo'), hi=z3.Int('hi'), mw=z3.Real('min_mw'))
        b = dict(lo=z3.Int('lo2'), hi=z3.Int('hi2'), mw=z3.Real('min_mw2'))
        relaxed = [b['lo'] <= a['lo'], b['hi'] >= a['hi'], b['mw'] <= a['mw']]
        valid = lambda p: z3.And(mw >= p['mw'], L >= p['lo'], L <= p['hi'], z3.Not(canon))
        too_short = lambda p: L < p['lo']
        too_long = lambda p: z3.Not(z3.Or(L <= p['hi'], z3.And(M, L <= p['hi'] + 1)))
        size_ok = lambda p: z3.And(p['lo'] <= L, L <= p['hi'])
        return [('accepted-stays-accepted', relaxed + [valid(a)], valid(b)),
                ('newly-accepted-lies-outside-the-stricter-limits', relaxed + [valid(b), z3.Not(valid(a))],
                 z3.Or(L < a['lo'], L > a['hi'], mw < a['mw'])),
                ('series-not-too-short-stays', relaxed + [z3.Not(too_short(a))], z3.Not(too_short(b))),
                ('series-not-too-long-stays', relaxed + [z3.Not(too_long(a))], z3.Not(too_long(b))),
                ('valid-size-stays', relaxed + [size_ok(a)], size_ok(b))]


# ----------------------------------------------------------------------------
# the search that proposes the candidates: VariantPeptideDict.find_miscleaved_nodes
# ----------------------------------------------------------------------------
class _Bag5:
    """a dict / set of variant ids the search only fills; its size is an unknown number"""
    def __init__(self, name):
        self.name = name

    def sym_contains(self, I, item):
        return I.e.bool(f'{self.name}_has')

    def sym_setitem(self, I, key, v):
        return None

    def sym_len(self, I):
        n = I.e.int(f'len_{self.name}')
        I.e.assume(n >= 0)
        return n

    def sym_method(self, I, name, a, k):
        if name in ('keys', 'add', 'update'):
            return self if name == 'keys' else None
        raise Unsupported(f'{self.name}.{name}')


class _StopAlt(View):
    """the downstream stop-altering variants of a node (unknown number)"""
    def __init__(self, e, of):
        self.of = of
        self.n = e.int('n_stop_altering')
        e.assume(self.n >= 0)

    def length(self):
        return self.n

    def get(self, i):
        return SymObj('VariantRecord', id=SymObj('VarId'))


class _Batch(View):
    """a path of nodes (one pending batch of the search)"""
    def __init__(self, owner, name, base=None, extra=None):
        self.owner, self.name, self.base, self.extra = owner, name, base, extra
        if base is None:
            self.n = owner._I.e.int(f'len_{name}')
            owner._I.e.assume(self.n >= 1)

    def length(self):
        return self.n if self.base is None else self.base.length() + (1 if self.extra is not None else 0)

    def get(self, i):
        if self.base is not None:
            raise Unsupported('indexing an extended batch')
        return SymObj('PVGNode', _in=self.name, cpop_collapsed=self.owner._I.e.bool('member_collapsed'), variants=self.owner.variants_view('member'))

    def sym_getitem(self, I, idx):
        if idx == -1 and self.base is None:
            return self.owner._cur.cur_node
        raise Unsupported(f'{self.name}[{idx!r}]')

    def sym_method(self, I, name, a, k):
        if name == 'append' and self.base is not None and self.extra is None:
            self.extra = a[0]
            return None
        raise Unsupported(f'{self.name}.{name}')


@register
class MiscleavedSearch(Contract):
    """the only places where the search depends on the limits: a series is proposed iff it is not too short and not (too long without a
    selenocysteine that could end it earlier); a path is not extended further iff the miscleavage budget is used up, or it is too long without a
    trailing selenocysteine, or it exceeds the variant budget; the start node alone ends the search only when it is too long and holds no
    selenocysteine. Everything else that stops an extension (stop node, truncated node, hybrid node of a circRNA, backsplicing-only) does
    not depend on the limits"""
    path, qualname, props = VPD, 'VariantPeptideDict.find_miscleaved_nodes', ('C05',)
    declared_raises = ['ValueError']
    cover_any = True
    assumptions = ('summary: MiscleavedNodeSeries.is_too_long / is_too_short are their proved contracts (this module) seen as predicates of the '
                   'series; has_trailing_selenocysteins, node predicates and variant sets are external (unconstrained)',
                   'the worklist (deque) holds arbitrary batches: the contract is per batch and per extension, not about the order of the search')

    def setup(self, I):
        e = I.e
        self._I = I
        st = types.SimpleNamespace(appended=[], queued=[], series=[])
        st.misc = e.int('miscleavage')
        st.mvpn, st.avpm = e.int('max_variants_per_node'), e.int('additional_variants_per_misc')
        st.params = SymObj('CleavageParams', miscleavage=st.misc, max_variants_per_node=st.mvpn, additional_variants_per_misc=st.avpm)
        st.self_params = SymObj('CleavageParams', _own=True)
        st.circ, st.bs = e.bool('is_circ_rna'), e.bool('backsplicing_only')
        st.has_orfs = e.branch(e.bool('orfs_given'), 'orfs')
        st.node_sec = e.bool('start_node_has_selenocysteine')
        st.node_flags = dict(cpop_collapsed=e.bool('start_collapsed'), truncated=e.bool('start_truncated'))
        st.n_sub0 = e.int('n_subgraphs_of_start_node')
        st.node = SymObj('PVGNode', _start=True, selenocysteines=types.SimpleNamespace(sym_truth=lambda I2: st.node_sec), variants=self.variants_view('start'), **st.node_flags)
        st.leading = SymObj('PVGNode', _leading=True)
        st.data = types.SimpleNamespace(sym_method=lambda I2, name, a, k: st.appended.append(a[0]) if name == 'append' else (_ for _ in ()).throw(Unsupported(name)))
        st.args = [SymObj('VariantPeptideDict', cleavage_params=st.self_params), st.node, [SymObj('Orf')] if st.has_orfs else [], st.params, 'ENST_T', 'ENSG_G', st.leading,
                   SymObj('Subgraphs'), st.circ, st.bs]
        self._cur = st
        return st

    def variants_view(self, tag):
        e = self._I.e
        n = e.int(f'n_variants_{tag}')
        return FnView(n, lambda i: SymObj('VarWithCoord', variant=SymObj('VariantRecord', id=SymObj('VarId'))), tag=f'variants of {tag}')

    @property
    def models(self):
        c = self

        def inst(reg):
            def mk_nodes(I, a, k):
                st = c._cur
                I.e.prove('C05/search/result-built-with-the-given-parameters-and-orfs', k.get('cleavage_params') is st.params and k.get('leading_node') is st.leading)
                st.result = SymObj('MiscleavedNodes', data=st.data)
                return st.result
            reg.ctor_('MiscleavedNodes', mk_nodes)

            def mk_series(I, a, k):
                st = c._cur
                s_ = SymObj('Series5', nodes=a[0], add=a[1], n=len(st.series), tl=I.e.bool('series_too_long'), ts=I.e.bool('series_too_short'),
                            trsec=I.e.bool('series_has_trailing_selenocysteine'))
                st.series.append(s_)
                return s_
            reg.ctor_('MiscleavedNodeSeries', mk_series)

            def limit(name):
                def h(I, o, a, k):
                    I.e.prove('C05/search/limits-checked-against-the-parameters-of-the-dictionary', a[0] is c._cur.self_params)
                    return o.fields[name]
                return h
            reg.method_('Series5', 'is_too_long', limit('tl'))
            reg.method_('Series5', 'is_too_short', limit('ts'))
            reg.method_('Series5', 'has_trailing_selenocysteins', lambda I, o, a, k: o.fields['trsec'])
            reg.method_('PVGNode', 'get_downstream_stop_altering_variants', lambda I, o, a, k: _StopAlt(I.e, o))
            reg.method_('PVGNode', 'is_hybrid_node', lambda I, o, a, k: o.fields.get('hybrid', False))

            def subgraph_ids(I, o, a, k):
                st = c._cur
                if o is st.node:
                    return types.SimpleNamespace(sym_len=lambda I2: st.n_sub0)
                return SymObj('IdSet')
            reg.method_('PVGNode', 'get_subgraph_id_set', subgraph_ids)

            class Queue:
                def sym_truth(s_, I2):
                    return I2.e.bool('worklist_nonempty')

                def sym_method(s_, I2, name, a, k):
                    st = c._cur
                    if name == 'pop':
                        st.cur_node = SymObj('PVGNode', _cur=True, cpop_collapsed=I2.e.bool('cur_collapsed'), variants=c.variants_view('cur'),
                                             out_nodes=FnView(I2.e.int('n_out'), lambda i: c.out_node(i), tag='out nodes'))
                        st.cur_batch = _Batch(c, 'cur_batch')
                        return st.cur_batch
                    if name == 'append':
                        st.queued.append(a[0])
                        return None
                    raise Unsupported(f'queue.{name}')
            reg.ext_('deque', lambda I, a, k: Queue() if a and isinstance(a[0], list) and a[0] and isinstance(a[0][0], list) else c._cur.data)
            reg.ext_('collections.deque', lambda I, a, k: Queue() if a and isinstance(a[0], list) and a[0] and isinstance(a[0][0], list) else c._cur.data)

            def copy_(I, a, k):
                v = a[0]
                if isinstance(v, _Batch):
                    return _Batch(c, 'copy', base=v, extra=v.extra) if v.base is None else _Batch(c, 'copy', base=v.base, extra=v.extra)
                raise Unsupported(f'copy.copy({v!r})')
            reg.ext_('copy.copy', copy_)

            def comp(I, node, env, view, kind):
                st = c._cur
                if isinstance(view, _Batch) and kind == 'list' and node.generators[0].ifs:
                    # [x for x in cur_batch if not x.cpop_collapsed]: its length is the number of uncleaved joints + 1
                    st.n_unc = I.e.int('n_not_collapsed')
                    I.e.assume(z3.And(st.n_unc >= 0, st.n_unc <= view.length()))
                    return types.SimpleNamespace(sym_len=lambda I2: st.n_unc)
                if isinstance(view, _Batch) and kind == 'list':
                    return [SymObj('IdSet')]
                if kind == 'set':
                    return _Bag5('ids')
                return None
            reg.comprehension_hooks.append(comp)
            reg.set_hooks.append(lambda v: (lambda I, v: _Bag5('cur_vars')) if isinstance(v, _Bag5) else None)
            # set().union(*[ids of every node of the batch]): a set of unknown size (n_sub_batch)
            reg.value_methods.append(lambda obj, name: (lambda I, o, a, k: types.SimpleNamespace(sym_len=lambda I2: c._cur.n_sub_batch))
                                     if isinstance(obj, set) and name == 'union' else None)
        return (inst,)

    def out_node(self, i):
        e = self._I.e
        st = self._cur
        st.out = types.SimpleNamespace(hybrid=e.bool('out_hybrid'), truncated=e.bool('out_truncated'), collapsed=e.bool('out_collapsed'), L=e.int('out_len'),
                                       star=e.bool('out_starts_with_stop'))
        e.assume(st.out.L >= 0)
        seq = PStr.sym(e, 'out_seq', st.out.L)
        e.assume(st.out.star == z3.And(st.out.L >= 1, seq.get(0) == ord('*')))
        st.out.node = SymObj('PVGNode', _out=True, hybrid=st.out.hybrid, truncated=st.out.truncated, cpop_collapsed=st.out.collapsed, seq=SymObj('AASeq', seq=seq),
                             variants=self.variants_view('out'))
        return st.out.node

    # ---- loop 0: while queue
    def havoc0(self, I, env, k):
        pass

    def head0(self, I, env, k):
        st = self._cur
        st.m0 = (len(st.appended), len(st.queued), len(st.series))
        st.n_sub_batch = I.e.int('n_subgraphs_of_batch')
        st.expanded = False

    def step0(self, I, env, k):
        st = self._cur
        ncl = st.n_unc - 1
        return [('batch-expanded-iff-the-miscleavage-budget-is-not-used-up', z3.BoolVal(st.expanded) == (ncl < st.misc))]

    # ---- loop 3: out nodes of the last node of the batch
    def head3(self, I, env, k):
        st = self._cur
        st.expanded = True
        st.m3 = (len(st.appended), len(st.queued), len(st.series))
        st.nv = None

    def step3(self, I, env, k):
        st = self._cur
        o = st.out
        app, qd, ser = st.appended[st.m3[0]:], st.queued[st.m3[1]:], st.series[st.m3[2]:]
        ncl = st.n_unc - 1
        blocked = z3.Or(z3.And(st.circ, o.hybrid), o.truncated, z3.And(o.L == 1, o.star), z3.And(st.bs, st.n_sub_batch == 1))
        items = [('at-most-one-series-and-one-extension-per-out-node', len(app) <= 1 and len(qd) <= 1 and len(ser) <= 1)]
        # the variant budget is the one comparison whose outcome the contract does not follow: `over` is read from the path
        over = getattr(st, 'over_budget', None)
        if ser:
            s_ = ser[0]
            tl_cut = z3.And(s_.fields['tl'], z3.Not(s_.fields['trsec']))
            items.append(('series-built-from-the-batch-extended-by-this-node-with-its-own-stop-altering-variants',
                          isinstance(s_.fields['nodes'], _Batch) and s_.fields['nodes'].base is st.cur_batch and s_.fields['nodes'].extra is o.node
                          and isinstance(s_.fields['add'], _StopAlt) and s_.fields['add'].of is o.node))
            items.append(('series-only-for-a-cleaved-node-that-is-not-blocked', z3.And(z3.Not(blocked), z3.Not(o.collapsed))))
            items.append(('proposed-iff-not-too-short-and-not-too-long-without-a-trailing-selenocysteine',
                          z3.BoolVal(len(app) == 1 and app[0] is s_) == z3.And(z3.Not(tl_cut), z3.Not(s_.fields['ts']))))
            items.append(('extended-iff-not-cut-for-length-and-budget-left', z3.BoolVal(len(qd) == 1) == z3.And(z3.Not(tl_cut), ncl + 1 < st.misc)))
        else:
            items.append(('nothing-proposed-without-a-series', not app))
            if qd:
                items.append(('extended-without-a-series-only-through-a-collapsed-node', z3.And(z3.Not(blocked), o.collapsed)))
            else:
                items.append(('dropped-without-a-series-only-if-blocked-or-over-the-variant-budget', z3.Or(blocked, st.avpm != -1)))
        for b in qd:
            items.append(('extension=batch-plus-this-node', isinstance(b, _Batch) and b.base is st.cur_batch and b.extra is o.node))
        return items

    @property
    def loops(self):
        T = lambda I, env, k: []
        U = dict(target_after='unknown')
        H = lambda I, env, k: None
        return {0: LoopSpec(inv=T, havoc=self.havoc0, on_head=self.head0, step=self.step0),
                1: LoopSpec(inv=T, havoc=lambda I, env, k: env.__setitem__('batch_vars', _Bag5('batch_vars')), **U),
                2: LoopSpec(inv=T, havoc=H, **U),
                3: LoopSpec(inv=T, havoc=H, on_head=self.head3, step=self.step3, **U),
                4: LoopSpec(inv=T, havoc=lambda I, env, k: env.__setitem__('cur_vars', _Bag5('cur_vars')), **U)}

    def post_return(self, I, st, ret):
        e = I.e
        e.prove('C05/search/returns-the-collection-it-filled', ret is st.result)
        # the first block (start node alone): its series is series[0] when it was built
        elig = z3.And(z3.Not(z3.Or(st.node_flags['cpop_collapsed'], st.node_flags['truncated'])), z3.Or(z3.Not(st.bs), st.n_sub0 > 1))
        first = [s_ for s_ in st.series if s_.fields['n'] == 0 and isinstance(s_.fields['nodes'], list)]
        if first:
            s0 = first[0]
            early = not hasattr(st, 'm0')
            e.prove('C05/search/start-series-only-for-an-eligible-start-node', elig)
            if early:
                e.prove('C05/search/search-ends-at-the-start-node-only-if-it-is-too-long-and-holds-no-selenocysteine', z3.And(s0.fields['tl'], z3.Not(st.node_sec)))
            else:
                e.prove('C05/search/search-continues-unless-the-start-node-is-too-long-without-selenocysteine', z3.Not(z3.And(s0.fields['tl'], z3.Not(st.node_sec))))
                e.prove('C05/search/start-series-proposed-iff-not-too-short', z3.BoolVal(any(a is s0 for a in st.appended)) == z3.Not(s0.fields['ts']))
        else:
            e.prove('C05/search/no-start-series-only-for-an-ineligible-start-node', z3.Not(elig))

    def post_raise(self, I, st, exc):
        I.e.prove('C05/search/raise/only-without-orfs', exc.cls == 'ValueError' and not st.has_orfs)


# ----------------------------------------------------------------------------
# Native side: bounded paired runs of the real callVariant
# ----------------------------------------------------------------------------
from pyvc.native import NativeCheck


class NativeMonotone(NativeCheck):
    name = 'paired_runs_monotone'
    props = ('C05',)
    functions = (f'{VPD}:MiscleavedNodeSeries.is_too_long', f'{VPD}:MiscleavedNodeSeries.is_too_short')
    bounded_for = ('out(stricter configuration) is a subset of out(more permissive configuration), and every added peptide is attributable to '
                   'the relaxation; restrictive switches give a subset')
    bound = ('demo inputs (test/files: 6 GVFs, 9 transcripts), complexity limits disabled (-1); ordered pairs: miscleavage 0<1<2<3, '
             'min_length 9>7>5, max_length 15<25<35, min_mw 1000>500>0, SECT / W2F / coding-novel-orf off<on, one GVF added at a time, '
             'noncanonical-transcripts and backsplicing-only vs unrestricted; quick 10 pairs, thorough all (~30); plus SECT off<on on test/files/fuzz/51 with its circRNA and W2F off<on with a TGG>TTT variant')
    quick_budget_s = 200
    thorough_budget_s = 900
    _cache = {}

    def run(self, **kw):
        from . import cv_run
        key = repr(sorted(kw.items(), key=str))
        if key not in self._cache:
            gv = kw.pop('gvfs', None)
            recs = kw.pop('gvf_records', None)
            tmp = None
            if recs is not None:
                import tempfile, os
                hdr = [l.rstrip('\n') for l in open(cv_run.DATA / 'vep/vep_gSNP.gvf') if l.startswith('#')]
                fd, tmp = tempfile.mkstemp(prefix='verif_c05_', suffix='.gvf')
                with os.fdopen(fd, 'w') as fh:
                    fh.write('\n'.join(hdr + list(recs)) + '\n')
                gv = [tmp]
            opts = dict(max_variants_per_node=[-1], additional_variants_per_misc=[-1])
            for nm in ('genome_fasta', 'annotation_gtf', 'proteome_fasta'):
                if nm in kw:
                    kw[nm] = cv_run.DATA / kw[nm]
            opts.update(kw)
            try:
                f, _ = cv_run.run_call_variant(gvfs=gv, **opts)
            finally:
                if tmp:
                    import os
                    os.unlink(tmp)
            self._cache[key] = f
        return self._cache[key]

    def cases(self, rng, tier):
        from . import cv_run
        pairs = []
        chain = lambda name, vals: [(dict({name: a}), dict({name: b}), name) for a, b in zip(vals, vals[1:])]
        pairs += chain('miscleavage', ['0', '1', '2', '3'])
        pairs += chain('min_length', [9, 7, 5])
        pairs += chain('max_length', [15, 25, 35])
        pairs += chain('min_mw', ['1000.', '500.', '0.'])
        for flag in ('selenocysteine_termination', 'w2f_reassignment', 'coding_novel_orf'):
            pairs.append((dict(), {flag: True}, flag))
        g = cv_run.DEMO_GVFS
        for i in range(1, len(g)):
            pairs.append((dict(gvfs=g[:i]), dict(gvfs=g[:i + 1]), 'gvf-added'))
        pairs.append((dict(noncanonical_transcripts=True), dict(), 'noncanonical-transcripts'))
        pairs.append((dict(backsplicing_only=True), dict(), 'backsplicing-only'))
        if tier != 'thorough':
            rng.shuffle(pairs)
            pairs = pairs[:10]
        # a second reference (test/files/fuzz/51: one transcript with two annotated selenocysteines, one circRNA over the first of them)
        ref51 = dict(genome_fasta='fuzz/51/genome.fasta', annotation_gtf='fuzz/51/annotation.gtf', proteome_fasta='fuzz/51/proteome.fasta',
                     gvfs=['fuzz/51/fake_circ_rna.gvf'])
        pairs.append((dict(ref51), dict(ref51, selenocysteine_termination=True), 'selenocysteine_termination'))
        # a variant that turns a tryptophan codon into a phenylalanine codon (TGG -> TTT), demo reference
        w_to_f = dict(gvf_records=['ENSG00000128408.9\t1135\tMNV-1135-GG-TT\tGG\tTT\t.\t.\tTRANSCRIPT_ID=ENST00000614167.2;GENOMIC_POSITION=chr22:1135;GENE_SYMBOL=RIBC2'])
        pairs.append((dict(w_to_f), dict(w_to_f, w2f_reassignment=True), 'w2f_reassignment'))
        for a, b, what in pairs:
            yield dict(strict=a, relaxed=b, what=what)

    def check(self, inp):
        a, b = self.run(**dict(inp['strict'])), self.run(**dict(inp['relaxed']))
        sa, sb = set(a.values()), set(b.values())
        call = f"callVariant {inp['strict']} vs {inp['relaxed']}"
        if not sa <= sb:
            lost = sorted(sa - sb)
            import hashlib
            return dict(call=call, observed=dict(lost=lost[:8], n_lost=len(lost)), expected='subset of the more permissive run',
                        signature='not-monotone:' + inp['what'] + ':' + hashlib.sha256('|'.join(lost).encode()).hexdigest()[:12])
        # attribution of the added peptides
        added = {h: s_ for h, s_ in b.items() if s_ not in sa}
        what = inp['what']
        for h, s_ in added.items():
            ok = True
            if what == 'selenocysteine_termination':
                ok = 'SECT-' in h
            elif what == 'w2f_reassignment':
                ok = 'W2F-' in h
            elif what == 'min_length':
                ok = len(s_) < inp['strict']['min_length']
            elif what == 'max_length':
                ok = len(s_) > inp['strict']['max_length']
            if not ok:
                return dict(call=call, observed=f'{s_} {h}', expected=f'an added peptide attributable to {what}', signature='unattributable:' + what)
        return None

    def nontrivial(self, inp):
        return str(inp)


class NativeSameAnchor(NativeCheck):
    name = 'same_anchor_events_from_two_files'
    props = ('C05',)
    functions = ('moPepGen/seqvar/VariantRecordPoolOnDisk.py:VariantRecordPoolOnDisk.__getitem__',)
    bounded_for = ('adding a GVF file whose record shares position, reference and type with a record of another file (two alternative splicing '
                   'insertions at one exon junction with different donor ranges) only adds peptides, in either file order')
    bound = 'demo reference, transcript ENST00000614168.2, insertion at gene position 405 with donor 405-750 vs 411-750 (and 420-750); 2 scenarios'
    quick_budget_s = 120
    thorough_budget_s = 240

    def cases(self, rng, tier):
        yield dict(a=(405, 750, 'SE-405'), b=(411, 750, 'A3SS-405-411'))
        yield dict(a=(405, 750, 'SE-405'), b=(420, 750, 'A3SS-405-420'))

    def check(self, inp):
        import tempfile, shutil, os
        from pathlib import Path
        from . import cv_run
        d = Path(tempfile.mkdtemp(prefix='verif_c05_'))
        try:
            template = cv_run.DATA / 'alternative_splicing' / 'alternative_splicing.gvf'
            header = [l for l in open(template) if l.startswith('#')]

            def gvf(name, spec):
                ds, de, vid = spec
                path = d / name
                with open(path, 'w') as fh:
                    fh.writelines(header)
                    fh.write(f'ENSG00000128408.9\t405\t{vid}\tC\t<INS>\t.\t.\tTRANSCRIPT_ID=ENST00000614168.2;DONOR_GENE_ID=ENSG00000128408.9;'
                             f'DONOR_START={ds};DONOR_END={de};GENE_SYMBOL=RIBC2;GENOMIC_POSITION="chr22:405-406"\n')
                return str(path)
            ga, gb = gvf('a.gvf', inp['a']), gvf('b.gvf', inp['b'])
            run = lambda gv: set(cv_run.run_call_variant(gvfs=gv, max_adjacent_as_mnv=2)[0].values())
            only_a, only_b, ab, ba = run([ga]), run([gb]), run([ga, gb]), run([gb, ga])
            for nm, sub in (('a', only_a), ('b', only_b)):
                for fn, full in (('a+b', ab), ('b+a', ba)):
                    lost = sorted(sub - full)
                    if lost:
                        return dict(call=f'callVariant [{nm}] vs [{fn}] with {inp}', observed=dict(lost=lost[:6], n_lost=len(lost)),
                                    expected='the single-file output is a subset of the two-file output', signature='not-monotone:gvf-added-same-anchor')
        finally:
            shutil.rmtree(d, ignore_errors=True)
        return None

    def nontrivial(self, inp):
        return str(inp)


NATIVE = [NativeMonotone(), NativeSameAnchor()]
