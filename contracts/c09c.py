"""C09 — the node-level step that turns the stop symbols at annotated selenocysteine positions into U (PVGNode.fix_selenocysteines):
callAltTranslation's Sec-terminated peptides are cut at exactly these U's."""
from __future__ import annotations
import types
import z3
from pyvc.contract import Contract, register
from pyvc.core import Unsupported
from pyvc.interp import LoopSpec
from pyvc.pstr import PStr
from pyvc.values import *
from . import c11          # the coordinate conversions are used through their contracts (summaries)

PVG = 'moPepGen/svgraph/PVGNode.py'
I_ = z3.IntSort()


class _Sects(View):
    """sects: the Sec sites of this node in node coordinates, as the alignment loop leaves them (assumed strictly increasing, inside the node)"""
    def __init__(self, st):
        self.st = st

    def length(self):
        return self.st.m

    def sym_len(self, I):
        return self.st.m

    def sym_truth(self, I):
        return self.st.m > 0

    def get(self, t):
        t = t if is_z3(t) else z3.IntVal(t)
        return SymObj('Sect09c', t=t, location=SymObj('Loc09c', start=self.st.K[t], end=self.st.K[t] + 1))

    def sym_getitem(self, I, idx):
        if isinstance(idx, int) and idx < 0:
            return self.get(self.st.m + idx)
        return self.get(idx)

    def sym_method(self, I, name, a, k):
        raise Unsupported(f'sects.{name}')


@register
class FixSelenocysteines(Contract):
    """given the Sec sites of the node (positions k_0 < k_1 < ... inside the node), the node sequence afterwards has the same length, a U at every
    one of these positions and the original residue everywhere else, and the node records exactly these sites; a node without Sec sites is left
    untouched"""
    path, qualname, props = PVG, 'PVGNode.fix_selenocysteines', ('C09',)
    assumptions = ('assumed (not verified): the alignment loop of fix_selenocysteines, which maps the transcript positions of the Sec sites to node positions, '
                   'is abstracted - its result is taken to be any list of sites whose node positions are strictly increasing and inside the node',)

    def setup(self, I):
        e = I.e
        st = types.SimpleNamespace()
        st.L, st.m = e.int('node_len'), e.int('n_sites')
        e.assume(z3.And(st.L >= 1, st.m >= 0, st.m <= st.L))
        st.S = PStr.sym(e, 'node_seq', length=st.L)
        st.K = z3.Array('site_pos', I_, I_)
        st.SL = z3.Function('slot_of_site_position', I_, I_)
        t, u = z3.Ints('t_q u_q')
        st.facts = z3.And(z3.ForAll([t], z3.Implies(z3.And(0 <= t, t < st.m), z3.And(0 <= st.K[t], st.K[t] < st.L, st.SL(st.K[t]) == t))),
                          z3.ForAll([t, u], z3.Implies(z3.And(0 <= t, t < u, u < st.m), st.K[t] < st.K[u])))
        st.sects = _Sects(st)
        st.aa = SymObj('AASeq09c', seq=st.S, locations=FnView(e.int('n_locations'), lambda i: SymObj('MatchedLoc09c'), tag='locations'))
        st.node = SymObj('PVGNode', seq=st.aa, selenocysteines=[])
        st.args = [st.node, FnView(e.int('n_sect_variants'), lambda i: SymObj('SectVariant09c'), tag='sect variants'), SymObj('SubgraphTree09c')]
        self._cur = st
        return st

    @property
    def models(self):
        def inst(reg):
            class _It:
                def sym_next(s_, I, rest):
                    return SymObj('Item09c') if I.e.branch(I.e.bool('iterator_has_item'), 'next') else (rest[0] if rest else I.raise_('StopIteration'))
            reg.iter_hooks.append(lambda I, v: _It() if isinstance(v, FnView) and v.tag in ('locations', 'sect variants') else None)
            reg.protocol_('Sect09c', '__is__', lambda I, a, b: a.fields['t'] == b.fields['t'] if isinstance(b, SymObj) and b.cls == 'Sect09c' else False)
        return (inst,)

    def is_site(self, st, p, upto):
        return z3.And(0 <= st.SL(p), st.SL(p) < upto, st.K[st.SL(p)] == p)

    def rebuilt(self, st, s, i):
        """s = the node sequence up to and including site i-1 (the whole sequence once all sites are done) with U at the sites"""
        if not isinstance(s, PStr):
            return z3.BoolVal(False)
        p = z3.Int('p_q')
        ln = s.length()
        ln = ln if is_z3(ln) else z3.IntVal(ln)
        return z3.And(ln == z3.If(i == st.m, st.L, st.K[i - 1] + 1),
                      z3.ForAll([p], z3.Implies(z3.And(0 <= p, p < ln), s.get(p) == z3.If(self.is_site(st, p, i), ord('U'), st.S.get(p)))))

    def abstract0(self, I, env):
        env['sects'] = self._cur.sects

    def havoc1(self, I, env, k):
        env['new_seq'] = PStr.sym(I.e, 'new_seq')

    def inv1(self, I, env, k):
        st = self._cur
        if not is_z3(k):
            return []
        return [('sequence-rebuilt-up-to-the-previous-site', z3.Implies(k > 0, self.rebuilt(st, env['new_seq'], k)))]

    def head1(self, I, env, k):
        I.e.assume(self._cur.facts)

    @property
    def loops(self):
        return {0: LoopSpec(abstract=self.abstract0),
                1: LoopSpec(inv=self.inv1, havoc=self.havoc1, on_head=self.head1, on_init=lambda I, env: I.e.assume(self._cur.facts), target_after='unknown',
                            on_break=lambda I, env, k: [('every-site-is-written', False)])}

    def post_return(self, I, st, ret):
        e = I.e
        new = st.aa.fields['seq']
        if new is st.S:
            e.prove('C09/fix-sec/untouched-only-without-sites', z3.And(st.m == 0, st.node.fields['selenocysteines'] == []))
            return
        e.prove('C09/fix-sec/same-length-U-at-every-site-original-residue-elsewhere', self.rebuilt(st, new, st.m))
        e.prove('C09/fix-sec/node-records-exactly-these-sites', st.node.fields['selenocysteines'] is st.sects)


VR9 = 'moPepGen/seqvar/VariantRecord.py'


@register
class CreateVariantSect(Contract):
    """the SECT event of a selenocysteine at transcript position pos: a record on [pos, pos + 3) of the transcript, reference TGA, whose id
    SECT-<n> names the gene coordinate (1-based) of the first base of the codon - the genomic position of gene coordinate n - 1 is the
    genomic position of transcript position pos, on both strands"""
    path, qualname, props = VR9, 'create_variant_sect', ('C09',)
    use_summaries = True
    declared_raises = ['ValueError']
    assumptions = ('summaries: coordinate_transcript_to_genomic and coordinate_genomic_to_gene are their proved contracts (C11); the transcript lies inside its gene, same strand',)

    def setup(self, I):
        from .c11 import mk_tx_tagged, mk_gene_tagged
        from .lib import mk_anno, strand_pm
        e = I.e
        st = types.SimpleNamespace()
        st.h = mk_tx_tagged(I, gene_id='ENSG_G')
        st.gn = mk_gene_tagged(I, gene_id='ENSG_G')
        for a in st.h.axioms:
            e.assume(a)
        e.assume(z3.And(st.gn.strand == st.h.strand, strand_pm(st.h.strand), st.gn.start < st.gn.end))
        # the transcript lies inside its gene
        e.assume(z3.And(st.gn.start <= st.h.s[0], st.h.e[st.h.n - 1] <= st.gn.end))
        st.anno = mk_anno(I, genes=[st.gn], txs=[st.h])
        st.pos = e.int('sec_position')
        e.assume(st.pos >= 0)
        st.args = [st.anno, 'ENST_T', st.pos]
        self._cur = st
        return st

    def post_return(self, I, st, ret):
        from .c11 import t2g_spec, gene2g_val
        e = I.e
        loc = ret.fields['location']
        e.prove('C09/sect-record/on-the-three-bases-of-the-codon-in-transcript-coordinates', z3.And(loc.fields['start'] == st.pos, loc.fields['end'] == st.pos + 3))
        e.prove('C09/sect-record/TGA-to-SECT-on-this-transcript', ret.fields['ref'] == 'TGA' and ret.fields['alt'] == '<SECT>' and ret.fields['type'] == 'SECT'
                and ret.fields['attrs'].get('TRANSCRIPT_ID') == 'ENST_T')
        _id = ret.fields['id']
        ok = isinstance(_id, OpaqueStr) and len(_id.parts) == 2 and _id.parts[0] == 'SECT-' and is_sym_int(_id.parts[1])
        n = _id.parts[1] if ok else z3.IntVal(0)
        e.prove('C09/sect-record/id-names-the-gene-coordinate-of-the-first-codon-base',
                z3.And(n >= 1, n - 1 < st.gn.end - st.gn.start, t2g_spec(st.h, st.pos, gene2g_val(st.gn, n - 1))) if ok else False)

    def post_raise(self, I, st, exc):
        h = st.h
        I.e.prove('C09/sect-record/raise/only-for-a-codon-that-does-not-lie-inside-the-transcript', z3.And(exc.cls == 'ValueError', st.pos + 2 >= h.cum(h.n)))


NATIVE = []


# ----------------------------------------------------------------------------
# which SECT events a transcript graph is given
# ----------------------------------------------------------------------------
TVG9 = 'moPepGen/svgraph/ThreeFrameTVG.py'


class _SectList9:
    """sect_variants while it is filled: logs every append"""
    def __init__(self, st):
        self.st = st

    def sym_method(self, I, name, a, k):
        if name == 'append' and len(a) == 1:
            self.st.log.append(a[0])
            return None
        raise Unsupported(f'sect_variants.{name}')


@register
class GatherSectVariants(Contract):
    """ThreeFrameTVG.gather_sect_variants(anno): the graph gets exactly one SECT event per selenocysteine site of its transcript sequence, in the order
    of the sites - the record create_variant_sect makes for this transcript at the start of that site, placed on [start, end) of the site - and nothing
    else; the finished list is what the graph keeps"""
    path, qualname, props = TVG9, 'ThreeFrameTVG.gather_sect_variants', ('C09',)
    use_summaries = False

    def setup(self, I):
        e = I.e
        st = types.SimpleNamespace(log=[])
        st.n = e.int('n_sec_sites')
        e.assume(st.n >= 0)
        zz = lambda i: i if is_z3(i) else z3.IntVal(i)
        S, E = z3.Function('sec_start', z3.IntSort(), z3.IntSort()), z3.Function('sec_end', z3.IntSort(), z3.IntSort())
        st.S, st.E = S, E
        st.secs = FnView(st.n, lambda i: SymObj('FeatureLocation', start=S(zz(i)), end=E(zz(i)), strand=None, seqname=None, reading_frame_index=None,
                                               start_offset=0, end_offset=0, ref=None, ref_db=None), tag='selenocysteine sites of the transcript')
        st.anno = SymObj('Anno9c')
        st.graph = SymObj('ThreeFrameTVG', seq=SymObj('TxSeq9c', selenocysteine=st.secs), id='ENST_T', sect_variants=None)
        st.args = [st.graph, st.anno]
        self._cur = st
        return st

    @property
    def models(self):
        c = self

        def inst(reg):
            reg.func_('moPepGen/seqvar/VariantRecord.py', 'create_variant_sect',
                      lambda I, a, k: SymObj('SectRecord9c', anno=a[0] if a else k.get('anno'), tx=a[1] if len(a) > 1 else k.get('tx_id'), pos=a[2] if len(a) > 2 else k.get('pos')))
            reg.ctor_('VariantRecordWithCoordinate', lambda I, a, k: SymObj('Placed9c', location=k.get('location', a[1] if len(a) > 1 else None), variant=k.get('variant', a[0] if a else None)))
            reg.ctor_('FeatureLocation', lambda I, a, k: SymObj('Loc9c', start=a[0] if a else k.get('start'), end=a[1] if len(a) > 1 else k.get('end')))
        return (inst,)

    def havoc(self, I, env, k):
        env.set('sect_variants', _SectList9(self._cur))

    def inv(self, I, env, k):
        v = env.lookup('sect_variants') if env.has('sect_variants') else None
        if isinstance(k, int) and k == 0:
            return [('the-list-starts-empty', z3.BoolVal(v == []))]
        return [('the-list-being-filled-is-kept', z3.BoolVal(isinstance(v, _SectList9)))]

    def head(self, I, env, k):
        self._cur.mark = len(self._cur.log)

    def step(self, I, env, k):
        st = self._cur
        new = st.log[st.mark:]
        ok = len(new) == 1 and isinstance(new[0], SymObj) and new[0].cls == 'Placed9c'
        if not ok:
            return [('one-event-per-site', False)]
        var, loc = new[0].fields['variant'], new[0].fields['location']
        okv = isinstance(var, SymObj) and var.cls == 'SectRecord9c' and var.fields['anno'] is st.anno and var.fields['tx'] == 'ENST_T'
        okl = isinstance(loc, SymObj) and loc.cls == 'Loc9c'
        return [('the-event-is-the-SECT-record-of-this-transcript-at-the-start-of-site-k', var.fields['pos'] == st.S(k) if okv and is_z3(var.fields['pos']) else False),
                ('the-event-is-placed-on-site-k', z3.And(loc.fields['start'] == st.S(k), loc.fields['end'] == st.E(k)) if okl else False)]

    @property
    def loops(self):
        return {0: LoopSpec(inv=self.inv, havoc=self.havoc, on_head=self.head, step=self.step, target_after='unknown',
                            on_break=lambda I, env, k: [('every-site-is-visited', False)],
                            on_exit=lambda I, env, n: [('all-sites-were-visited', n == self._cur.n)])}

    def post_return(self, I, st, ret):
        I.e.prove('C09/gather-sect/the-graph-keeps-the-finished-list', z3.BoolVal(isinstance(st.graph.fields.get('sect_variants'), _SectList9)))
