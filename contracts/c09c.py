"""C09 — the node-level step that turns the stop symbols at annotated selenocysteine positions into U (PVGNode.fix_selenocysteines):
callAltTranslation's Sec-terminated peptides are cut at exactly these U's."""
from __future__ import annotations
import types
import z3
from pyvc.contract import Contract, register
from pyvc.core import Unsupported
from pyvc.interp import LoopSpec
from pyvc.pstr import PStr
from pyvc.values import *
from . import c11          # the coordinate conversions are used through their contracts (summaries)

PVG = 'moPepGen/svgraph/PVGNode.py'
I_ = z3.IntSort()


class _Sects(View):
    """sects: the Sec sites of this node in node coordinates, as the alignment loop leaves them (assumed strictly increasing, inside the node)"""
    def __init__(self, st):
        self.st = st

    def length(self):
        return self.st.m

    def sym_len(self, I):
        return self.st.m

    def sym_truth(self, I):
        return self.st.m > 0

    def get(self, t):
        t = t if is_z3(t) else z3.IntVal(t)
        return SymObj('Sect09c', t=t, location=SymObj('Loc09c', start=self.st.K[t], end=self.st.K[t] + 1))

    def sym_getitem(self, I, idx):
        if isinstance(idx, int) and idx < 0:
            return self.get(self.st.m + idx)
        return self.get(idx)

    def sym_method(self, I, name, a, k):
        raise Unsupported(f'sects.{name}')


@register
class FixSelenocysteines(Contract):
    """given the Sec sites of the node (positions k_0 < k_1 < ... inside the node), the node sequence afterwards has the same length, a U at every
    one of these positions and the original residue everywhere else, and the node records exactly these sites; a node without Sec sites is left
    untouched"""
    path, qualname, props = PVG, 'PVGNode.fix_selenocysteines', ('C09',)
    assumptions = ('assumed (not verified): the alignment loop of fix_selenocysteines, which maps the transcript positions of the Sec sites to node positions, '
                   'is abstracted - its result is taken to be any list of sites whose node positions are strictly increasing and inside the node',)

    def setup(self, I):
        e = I.e
        st = types.SimpleNamespace()
        st.L, st.m = e.int('node_len'), e.int('n_sites')
        e.assume(z3.And(st.L >= 1, st.m >= 0, st.m <= st.L))
        st.S = PStr.sym(e, 'node_seq', length=st.L)
        st.K = z3.Array('site_pos', I_, I_)
        st.SL = z3.Function('slot_of_site_position', I_, I_)
        t, u = z3.Ints('t_q u_q')
        st.facts = z3.And(z3.ForAll([t], z3.Implies(z3.And(0 <= t, t < st.m), z3.And(0 <= st.K[t], st.K[t] < st.L, st.SL(st.K[t]) == t))),
                          z3.ForAll([t, u], z3.Implies(z3.And(0 <= t, t < u, u < st.m), st.K[t] < st.K[u])))
        st.sects = _Sects(st)
        st.aa = SymObj('AASeq09c', seq=st.S, locations=FnView(e.int('n_locations'), lambda i: SymObj('MatchedLoc09c'), tag='locations'))
        st.node = SymObj('PVGNode', seq=st.aa, selenocysteines=[])
        st.args = [st.node, FnView(e.int('n_sect_variants'), lambda i: SymObj('SectVariant09c'), tag='sect variants'), SymObj('SubgraphTree09c')]
        self._cur = st
        return st

    @property
    def models(self):
        def inst(reg):
            class _It:
                def sym_next(s_, I, rest):
                    return SymObj('Item09c') if I.e.branch(I.e.bool('iterator_has_item'), 'next') else (rest[0] if rest else I.raise_('StopIteration'))
            reg.iter_hooks.append(lambda I, v: _It() if isinstance(v, FnView) and v.tag in ('locations', 'sect variants') else None)
            reg.protocol_('Sect09c', '__is__', lambda I, a, b: a.fields['t'] == b.fields['t'] if isinstance(b, SymObj) and b.cls == 'Sect09c' else False)
        return (inst,)

    def is_site(self, st, p, upto):
        return z3.And(0 <= st.SL(p), st.SL(p) < upto, st.K[st.SL(p)] == p)

    def rebuilt(self, st, s, i):
        """s = the node sequence up to and including site i-1 (the whole sequence once all sites are done) with U at the sites"""
        if not isinstance(s, PStr):
            return z3.BoolVal(False)
        p = z3.Int('p_q')
        ln = s.length()
        ln = ln if is_z3(ln) else z3.IntVal(ln)
        return z3.And(ln == z3.If(i == st.m, st.L, st.K[i - 1] + 1),
                      z3.ForAll([p], z3.Implies(z3.And(0 <= p, p < ln), s.get(p) == z3.If(self.is_site(st, p, i), ord('U'), st.S.get(p)))))

    def abstract0(self, I, env):
        env['sects'] = self._cur.sects

    def havoc1(self, I, env, k):
        env['new_seq'] = PStr.sym(I.e, 'new_seq')

    def inv1(self, I, env, k):
        st = self._cur
        if not is_z3(k):
            return []
        return [('sequence-rebuilt-up-to-the-previous-site', z3.Implies(k > 0, self.rebuilt(st, env['new_seq'], k)))]

    def head1(self, I, env, k):
        I.e.assume(self._cur.facts)

    @property
    def loops(self):
        return {0: LoopSpec(abstract=self.abstract0),
                1: LoopSpec(inv=self.inv1, havoc=self.havoc1, on_head=self.head1, on_init=lambda I, env: I.e.assume(self._cur.facts), target_after='unknown',
                            on_break=lambda I, env, k: [('every-site-is-written', False)])}

    def post_return(self, I, st, ret):
        e = I.e
        new = st.aa.fields['seq']
        if new is st.S:
            e.prove('C09/fix-sec/untouched-only-without-sites', z3.And(st.m == 0, st.node.fields['selenocysteines'] == []))
            return
        e.prove('C09/fix-sec/same-length-U-at-every-site-original-residue-elsewhere', self.rebuilt(st, new, st.m))
        e.prove('C09/fix-sec/node-records-exactly-these-sites', st.node.fields['selenocysteines'] is st.sects)


VR9 = 'moPepGen/seqvar/VariantRecord.py'


@register
class CreateVariantSect(Contract):
    """the SECT event of a selenocysteine at transcript position pos: a record on [pos, pos + 3) of the transcript, reference TGA, whose id
    SECT-<n> names the gene coordinate (1-based) of the first base of the codon - the genomic position of gene coordinate n - 1 is the
    genomic position of transcript position pos, on both strands"""
    path, qualname, props = VR9, 'create_variant_sect', ('C09',)
    use_summaries = True
    declared_raises = ['ValueError']
    assumptions = ('summaries: coordinate_transcript_to_genomic and coordinate_genomic_to_gene are their proved contracts (C11); the transcript lies inside its gene, same strand',)

    def setup(self, I):
        from .c11 import mk_tx_tagged, mk_gene_tagged
        from .lib import mk_anno, strand_pm
        e = I.e
        st = types.SimpleNamespace()
        st.h = mk_tx_tagged(I, gene_id='ENSG_G')
        st.gn = mk_gene_tagged(I, gene_id='ENSG_G')
        for a in st.h.axioms:
            e.assume(a)
        e.assume(z3.And(st.gn.strand == st.h.strand, strand_pm(st.h.strand), st.gn.start < st.gn.end))
        # the transcript lies inside its gene
        e.assume(z3.And(st.gn.start <= st.h.s[0], st.h.e[st.h.n - 1] <= st.gn.end))
        st.anno = mk_anno(I, genes=[st.gn], txs=[st.h])
        st.pos = e.int('sec_position')
        e.assume(st.pos >= 0)
        st.args = [st.anno, 'ENST_T', st.pos]
        self._cur = st
        return st

    def post_return(self, I, st, ret):
        from .c11 import t2g_spec, gene2g_val
        e = I.e
        loc = ret.fields['location']
        e.prove('C09/sect-record/on-the-three-bases-of-the-codon-in-transcript-coordinates', z3.And(loc.fields['start'] == st.pos, loc.fields['end'] == st.pos + 3))
        e.prove('C09/sect-record/TGA-to-SECT-on-this-transcript', ret.fields['ref'] == 'TGA' and ret.fields['alt'] == '<SECT>' and ret.fields['type'] == 'SECT'
                and ret.fields['attrs'].get('TRANSCRIPT_ID') == 'ENST_T')
        _id = ret.fields['id']
        ok = isinstance(_id, OpaqueStr) and len(_id.parts) == 2 and _id.parts[0] == 'SECT-' and is_sym_int(_id.parts[1])
        n = _id.parts[1] if ok else z3.IntVal(0)
        e.prove('C09/sect-record/id-names-the-gene-coordinate-of-the-first-codon-base',
                z3.And(n >= 1, n - 1 < st.gn.end - st.gn.start, t2g_spec(st.h, st.pos, gene2g_val(st.gn, n - 1))) if ok else False)

    def post_raise(self, I, st, exc):
        h = st.h
        I.e.prove('C09/sect-record/raise/only-for-a-codon-that-does-not-lie-inside-the-transcript', z3.And(exc.cls == 'ValueError', st.pos + 2 >= h.cum(h.n)))


NATIVE = []
