"""C20 — decoyFasta: reversal / shuffle around fixed positions, fixed index computation."""
from __future__ import annotations
import types
import z3
from pyvc.contract import Contract, Lemma, register, induction
from pyvc.core import Unsupported, as_bool
from pyvc.interp import LoopSpec, PyRaise
from pyvc.symlist import SymList
from pyvc.seqalg import SymString, PredSet, FilterList
from pyvc.values import *

DF = 'moPepGen/cli/decoy_fasta.py'
I_, B_ = z3.IntSort(), z3.BoolSort()


def install_seq(reg):
    reg.ext_('Bio.Seq.Seq', lambda I, a, k: SymObj('Seq', data=a[0]))
    reg.ext_('Seq', lambda I, a, k: SymObj('Seq', data=a[0]))


class _Rearrange(Contract):
    """common part of reverse_sequence / shuffle_sequence"""
    props = ('C20',)
    models = (install_seq,)
    uses_lemmas = ('filter_count_monotone',)

    def setup(self, I):
        e = I.e
        st = types.SimpleNamespace()
        st.L = e.int('L')
        e.assume(st.L >= 0)
        st.ch = z3.Array('ch', I_, I_)
        st.fixed = z3.Function('fixed', I_, B_)
        st.seq = SymString(st.L, lambda i: st.ch[i if is_z3(i) else z3.IntVal(i)], tag='seq')
        st.fixed_indices = PredSet(st.fixed)
        st.args = [st.seq, st.fixed_indices]
        self._cur = st
        return st

    def source(self, I, t):
        """index of the residue placed at the t-th non-fixed position"""
        raise NotImplementedError

    def out_spec(self, I, out_get, p):
        st = self._cur
        nf = I.last_filter
        q = z3.Int('oq')
        return z3.ForAll([q], z3.Implies(z3.And(0 <= q, q < p),
                                          out_get(q) == z3.If(st.fixed(q), st.ch[q], st.ch[self.source(I, nf.cnt(q))])))

    def inv(self, I, env, k):
        st = self._cur
        nf = I.last_filter
        if not all(env.has(nm) for nm in ('i', 'offset', 'shuffled_seq')):
            # the invariant speaks about the cursor, the number of fixed positions passed and the output built so far
            raise Unsupported('the fill loop no longer carries a cursor i, an offset and the output list: its invariant cannot be stated')
        i, off = env['i'], env['offset']
        out = env['shuffled_seq']
        p = i + off
        L = out.length if isinstance(out, SymList) else z3.IntVal(len(out))
        get = (lambda q: out.arr[q]) if isinstance(out, SymList) else (lambda q: z3.IntVal(-1))
        return [('counters', z3.And(0 <= i, i <= nf.m, off >= 0, p <= st.L)),
                ('output-length', L == p),
                ('non-fixed-seen=i', nf.cnt(p) == i),
                ('prefix-is-the-rearrangement', self.out_spec(I, get, p))]

    def havoc(self, I, env, k):
        env['shuffled_seq'] = SymList(I, 'out')

    @property
    def loops(self):
        return {0: LoopSpec(inv=self.inv, havoc=self.havoc,
                            decreases=lambda I, env, k: 2 * (self._cur.L + 1) - 2 * env['i'] - env['offset'] + self._cur.L)}

    def post_return(self, I, st, ret):
        out = ret.fields['data']
        I.e.prove('C20/rearrange/same-length', out.length() == st.L)
        I.e.prove('C20/rearrange/fixed-positions-kept-others-permuted', self.out_spec(I, out.get, st.L))


@register
class ReverseSequence(_Rearrange):
    path, qualname = DF, 'DecoyFasta.reverse_sequence'

    def source(self, I, t):
        nf = I.last_filter
        return nf.X[nf.m - 1 - t]


@register
class ShuffleSequence(_Rearrange):
    path, qualname = DF, 'DecoyFasta.shuffle_sequence'
    assumptions = ('assumed: random.sample(xs, len(xs)) returns a permutation of xs (CPython random)',)

    @property
    def models(self):
        return (install_seq, self.install_models)

    def install_models(self, reg):
        c = self

        def sample(I, a, k):
            xs, n = a[0], a[1]
            nf = I.last_filter
            if xs is not nf:
                raise Unsupported('random.sample on something else than the non-fixed index list')
            I.e.prove('C20/shuffle/samples-all-non-fixed-indices', n == nf.m)
            e = I.e
            sigma = z3.Function('sigma', I_, I_)
            inv = z3.Function('sigma_inv', I_, I_)
            t = z3.Int('pt')
            e.assume(z3.ForAll([t], z3.Implies(z3.And(0 <= t, t < nf.m), z3.And(0 <= sigma(t), sigma(t) < nf.m, inv(sigma(t)) == t))))
            e.assume(z3.ForAll([t], z3.Implies(z3.And(0 <= t, t < nf.m), z3.And(0 <= inv(t), inv(t) < nf.m, sigma(inv(t)) == t))))
            c._cur.sigma = sigma
            return FnView(nf.m, lambda j: nf.X[sigma(j if is_z3(j) else z3.IntVal(j))], tag='sample')
        reg.ext_('random.sample', sample)

    def source(self, I, t):
        nf = I.last_filter
        return nf.X[self._cur.sigma(t)]


@register
class FilterCountMonotone(Lemma):
    """cnt(a) <= cnt(b) <= cnt(a) + (b-a) for 0 <= a <= b (assumed inside FilterList; induction on b)."""
    qualname, props = 'filter_count_monotone', ('C20',)

    def obligations(self, e):
        P = z3.Function('P', I_, B_)
        cnt = z3.Function('cnt', I_, I_)
        q, a = z3.Ints('q a')
        ax = [cnt(0) == 0, z3.ForAll([q], z3.Implies(q >= 0, cnt(q + 1) == cnt(q) + z3.If(P(q), 1, 0)), patterns=[cnt(q + 1)])]
        Pb = lambda b: z3.ForAll([a], z3.Implies(z3.And(0 <= a, a <= b), z3.And(cnt(a) <= cnt(b), cnt(b) - cnt(a) <= b - a)))
        n = z3.Int('n_any')
        return induction('monotone-1-lipschitz', Pb, n, ax)


@register
class RearrangementIsPermutation(Lemma):
    """Over the contracts of reverse/shuffle: q -> (fixed(q) ? q : NF[m-1-cnt(q)]) is an involution on
    [0,L) (reversal) and q -> NF[sigma(cnt(q))] a bijection (shuffle): the decoy is a rearrangement of
    the target's residues that keeps every fixed position."""
    qualname, props = 'rearrangement_is_permutation', ('C20',)

    def obligations(self, e):
        fixed = z3.Function('fixed', I_, B_)
        cnt = z3.Function('cnt', I_, I_)
        NF = z3.Array('NF', I_, I_)
        L, q, t, a, b = z3.Ints('L q t a b')
        m = cnt(L)
        ax = [L >= 0, cnt(0) == 0,
              z3.ForAll([q], z3.Implies(q >= 0, cnt(q + 1) == cnt(q) + z3.If(fixed(q), 0, 1)), patterns=[cnt(q + 1)]),
              z3.ForAll([q], z3.Implies(z3.And(0 <= q, q < L, z3.Not(fixed(q))), NF[cnt(q)] == q), patterns=[cnt(q)]),
              z3.ForAll([t], z3.Implies(z3.And(0 <= t, t < m), z3.And(0 <= NF[t], NF[t] < L, z3.Not(fixed(NF[t])), cnt(NF[t]) == t)), patterns=[NF[t]]),
              z3.ForAll([a, b], z3.Implies(z3.And(0 <= a, a <= b), z3.And(cnt(a) <= cnt(b), cnt(b) - cnt(a) <= b - a)),
                        patterns=[z3.MultiPattern(cnt(a), cnt(b))])]
        pi = lambda x: z3.If(fixed(x), x, NF[m - 1 - cnt(x)])
        sigma = z3.Function('sigma', I_, I_)
        inv = z3.Function('sigma_inv', I_, I_)
        perm = [z3.ForAll([t], z3.Implies(z3.And(0 <= t, t < m), z3.And(0 <= sigma(t), sigma(t) < m, inv(sigma(t)) == t))),
                z3.ForAll([t], z3.Implies(z3.And(0 <= t, t < m), z3.And(0 <= inv(t), inv(t) < m, sigma(inv(t)) == t)))]
        rho = lambda x: z3.If(fixed(x), x, NF[sigma(cnt(x))])
        rho_inv = lambda x: z3.If(fixed(x), x, NF[inv(cnt(x))])
        return [('reverse/involution', ax + [0 <= q, q < L], z3.And(0 <= pi(q), pi(q) < L, pi(pi(q)) == q)),
                ('reverse/fixed-stay', ax + [0 <= q, q < L, fixed(q)], pi(q) == q),
                ('shuffle/bijection', ax + perm + [0 <= q, q < L],
                 z3.And(0 <= rho(q), rho(q) < L, rho_inv(rho(q)) == q, rho(rho_inv(q)) == q))]


# ----------------------------------------------------------------------------
# find_fixed_indices
# ----------------------------------------------------------------------------
class MemList:
    """a list observed only through membership (`x in lst`): predicate in SSA form"""
    def __init__(self, I, name='fixed_indices', mem=None):
        self.I, self.name = I, name
        self.mem = mem if mem is not None else (lambda y: z3.BoolVal(False))

    def sym_contains(self, I, item):
        return self.mem(item if is_z3(item) else z3.IntVal(item))

    def sym_method(self, I, name, args, kwargs):
        if name == 'append':
            x = args[0] if is_z3(args[0]) else z3.IntVal(args[0])
            old = self.mem
            self.mem = lambda y, old=old, x=x: z3.Or(old(y), y == x)
            return None
        raise Unsupported(f'MemList.{name}')

    def sym_iadd(self, I, other):
        if isinstance(other, SiteView):
            old = self.mem
            self.mem = lambda y, old=old, o=other: z3.Or(old(y), o.pred(y))
            return self
        raise Unsupported('MemList += unknown')

    def sym_havoc(self, I, name):
        f = z3.Function(I.e.fresh_name(f'{name}_mem'), I_, B_)
        return MemList(I, name, lambda y: f(y))


class SiteView(FnView):
    def __init__(self, pred):
        self.pred = pred
        super().__init__(z3.Int('n_sites'), lambda i: z3.Int('some_site'), tag='sites')


@register
class FindFixedIndices(Contract):
    path, qualname, props = DF, 'DecoyFasta.find_fixed_indices', ('C20',)
    assumptions = ('assumed: AminoAcidSeqRecord(seq).find_all_enzymatic_cleave_sites(rule, exception) is the site list of C10 (site(x): cleavage between x-1 and x)',)

    def setup(self, I):
        e = I.e
        st = types.SimpleNamespace()
        st.L = e.int('L')
        e.assume(st.L >= 0)
        st.ch = z3.Array('ch', I_, I_)
        st.site = z3.Function('site', I_, B_)
        st.pat = z3.Function('in_non_shuffle_pattern', I_, B_)
        y = z3.Int('sy')
        e.assume(z3.ForAll([y], z3.Implies(st.site(y), z3.And(1 <= y, y <= st.L))))
        st.nterm, st.cterm = e.bool('keep_nterm'), e.bool('keep_cterm')
        st.enzyme_given = e.bool('enzyme_given')
        enzyme = ('trypsin' if e.branch(e.bool('is_trypsin'), 'trypsin') else 'lysc') if e.branch(st.enzyme_given, 'enzyme given') else None
        st.enzyme = enzyme
        st.seq = SymString(st.L, lambda i: st.ch[i if is_z3(i) else z3.IntVal(i)], tag='seq')
        st.self = SymObj('DecoyFasta', enzyme=enzyme, keep_peptide_nterm=st.nterm, keep_peptide_cterm=st.cterm,
                         non_shuffle_pattern=PredSet(st.pat))
        st.args = [st.self, st.seq]
        self._cur = st
        return st

    @property
    def models(self):
        return (self.install_models,)

    def install_models(self, reg):
        c = self
        reg.ctor_('AminoAcidSeqRecord', lambda I, a, k: SymObj('AARecStub', seq=a[0]))

        def sites(I, o, a, k):
            st = c._cur
            I.e.prove('C20/fixed/sites-of-the-target-sequence', o.fields['seq'] is st.seq)
            I.e.prove('C20/fixed/sites-of-the-requested-enzyme', a[0] == st.enzyme)
            return SiteView(st.site)
        reg.method_('AARecStub', 'find_all_enzymatic_cleave_sites', sites)

    def positional(self, y):
        st = self._cur
        return z3.And(0 <= y, y < st.L,
                      z3.Or(z3.And(y == 0, st.nterm), z3.And(y == st.L - 1, st.cterm), st.pat(st.ch[y])))

    def member_spec(self, y, upto):
        st = self._cur
        s = z3.And(st.enzyme_given, st.site(y))
        return z3.Or(s, z3.And(y < upto, self.positional(y)))

    def inv(self, I, env, k):
        y = z3.Int('my')
        fi = env['fixed_indices']
        return [('membership', z3.ForAll([y], fi.mem(y) == self.member_spec(y, k)))]

    def havoc(self, I, env, k):
        cur = env['fixed_indices']
        env['fixed_indices'] = MemList(I).sym_havoc(I, 'fixed_indices') if not isinstance(cur, MemList) else cur.sym_havoc(I, 'fixed_indices')

    def on_init(self, I, env):
        cur = env['fixed_indices']
        if isinstance(cur, list) and not cur:
            env['fixed_indices'] = MemList(I)

    @property
    def loops(self):
        return {0: LoopSpec(inv=self.inv, havoc=self.havoc, on_init=self.on_init)}

    def post_return(self, I, st, ret):
        y = z3.Int('ry')
        I.e.prove('C20/fixed/exactly-the-requested-positions-and-the-site-indices',
                  z3.ForAll([y], ret.mem(y) == self.member_spec(y, st.L)))
        # the clause the property states for cleavage sites: the residue that carries the specificity
        # (index site-1 for the C-terminal cutters) stays in place  -> known finding K1
        I.e.prove('C20/fixed/cleavage-residue-is-fixed',
                  z3.ForAll([y], z3.Implies(z3.And(st.enzyme_given, st.site(y)), ret.mem(y - 1))))


# the list `fixed_indices = []` must become a MemList before `+=`: hook on the empty list literal
def _patch_augassign():
    from pyvc import interp as _i
    orig = _i.Interp.s_AugAssign
    def s_AugAssign(self, s, env):
        import ast as _ast
        if isinstance(s.target, _ast.Name) and env.has(s.target.id):
            cur = env.lookup(s.target.id)
            if isinstance(cur, list) and not cur and isinstance(s.op, _ast.Add):
                v = self.eval(s.value, env)
                if isinstance(v, SiteView):
                    ml = MemList(self)
                    env.set(s.target.id, ml.sym_iadd(self, v))
                    return
                if isinstance(v, list):
                    cur.extend(v)
                    return
                raise Unsupported('[] += symbolic sequence')
        return orig(self, s, env)
    _i.Interp.s_AugAssign = s_AugAssign


_patch_augassign()


# ----------------------------------------------------------------------------
# generate_decoy_sequence / iterate_target_decoy_database / main
# ----------------------------------------------------------------------------
class GhostPool:
    def __init__(self, name, log):
        self.name, self.log = name, log

    def sym_contains(self, I, item):
        return I.e.bool(f'in_{self.name}')

    def sym_method(self, I, name, a, k):
        self.log.append((self.name, name, a))
        return None


@register
class GenerateDecoy(Contract):
    path, qualname, props = DF, 'DecoyFasta.generate_decoy_sequence', ('C20',)
    assumptions = ('modular: find_fixed_indices / reverse_sequence / shuffle_sequence are used through their contracts (fresh results tagged with their arguments)',)

    def setup(self, I):
        e = I.e
        st = types.SimpleNamespace()
        st.log = []
        st.method = ['reverse', 'shuffle', 'other'][e.choose(3, 'method')]
        st.position = ['prefix', 'suffix'][e.choose(2, 'position')]
        st.max_attempts = e.int('shuffle_max_attempts')
        st.summary = SymObj('_Summary', n_overlap=e.int('n_overlap0'), n_decoy=e.int('n_decoy0'))
        st.n_overlap0, st.n_decoy0 = st.summary.fields['n_overlap'], st.summary.fields['n_decoy']
        st.decoy_db = []
        st.self = SymObj('DecoyFasta', method=st.method, decoy_string='DECOY_', decoy_string_position=st.position,
                         shuffle_max_attempts=st.max_attempts, _target_pool=GhostPool('target_pool', st.log),
                         _decoy_pool=GhostPool('decoy_pool', st.log), _summary=st.summary, decoy_db=st.decoy_db,
                         enzyme='trypsin')
        st.target_seq = SymObj('Seq', tag_='target')
        st.rec = SymObj('SeqRecord', seq=st.target_seq, description='ENST|SNV-1-A-T some text', id='ENST|SNV-1-A-T', name='ENST|SNV-1-A-T')
        st.args = [st.self, st.rec]
        st.made = []
        self._cur = st
        return st

    @property
    def models(self):
        return (self.install_models,)

    def install_models(self, reg):
        c = self

        def fixed(I, o, a, k):
            I.e.prove('C20/decoy/fixed-indices-of-the-target-sequence', a[0] is c._cur.target_seq)
            fi = SymObj('FixedIndices', of=a[0])
            c._cur.fi = fi
            return fi
        reg.method_('DecoyFasta', 'find_fixed_indices', fixed)

        def rearr(kind):
            def hook(I, o, a, k):
                st = c._cur
                I.e.prove(f'C20/decoy/{kind}-of-the-target-with-its-fixed-indices', a[0] is st.target_seq and a[1] is st.fi)
                d = SymObj('Seq', kind=kind, n=len(st.made))
                st.made.append(d)
                return d
            return hook
        reg.method_('DecoyFasta', 'reverse_sequence', rearr('reverse'))
        reg.method_('DecoyFasta', 'shuffle_sequence', rearr('shuffle'))
        reg.ctor_('SeqRecord', lambda I, a, k: SymObj('SeqRecord', seq=a[0], description=k.get('description')))
        reg.ext_('Bio.SeqRecord.SeqRecord', lambda I, a, k: SymObj('SeqRecord', seq=a[0], description=k.get('description')))

    @property
    def loops(self):
        # shuffle retry loop: attempts strictly increases; leaves when no collision or attempts >= max
        return {0: LoopSpec(inv=lambda I, env, k: [('attempts>=0', env['attempts'] >= 0)])}

    def post_return(self, I, st, ret):
        e = I.e
        e.prove('C20/decoy/supported-method', st.method in ('reverse', 'shuffle'))
        e.prove('C20/decoy/exactly-one-decoy-record', len(st.decoy_db) == 1)
        if len(st.decoy_db) == 1:
            d = st.decoy_db[0]
            want = 'DECOY_ENST|SNV-1-A-T some text' if st.position == 'prefix' else 'ENST|SNV-1-A-T some text' + 'DECOY_'
            e.prove('C20/decoy/header-is-target-header-with-decoy-string', d.fields['description'] == want)
            e.prove('C20/decoy/sequence-is-a-rearrangement-of-this-target',
                    d.fields['seq'] in st.made and d.fields['seq'] is st.made[-1] and d.fields['seq'].fields['kind'] == st.method)
            adds = [x for x in st.log if x[0] == 'decoy_pool' and x[1] == 'add']
            e.prove('C20/decoy/registered-in-decoy-pool', len(adds) == 1 and adds[0][2][0] is d.fields['seq'])
        e.prove('C20/decoy/counted', st.summary.fields['n_decoy'] == st.n_decoy0 + 1)
        e.prove('C20/decoy/target-record-unchanged', st.rec.fields['seq'] is st.target_seq and st.rec.fields['description'] == 'ENST|SNV-1-A-T some text')

    def post_raise(self, I, st, exc):
        I.e.prove('C20/decoy/raises-only-for-unsupported-method', exc.cls == 'ValueError' and st.method == 'other')


@register
class IterateDatabase(Contract):
    path, qualname, props = DF, 'DecoyFasta.iterate_target_decoy_database', ('C20',)

    def setup(self, I):
        e = I.e
        st = types.SimpleNamespace()
        st.n = e.int('n')
        e.assume(st.n >= 0)
        st.order = ['juxtaposed', 'target_first', 'decoy_first', 'other'][e.choose(4, 'order')]
        mk = lambda kind: FnView(st.n, lambda i, kind=kind: SymObj('SeqRecord', kind=kind, i=i if is_z3(i) else z3.IntVal(i)), tag=kind)
        st.self = SymObj('DecoyFasta', order=st.order, target_db=mk('target'), decoy_db=mk('decoy'))
        st.args = [st.self]
        self._cur = st
        return st

    def on_head(self, I, env, k):
        fr = [f for f in I.frames if f.qualname == self.qualname][-1]
        self._cur.frame, self._cur.y0 = fr, len(fr.yields)

    def mk_step(self, kinds):
        def step(I, env, k):
            st = self._cur
            new = st.frame.yields[st.y0:]
            ok = len(new) == len(kinds) and all(isinstance(x, SymObj) and x.fields.get('kind') == kd and
                                                 z3.is_true(z3.simplify(x.fields['i'] == k)) for x, kd in zip(new, kinds))
            return [('yields-' + '+'.join(kinds) + '-of-this-index', ok)]
        return step

    @property
    def loops(self):
        T = lambda I, env, k: []
        return {0: LoopSpec(inv=T, on_head=self.on_head, step=self.mk_step(['target', 'decoy'])),
                1: LoopSpec(inv=T, on_head=self.on_head, step=self.mk_step(['target'])),
                2: LoopSpec(inv=T, on_head=self.on_head, step=self.mk_step(['decoy'])),
                3: LoopSpec(inv=T, on_head=self.on_head, step=self.mk_step(['decoy'])),
                4: LoopSpec(inv=T, on_head=self.on_head, step=self.mk_step(['target']))}

    def post_return(self, I, st, ret):
        I.e.prove('C20/order/supported', st.order != 'other')

    def post_raise(self, I, st, exc):
        I.e.prove('C20/order/raises-only-for-unsupported-order', exc.cls == 'ValueError' and st.order == 'other')


@register
class DecoyMain(Contract):
    path, qualname, props = DF, 'DecoyFasta.main', ('C20',)
    assumptions = ('assumed: SeqIO.parse, list.sort(key=seq), random.seed, _Summary.log_summary, write are external; only their call order is observed',)

    def setup(self, I):
        e = I.e
        st = types.SimpleNamespace()
        st.events = []
        st.n = e.int('n')
        e.assume(st.n >= 0)
        st.seed_given = e.bool('seed_given')
        seed = e.int('seed') if e.branch(st.seed_given, 'seed given') else None
        st.self = SymObj('DecoyFasta', input_path=OpaqueStr(['in']), seed=seed, target_db=[], _target_pool=set(),
                         _summary=SymObj('_Summary'))
        st.args = [st.self]
        self._cur = st
        return st

    @property
    def models(self):
        return (self.install_models,)

    def install_models(self, reg):
        c = self
        ev = lambda: c._cur.events
        reg.ext_('open', lambda I, a, k: SymObj('File'))
        reg.ext_('Bio.SeqIO.parse', lambda I, a, k: SymObj('ParsedRecords'))

        class TargetList:
            def __init__(s):
                s.sorted = False
            def sym_method(s, I, name, a, k):
                if name == 'sort':
                    key = k.get('key')
                    probe = SymObj('SeqRecord', seq=SymObj('Seq'), description='d')
                    I.e.prove('C20/main/targets-sorted-by-sequence', key is not None and I.call(key, [probe], {}) is probe.fields['seq'])
                    ev().append('sort')
                    s.sorted = True
                    return None
                raise Unsupported(name)
            def sym_view(s, I):
                return FnView(c._cur.n, lambda i: SymObj('SeqRecord', seq=SymObj('Seq', i=i), i=i if is_z3(i) else z3.IntVal(i)), tag='target_db')

        def to_list(I, a, k):
            return None
        orig_list = None
        reg.iter_hooks.append(lambda I, v: None)

        def list_hook(I, v):
            return None
        # list(SeqIO.parse(...)) -> TargetList
        def bi_list_hook(I, a, k):
            if a and isinstance(a[0], SymObj) and a[0].cls == 'ParsedRecords':
                t = TargetList()
                c._cur.targets = t
                ev().append('load')
                return t
            return None
        reg.list_hook = bi_list_hook

        def seed(I, a, k):
            ev().append('seed')
            I.e.prove('C20/main/seed-is-the-requested-seed', a[0] is c._cur.self.fields['seed'])
        reg.ext_('random.seed', seed)

        def gen(I, o, a, k):
            ev().append(('decoy', a[0].fields['i']))
        reg.method_('DecoyFasta', 'generate_decoy_sequence', gen)
        reg.method_('_Summary', 'log_summary', lambda I, o, a, k: ev().append('summary'))
        reg.method_('DecoyFasta', 'write', lambda I, o, a, k: ev().append('write'))

        def comp_hook(I, node, env, view, kind):
            if kind == 'set' and getattr(view, 'tag', None) == 'target_db':
                ev().append('target_pool')
                return SymObj('TargetPool')
            return None
        reg.comprehension_hooks.append(comp_hook)

    def on_head(self, I, env, k):
        self._cur.e0 = len(self._cur.events)

    def step(self, I, env, k):
        st = self._cur
        new = st.events[st.e0:]
        return [('one-decoy-per-target-in-sorted-order',
                 len(new) == 1 and isinstance(new[0], tuple) and z3.is_true(z3.simplify(new[0][1] == k)))]

    @property
    def loops(self):
        return {0: LoopSpec(inv=lambda I, env, k: [], on_head=self.on_head, step=self.step)}

    def post_return(self, I, st, ret):
        evs = [x for x in st.events if not isinstance(x, tuple)]
        want = ['load', 'sort', 'target_pool'] + (['seed'] if st.self.fields['seed'] is not None else []) + ['summary', 'write']
        I.e.prove('C20/main/load-sort-seed-generate-write-in-this-order', evs == want)


# ----------------------------------------------------------------------------
# Native side
# ----------------------------------------------------------------------------
from pyvc.native import NativeCheck
import itertools


class NativeDecoy(NativeCheck):
    name = 'decoy'
    props = ('C20',)
    functions = (f'{DF}:DecoyFasta.reverse_sequence', f'{DF}:DecoyFasta.shuffle_sequence', f'{DF}:DecoyFasta.find_fixed_indices',
                 f'{DF}:DecoyFasta.generate_decoy_sequence', f'{DF}:DecoyFasta.iterate_target_decoy_database', f'{DF}:DecoyFasta.main')
    bounded_for = 'whole-command behaviour: one decoy per target, reproducible for a seed, independent of the input order, output order respected'
    bound = ('reverse/shuffle: all sequences over {A,K,P} up to length 6 x all fixed sets (quick: length <= 5); '
             'command: 6 random target FASTAs (2-6 peptides, low-complexity included) x method x enzyme(None,trypsin) x order x seed, input order permuted')
    quick_budget_s = 60
    thorough_budget_s = 300

    def cases(self, rng, tier):
        maxlen = 6 if tier == 'thorough' else 5
        for L in range(0, maxlen + 1):
            for s in itertools.product('AKP', repeat=L):
                s = ''.join(s)
                for r in range(0, L + 1):
                    for fx in itertools.combinations(range(L), r):
                        yield dict(kind='rearrange', seq=s, fixed=list(fx))
        for s in ('AKA', 'MKRPK', 'GGKPRAA', 'KKKK', 'AAAA'):
            for enz in (None, 'trypsin', 'lysc'):
                yield dict(kind='fixed', seq=s, enzyme=enz, nterm=True, cterm=False, pattern=['P'])
        for _ in range(12 if tier == 'thorough' else 6):
            n = rng.randint(2, 6)
            peps = []
            while len(peps) < n:
                p = ''.join(rng.choice('AKRPGLW' if rng.random() < 0.8 else 'AK') for _ in range(rng.randint(4, 12)))
                if p not in peps:
                    peps.append(p)
            yield dict(kind='command', peptides=peps, method=rng.choice(['reverse', 'shuffle']), enzyme=rng.choice([None, 'trypsin']),
                       order=rng.choice(['juxtaposed', 'target_first', 'decoy_first']), seed=rng.randint(1, 10 ** 6),
                       position=rng.choice(['prefix', 'suffix']))

        # targets that share a sequence under different headers (each is a target of its own), and near-identical low-complexity targets
        # whose first shuffle collides, so that the retry path runs
        yield dict(kind='command-records', records=[['a|one', 'PEPTIDEK'], ['b|two', 'MKAAGR'], ['c|three', 'PEPTIDEK'], ['d|four', 'GGLLKR']], method='reverse',
                   enzyme=None, seed=7)
        yield dict(kind='command-records', records=[['a|one', 'PEPTIDEK'], ['b|two', 'MKAAGR'], ['c|three', 'PEPTIDEK'], ['d|four', 'GGLLKR']], method='shuffle',
                   enzyme='trypsin', seed=11)
        low = ['M' + a + b + 'G' + c_ + d_ + 'R' for a, b, c_, d_ in itertools.product('AKEF', repeat=4)]
        for seed in ((1, 2, 3) if tier != 'thorough' else range(1, 9)):
            pick = [low[(seed * 37 + 11 * j) % len(low)] for j in range(18)]
            pick = list(dict.fromkeys(pick))
            yield dict(kind='command-records', records=[[f'h{j}|x', p] for j, p in enumerate(pick)], method='shuffle', enzyme='trypsin', seed=seed)

    def check_records(self, inp):
        """every input record is a target of its own (also when two share a sequence) and gets exactly one decoy that keeps, relative to
        ITS target, the positions find_fixed_indices names for that target"""
        import tempfile, shutil, argparse, os
        from pathlib import Path
        from moPepGen import cli
        from moPepGen.cli.decoy_fasta import DecoyFasta
        from Bio.Seq import Seq
        tmp = tempfile.mkdtemp(prefix='pyvc_c20r_')
        try:
            src = os.path.join(tmp, 'in.fasta')
            with open(src, 'w') as fh:
                for h, s_ in inp['records']:
                    fh.write(f'>{h}\n{s_}\n')
            a = argparse.Namespace(command='decoyFasta', input_path=Path(src), output_path=Path(os.path.join(tmp, 'out.fasta')), decoy_string='DECOY_',
                                   decoy_string_position='prefix', method=inp['method'], enzyme=inp['enzyme'], shuffle_max_attempts=30, non_shuffle_pattern='',
                                   keep_peptide_nterm='true', keep_peptide_cterm='true', seed=inp['seed'], order='juxtaposed', quiet=True)
            cli.decoy_fasta(a)
            recs, cur = [], None
            for line in open(a.output_path):
                line = line.rstrip('\n')
                if line.startswith('>'):
                    recs.append([line[1:], ''])
                else:
                    recs[-1][1] += line
            targets = sorted((h, s_) for h, s_ in recs if not h.startswith('DECOY_'))
            if targets != sorted((h, s_) for h, s_ in inp['records']):
                return dict(call=f'decoyFasta on {inp["records"][:4]}...', observed=targets[:6], expected='every input record written unchanged as a target', signature='target-lost-or-changed')
            by_header = dict((h, s_) for h, s_ in inp['records'])
            decoys = [(h, s_) for h, s_ in recs if h.startswith('DECOY_')]
            if sorted(h[6:] for h, _ in decoys) != sorted(by_header):
                return dict(call='decoyFasta', observed=sorted(h for h, _ in decoys)[:6], expected='exactly one decoy per target, named after it', signature='decoy-count')
            probe = DecoyFasta(None, None, inp['method'], inp['enzyme'], True, True, [''], 30, inp['seed'], 'DECOY_', 'prefix', 'juxtaposed')
            for h, s_ in decoys:
                t = by_header[h[6:]]
                fixed = probe.find_fixed_indices(Seq(t))
                if len(s_) != len(t) or sorted(s_) != sorted(t) or any(s_[i] != t[i] for i in fixed):
                    return dict(call=f'decoy of {t} ({inp["method"]}, enzyme {inp["enzyme"]}, seed {inp["seed"]})', observed=s_, expected=f'a rearrangement of {t} keeping positions {sorted(fixed)}',
                                signature='decoy-does-not-keep-the-fixed-positions-of-its-target')
        finally:
            shutil.rmtree(tmp, ignore_errors=True)
        return None

    def nontrivial(self, inp):
        if inp['kind'] == 'rearrange':
            return (inp['seq'], tuple(inp['fixed'])) if len(inp['seq']) >= 2 and len(set(inp['seq'])) > 1 else None
        return str(inp)

    def from_model(self, model):
        return None

    def check(self, inp):
        from moPepGen.cli.decoy_fasta import DecoyFasta
        from Bio.Seq import Seq
        from . import pyspec
        if inp['kind'] == 'rearrange':
            s, fx = inp['seq'], inp['fixed']
            nf = [i for i in range(len(s)) if i not in fx]
            exp = list(s)
            for t, i in enumerate(nf):
                exp[i] = s[nf[len(nf) - 1 - t]]
            got = str(DecoyFasta.reverse_sequence(Seq(s), fx))
            if got != ''.join(exp):
                return dict(call=f'reverse_sequence({s!r}, {fx})', observed=got, expected=''.join(exp))
            import random
            random.seed(len(s) * 7 + len(fx))
            got = str(DecoyFasta.shuffle_sequence(Seq(s), fx))
            if len(got) != len(s) or any(got[i] != s[i] for i in fx) or sorted(got) != sorted(s):
                return dict(call=f'shuffle_sequence({s!r}, {fx})', observed=got, expected='rearrangement keeping the fixed positions')
            return None
        if inp['kind'] == 'fixed':
            d = DecoyFasta(None, None, 'reverse', inp['enzyme'], inp['nterm'], inp['cterm'], inp['pattern'], 10, 1, 'DECOY_', 'prefix', 'juxtaposed')
            got = set(d.find_fixed_indices(Seq(inp['seq'])))
            s = inp['seq']
            pos = {i for i in range(len(s)) if (i == 0 and inp['nterm']) or (i == len(s) - 1 and inp['cterm']) or s[i] in inp['pattern']}
            sites = set(pyspec.cleave_sites(s, inp['enzyme'])) if inp['enzyme'] else set()
            # the property: the residue carrying the specificity (site-1) is fixed
            want = pos | {x - 1 for x in sites}
            if got != want:
                return dict(call=f'find_fixed_indices({s!r}, enzyme={inp["enzyme"]})', observed=sorted(got), expected=sorted(want),
                            signature='site-index-instead-of-residue-index' if got == pos | sites else 'other')
            return None
        if inp['kind'] == 'command-records':
            return self.check_records(inp)
        # whole command
        import tempfile, shutil, argparse, os
        from moPepGen import cli
        tmp = tempfile.mkdtemp(prefix='pyvc_c20_')
        try:
            def run(peps, name, seed):
                inp_p = os.path.join(tmp, name + '.fasta')
                with open(inp_p, 'w') as fh:
                    for i, p in enumerate(peps):
                        fh.write(f'>H{abs(hash(p)) % 10 ** 6}|{p[:3]} free text {len(p) % 2}\n{p}\n')
                from pathlib import Path
                a = argparse.Namespace(command='decoyFasta', input_path=Path(inp_p), output_path=Path(os.path.join(tmp, name + '.out.fasta')),
                                       decoy_string='DECOY_', decoy_string_position=inp['position'], method=inp['method'],
                                       enzyme=inp['enzyme'], shuffle_max_attempts=30, non_shuffle_pattern='', keep_peptide_nterm='true',
                                       keep_peptide_cterm='true', seed=seed, order=inp['order'], quiet=True)
                cli.decoy_fasta(a)
                recs = []
                h = None
                for line in open(a.output_path):
                    line = line.rstrip('\n')
                    if line.startswith('>'):
                        h = line[1:]
                        recs.append([h, ''])
                    else:
                        recs[-1][1] += line
                return [tuple(r) for r in recs]
            peps = inp['peptides']
            r1 = run(peps, 'a', inp['seed'])
            r2 = run(list(reversed(peps)), 'b', inp['seed'])
            r3 = run(peps, 'c', inp['seed'])
            hdr = {p: f'H{abs(hash(p)) % 10 ** 6}|{p[:3]} free text {len(p) % 2}' for i, p in enumerate(peps)}
            targets = [(h, s) for h, s in r1 if 'DECOY_' not in h]
            decoys = [(h, s) for h, s in r1 if 'DECOY_' in h]
            if sorted(targets) != sorted((hdr[p], p) for p in peps):
                return dict(observed=targets, expected='every target unchanged')
            if len(decoys) != len(peps):
                return dict(observed=len(decoys), expected='exactly one decoy per target')
            for h, s in decoys:
                th = h[len('DECOY_'):] if inp['position'] == 'prefix' else h[:-len('DECOY_')]
                t = [p for p in peps if hdr[p] == th]
                if len(t) != 1 or sorted(s) != sorted(t[0]) or s[0] != t[0][0] or s[-1] != t[0][-1]:
                    return dict(observed=(h, s), expected='decoy header = target header + decoy string; rearrangement keeping N-/C-terminus')
            if r1 != r3:
                return dict(observed='two runs with the same seed differ', expected='reproducible')
            if sorted(r1) != sorted(r2):
                return dict(observed=dict(only_in_first=sorted(set(r1) - set(r2))[:3]), expected='record set independent of the input order')
            kinds = ['D' if 'DECOY_' in h else 'T' for h, s in r1]
            n = len(peps)
            want = {'juxtaposed': ['T', 'D'] * n, 'target_first': ['T'] * n + ['D'] * n, 'decoy_first': ['D'] * n + ['T'] * n}[inp['order']]
            if kinds != want:
                return dict(observed=''.join(kinds), expected=''.join(want))
            return None
        finally:
            shutil.rmtree(tmp, ignore_errors=True)


@register
class DecoyFromArgs(Contract):
    """decoyFasta's options reach the fields of the same meaning: --keep-peptide-nterm / -cterm are on exactly for the text 'true', the
    --non-shuffle-pattern list is the option split at commas, and method, enzyme, seed, maximal shuffle attempts, decoy string, its position,
    the output order and the two paths are handed on unchanged (binding on the real constructor signature); only options the real parser
    defines are read"""
    path, qualname, props = DF, 'DecoyFasta.from_args', ('C20',)
    assumptions = ('assumed: print_start_message / validate_file_format do not change the options',)

    def setup(self, I):
        from .lib import parser_dests, real_namespace
        e = I.e
        st = types.SimpleNamespace(made=None)
        dests = parser_dests('moPepGen.cli.decoy_fasta', 'add_subparser_decoy_fasta')
        st.nterm = ['true', 'false'][e.choose(2, '--keep-peptide-nterm')]
        st.cterm = ['true', 'false'][e.choose(2, '--keep-peptide-cterm')]
        st.opts = {d: SymObj('Opt20', name=d) for d in dests}
        known = dict(st.opts)
        known.update(keep_peptide_nterm=st.nterm, keep_peptide_cterm=st.cterm, non_shuffle_pattern='K,R,P')
        st.args_obj = real_namespace(dests, known)
        st.args = [ClassRef('DecoyFasta', I.repo.get_class('DecoyFasta')), st.args_obj]
        self._cur = st
        return st

    @property
    def models(self):
        c = self

        def inst(reg):
            CM = 'moPepGen/cli/common.py'
            reg.func_(CM, 'print_start_message', lambda I, a, k: None)
            reg.func_(CM, 'validate_file_format', lambda I, a, k: None)

            def mk(I, a, k):
                from pyvc.interp import Env
                mod, cls, fnode = I.repo.function_node(DF, 'DecoyFasta.__init__')
                env = Env({})
                I.bind_args(fnode.args, [SymObj('DecoyFasta')] + list(a), k, env, 'DecoyFasta')
                c._cur.made = dict(env.vars)
                return SymObj('DecoyFasta', **{k2: v for k2, v in env.vars.items() if k2 != 'self'})
            reg.ctor_('DecoyFasta', mk)
        return (inst,)

    def bind_cls(self, I):
        pass

    def post_return(self, I, st, ret):
        e = I.e
        b = st.made or {}
        e.prove('C20/from_args/an-instance-built-from-these-options', st.made is not None and isinstance(ret, SymObj) and ret.cls == 'DecoyFasta')
        e.prove('C20/from_args/keep-flags-on-exactly-for-the-text-true', b.get('keep_peptide_nterm') is (st.nterm == 'true') and b.get('keep_peptide_cterm') is (st.cterm == 'true'))
        e.prove('C20/from_args/pattern-list=option-split-at-commas', b.get('non_shuffle_pattern') == ['K', 'R', 'P'])
        for nm in ('input_path', 'output_path', 'method', 'enzyme', 'shuffle_max_attempts', 'seed', 'decoy_string', 'decoy_string_position', 'order'):
            e.prove(f'C20/from_args/--{nm.replace("_", "-")}-reaches-the-field-{nm}-unchanged', b.get(nm) is st.opts.get(nm))


NATIVE = [NativeDecoy()]


# ----------------------------------------------------------------------------
# the records reach the file
# ----------------------------------------------------------------------------
from .c18c import PoolWrite as _PoolWrite18


@register
class DecoyWrite(_PoolWrite18):
    """DecoyFasta.write(): the output path is opened once for writing; every record of iterate_target_decoy_database() (targets and decoys in the requested
    order, under its own contract) is handed to the FASTA writer exactly once, in that order, titled with its description"""
    path, qualname, props = 'moPepGen/cli/decoy_fasta.py', 'DecoyFasta.write', ('C20',)

    def setup(self, I):
        st = types.SimpleNamespace(log=[])
        st.n = I.e.int('n_records')
        I.e.assume(st.n >= 0)
        zz = lambda i: i if is_z3(i) else z3.IntVal(i)
        st.records = FnView(st.n, lambda i: SymObj('Pep18w', i=zz(i), description=SymObj('Header18w', i=zz(i)), id=SymObj('FirstWord18w', i=zz(i)), name=SymObj('FirstWord18w', i=zz(i))),
                            tag='targets and decoys in the requested order')
        st.target = SymObj('OutPath18w')
        other = lambda tag: FnView(I.e.int('n_' + tag), lambda i: SymObj('Unordered20w', i=zz(i), description=SymObj('Header18w', i=zz(i))), tag=tag)
        st.decoy = SymObj('DecoyFasta20w', output_path=st.target, target_db=other('targets'), decoy_db=other('decoys'), order='juxtaposed')
        st.args = [st.decoy]
        self._cur = st
        return st

    @property
    def models(self):
        c = self
        base = super().models

        def inst(reg):
            reg.method_('DecoyFasta20w', 'iterate_target_decoy_database', lambda I, o, a, k: c._cur.records)
        return base + (inst,)
