"""C19 — from the header of a peptide to the entries filterFasta judges: VariantPeptideInfo.from_variant_peptide_minimal."""
from __future__ import annotations
import types
import z3
from pyvc.contract import Contract, register
from pyvc.core import Unsupported
from pyvc.interp import LoopSpec
from pyvc.values import *

VPL = 'moPepGen/aa/VariantPeptideLabel.py'
KINDS = ('NovelORFPeptideIdentifier', 'CircRNAVariantPeptideIdentifier', 'FusionVariantPeptideIdentifier', 'BaseVariantPeptideIdentifier')


def zz(i):
    return i if is_z3(i) else z3.IntVal(i)


class _Atom:
    """an opaque piece of an identifier (ids, labels), compared by identity"""
    def __init__(self, what, k):
        self.what, self.k = what, k

    def sym_str(self, I):
        return self

    def is_(self, what, k):
        return self.what == what and z3.eq(z3.simplify(zz(self.k)), z3.simplify(zz(k)))


class _InfoList:
    def __init__(self, st):
        self.st = st

    def sym_method(self, I, name, a, k):
        if name == 'append' and len(a) == 1:
            self.st.log.append(a[0])
            return None
        raise Unsupported(f'info_list.{name}')


class _Minimal(Contract):
    """VariantPeptideInfo.from_variant_peptide_minimal(peptide): the header of the peptide is parsed once; every entry of it gives exactly one info, in
    header order, whose label is the entry printed back and whose index is the index of the entry; a novel-ORF entry carries its gene id, a fusion entry
    the variant labels per transcript (the donor's variants followed by the fusion itself under the first transcript, the accepter's under the second),
    every other entry no labels - the transcripts, fusion / circRNA / splicing questions filterFasta asks are answered from these fields"""
    path, qualname, props = VPL, 'VariantPeptideInfo.from_variant_peptide_minimal', ('C19',)
    kind = KINDS[0]

    def name(self):
        return f'{self.path}:{self.qualname}[{self.kind}]'

    def setup(self, I):
        e = I.e
        st = types.SimpleNamespace(log=[], parsed=[])
        st.n = e.int('n_entries')
        e.assume(st.n >= 0)
        st.header = _Atom('header', 0)
        st.peptide = SymObj('AminoAcidSeqRecord', description=st.header, id=st.header, name=st.header, seq=None)

        def ident(i):
            i = zz(i)
            f = dict(index=z3.Function('entry_index', z3.IntSort(), z3.IntSort())(i), k=i)
            if self.kind == 'NovelORFPeptideIdentifier':
                f.update(gene_id=_Atom('gene_id', i))
            if self.kind == 'FusionVariantPeptideIdentifier':
                f.update(fusion_id=_Atom('fusion_id', i), first_variants=[_Atom('first_variant', i)], second_variants=[_Atom('second_variant', i)],
                         first_tx_id=_Atom('first_tx', i), second_tx_id=_Atom('second_tx', i))
            return SymObj(self.kind, **f)
        st.idents = FnView(st.n, ident, tag='entries of the header')
        st.args = [st.peptide]
        self._cur = st
        return st

    @property
    def models(self):
        c = self

        def inst(reg):
            def parse(I, a, k):
                c._cur.parsed.append(a[0])
                return c._cur.idents
            reg.func_('moPepGen/aa/VariantPeptideIdentifier.py', 'parse_variant_peptide_id', parse)
            for cls in KINDS:
                reg.method_(cls, '__str__', lambda I, o, a, k: _Atom('printed', o.fields['k']))
            reg.ctor_('VariantPeptideInfo', lambda I, a, k: SymObj('Info19c', args=list(a), kwargs=dict(k)))
        return (inst,)

    def havoc(self, I, env, k):
        env.set('info_list', _InfoList(self._cur))

    def inv(self, I, env, k):
        v = env.lookup('info_list') if env.has('info_list') else None
        if isinstance(k, int) and k == 0:
            return [('the-list-starts-empty', z3.BoolVal(v == []))]
        return [('the-list-being-filled-is-kept', z3.BoolVal(isinstance(v, _InfoList)))]

    def head(self, I, env, k):
        self._cur.mark = len(self._cur.log)

    def step(self, I, env, k):
        st = self._cur
        new = st.log[st.mark:]
        if len(new) != 1 or not (isinstance(new[0], SymObj) and new[0].cls == 'Info19c'):
            return [('one-info-per-entry', False)]
        a, kw = new[0].fields['args'], new[0].fields['kwargs']
        names = ['orignial_label', 'gene_ids', 'variant_labels', 'variant_index']
        vals = dict(zip(names, a))
        vals.update(kw)
        lab, genes, labels, idx = (vals.get(n, 'missing') for n in names)
        obl = [('label-is-the-entry-printed-back', z3.BoolVal(isinstance(lab, _Atom) and lab.is_('printed', k))),
               ('index-is-the-index-of-the-entry', idx == z3.Function('entry_index', z3.IntSort(), z3.IntSort())(zz(k)) if is_z3(idx) else z3.BoolVal(False))]
        if self.kind == 'NovelORFPeptideIdentifier':
            ok = isinstance(genes, list) and len(genes) == 1 and isinstance(genes[0], _Atom) and genes[0].is_('gene_id', k) and labels == {}
            obl.append(('a-novel-ORF-entry-carries-its-gene-id-and-no-variant-labels', z3.BoolVal(bool(ok))))
        elif self.kind == 'FusionVariantPeptideIdentifier':
            ok = genes is None and isinstance(labels, dict) and len(labels) == 2
            if ok:
                items = list(labels.items())
                (k1, v1), (k2, v2) = items
                ok = (isinstance(k1, _Atom) and k1.is_('first_tx', k) and isinstance(k2, _Atom) and k2.is_('second_tx', k)
                      and isinstance(v1, list) and len(v1) == 2 and v1[0].is_('first_variant', k) and v1[1].is_('fusion_id', k)
                      and isinstance(v2, list) and len(v2) == 1 and v2[0].is_('second_variant', k))
            obl.append(('a-fusion-entry-carries-the-donor-variants-then-the-fusion-under-the-first-transcript-and-the-accepter-variants-under-the-second', z3.BoolVal(bool(ok))))
        else:
            obl.append(('no-gene-ids-and-no-variant-labels', z3.BoolVal(genes is None and labels == {})))
        return obl

    @property
    def loops(self):
        return {0: LoopSpec(inv=self.inv, havoc=self.havoc, on_head=self.head, step=self.step, target_after='unknown',
                            on_break=lambda I, env, k: [('every-entry-is-visited', False)],
                            on_exit=lambda I, env, n: [('all-entries-were-visited', n == self._cur.n)])}

    def post_raise(self, I, st, exc):
        I.e.note(f'raised {exc.cls} {getattr(exc, "args", None)!r}')
        I.e.prove('C19/minimal/no-failure', False)

    def post_return(self, I, st, ret):
        I.e.prove('C19/minimal/the-header-of-this-peptide-is-parsed-once-and-the-filled-list-returned',
                  z3.BoolVal(len(st.parsed) == 1 and st.parsed[0] is st.header and isinstance(ret, _InfoList)))


for _k in KINDS:
    register(type(f'Minimal_{_k}', (_Minimal,), dict(kind=_k, __doc__=_Minimal.__doc__)))
